"""C08 - densified one-permutation hashing is an unbiased Jaccard LSH at any fill ratio"""
import json
import os
from common import *
import densfam
import freqfam
import stats

LEVEL = "other"
MANIFEST = dict(
    category="other",
    text="Structure (exact, TLA+): DensMinHash.tla is model-checked (every bin ends with the pair of a populated bin, populated "
         "bins untouched, termination) and recorded runs are validated by TLC (TraceDens.tla: a sample here, the full "
         "exploration is C09/C04), which reduces a collision at a position to 'both sketches hold the pair of the same "
         "item there'. The expectation itself is decided by frequency validation: cells = {optimal, reverse} x {u64, float, "
         "u32 view} x {f64, f32} x (|A\\B|, |B\\A|, |A n B|, m) from dense (6 items per bin) to very sparse (8 items, m = 1024), "
         "m = 1, equal / disjoint / nested / tiny sets; per cell the mean fraction of equal positions over trials with fresh "
         "random items must lie within the empirical-Bernstein radius (delta = 1e-9) of J. The variance in the sparse regime "
         "is far above the MinHash value, so no variance bound is asserted (the property states none). No exact counting "
         "(L1) is attempted: the collision analysis of copy-of-copy densification is not a uniform counting problem."
         " Cells also run both sets through one sketcher object reused with reinit.",
    design_ref="DESIGN.md section 2.6 and section 4, C09/C08",
    note="statistical test: bias below the radius (about 0.002-0.01 depending on the cell) is invisible; false-alarm "
         "probability <= 1e-9 per cell",
    technique="TLA+ model of densification (TLC) + TLC trace validation of recorded runs + frequency validation (empirical Bernstein)",
)


def shapes():
    # (name, m, groups [count, in A, in B])
    sh = []
    for m in (1, 4, 8):
        sh.append(("dense-overlap", m, [[6 * m, 1, 0], [6 * m, 0, 1], [12 * m, 1, 1]], 0.5))
    sh += [
        ("sparse-8-items-m1024", 1024, [[2, 1, 0], [2, 0, 1], [4, 1, 1]], 0.5),
        ("sparse-nested-m256", 256, [[5, 1, 1], [15, 0, 1]], 0.25),
        ("half-full-m64", 64, [[10, 1, 0], [20, 0, 1], [30, 1, 1]], 0.5),
        ("equal-m32", 32, [[7, 1, 1]], 1.0),
        ("disjoint-m32", 32, [[5, 1, 0], [9, 0, 1]], 0.0),
        ("one-vs-two-m16", 16, [[1, 1, 1], [1, 0, 1]], 0.5),
        ("one-vs-many-m8", 8, [[1, 1, 1], [99, 0, 1]], 0.01),
        ("three-items-m3", 3, [[1, 1, 0], [1, 0, 1], [1, 1, 1]], 1.0 / 3.0),
        ("two-bins", 2, [[1, 1, 0], [2, 1, 1], [1, 0, 1]], 0.5),
        # nested sets whose fill ratios lie on either side of 3/4, 1/2 and 1/8 of the bins filled (empty fraction e^(-n/m)):
        # the two sketches of a pair must be densified by the same rule whatever their fill ratio
        ("straddle-quarter-empty-m128", 128, [[154, 1, 1], [51, 0, 1]], 154.0 / 205.0),      # 30 % / 20 % empty
        ("straddle-half-empty-m128", 128, [[64, 1, 1], [64, 0, 1]], 0.5),                    # 61 % / 37 % empty
        ("straddle-eighth-filled-m256", 256, [[20, 1, 1], [40, 0, 1]], 1.0 / 3.0),           # 92 % / 79 % empty
    ]
    return sh


def trials_for(m, n, quick):
    cost = max(m, n)
    base = 400000 if cost <= 16 else (150000 if cost <= 100 else (40000 if cost <= 300 else 12000))
    return base if quick else base * 6


def run(chk):
    build_harness("fq")
    build_harness("dm")
    quick = chk.tier == "quick"
    densfam.model_check(chk, True)
    densfam.replay_schedules(chk, "L2-sample", nitems=3, ninst=2, depth=3, maxslice=3, stride=200 if quick else 40,
                             ms=[1, 2, 3, 5, 16], reinit=False)
    cells = []
    for name, m, groups, j in shapes():
        n = sum(g[0] for g in groups)
        for alg in ("opt", "rev"):
            for ft, view in (("f64", "u64"), ("f64", "float"), ("f64", "u32"), ("f32", "float"), ("f32", "u64")):
                cells.append(dict(kind="dens_%s_%s_%s" % (alg, ft, view), m=m, groups=groups, shape=name, oracle=j,
                                  trials=trials_for(m, n, quick)))
    # one sketcher object reused with reinit between the two sets
    for name, m, groups, j in shapes():
        if name in ("sparse-nested-m256", "half-full-m64", "one-vs-two-m16", "three-items-m3", "two-bins"):
            n = sum(g[0] for g in groups)
            for alg in ("opt", "rev"):
                for ft, view in (("f64", "u64"), ("f32", "float")):
                    cells.append(dict(kind="dens_%s_%s_%s" % (alg, ft, view), m=m, groups=groups, shape=name + "+reuse", oracle=j,
                                      reuse=True, trials=trials_for(m, n, quick)))
    # the crate's identity hasher: identifiers below 2^32 (their hash has an all-zero low word) and pairs of
    # identifiers that differ by two swapped bytes, all three views
    for name, m, groups, j in shapes():
        if name in ("sparse-nested-m256", "half-full-m64", "one-vs-two-m16", "three-items-m3"):
            n = sum(g[0] for g in groups)
            for alg in ("opt", "rev"):
                for ft, view, ids in (("f64", "u32", "low32"), ("f64", "u64", "paired"), ("f32", "float", "paired"), ("f64", "u32", "paired")):
                    cells.append(dict(kind="dens_%s_%s_%s_no" % (alg, ft, view), m=m, groups=groups, shape=name + "+idhash-" + ids,
                                      oracle=j, ids=ids, trials=trials_for(m, n, quick)))
                # 4-byte items (the other arm of the identity hasher)
                for ft, view in (("f64", "u64"), ("f32", "float")):
                    cells.append(dict(kind="dens_%s_%s_%s_no32" % (alg, ft, view), m=m, groups=groups, shape=name + "+idhash32",
                                      oracle=j, ids="paired32", trials=trials_for(m, n, quick)))
    # two disjoint sets of one-bit twins behind the identity hasher (an item and its twin are different items: J = 0)
    for alg in ("opt", "rev"):
        for bit in (0, 7, 8, 31, 32, 56, 63):
            for ft, view in (("f64", "float"), ("f64", "u64"), ("f32", "float")):
                cells.append(dict(kind="dens_%s_%s_%s_no" % (alg, ft, view), m=16, groups=[[40, 1, 0], [40, 0, 1]],
                                  shape="one-bit-twins-%d" % bit, oracle=0.0, ids="flip%d" % bit, trials=2000))
    res = freqfam.run_pairs(chk, cells, "pairs")
    freqfam.judge_pairs(chk, cells, res, "pairs", check_mse=False)
    chk.cov["pair_cells"] = len(cells)
    chk.cov["rule"] = ("cells = algorithm x view x float type x (set shape, m) with fresh random items per trial; non-trivial = J "
                       "strictly inside (0.02, 0.98)")
    chk.cov["explanation"] = ("frequency validation: |mean - J| <= empirical-Bernstein radius at delta=1e-9 per cell; worst ratio %.3f"
                              % chk.cov["worst_dev_over_radius"]["pairs"])
    chk.assumptions += ["trials are independent (fresh identifiers per trial)"]


def replay(chk, path):
    r = densfam.replay_one(chk, path, "C08")
    if r is not None:
        return r
    return freqfam.replay_cell(chk, path)


def selftest(chk):
    build_harness("fq")
    cells = [dict(kind="dens_opt_f64_u64", m=64, groups=[[10, 1, 0], [20, 0, 1], [30, 1, 1]], shape="st", oracle=0.5, trials=60000)]
    r = freqfam.run_pairs(chk, cells, "st")
    n, mean, var = stats.hist_moments(r[0]["hist"], 64)
    eps = stats.bernstein_radius(n, var, freqfam.DELTA)
    ok = abs(mean - 0.5) <= eps and abs(mean - 0.52) > eps
    log("[C08 selftest] J=0.5 mean=%.4f radius=%.4f: accepted, 0.52 rejected: %s" % (mean, eps, ok))
    return 0 if ok else 2
