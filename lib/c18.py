"""C18 - byte identities of hashed objects (trait Sig) are faithful and memory safe"""
import json
import os
import random
import re
from common import *

LEVEL = "model_checking"
MANIFEST = dict(
        category="model_checking",
        text="SigHeap.tla: a heap-ownership machine (blocks with size/align/state, owners; Alloc, Move, Transfer, "
             "Alias, Free and Read guarded by the GlobalAlloc contract) on which every get_sig implementation is a small "
             "program; TLC proves the safe programs free every block exactly once with its allocation layout and read "
             "only live memory, and refutes today's Vec<u16>/Vec<u32> program (clone + from_raw_parts without forget: "
             "double free; with forget: layout mismatch).  Bytes(v) = native-endian concatenation of limbs / UTF-8, "
             "checked by TLC for length, round trip and injectivity over small domains.  Binding: the harness runs the "
             "real get_sig (and ProbMinHash3aSha over such keys) under a logging, quarantining global allocator; the "
             "recorded alloc/free/read events and the returned bytes are validated by TLC (TraceSigHeap.tla) against the "
             "same heap rules and against Bytes, for TLC-enumerated and random values (empty .. 10^6 elements, multi-byte "
             "strings); equal/different values are compared with equal/different bytes on the real code.",
        design_ref="DESIGN.md section 4, C18",
        note="trusted: TLC, the logging allocator of harness/src/bin/c18.rs (quarantine + block numbering), "
             "to_ne_bytes/as_bytes of std as independent expectation for values too large for TLC; only "
             "allocator-visible errors are seen (no sanitizer: reads inside the code under test are not observed)",
        technique="TLA+ heap-ownership spec + TLC, deviation constants as regression witnesses, TLC trace validation of "
                  "allocator traces recorded from the real code, TLC-enumerated values replayed on the real code",
    )

HEAP_INVS = ["InvNoDoubleFree", "InvLayout", "InvReadLive", "InvUniqueOwner", "InvNoDangling", "InvSafe",
             "InvExactlyOnce", "InvResultRead"]
BYTE_INVS = ["InvLen", "InvByteRange", "InvRoundTrip", "InvInjective", "InvEmit"]
SAFE_PROGS = '{"scalar_ne", "clone", "clone_into", "copy", "copy_grow"}'
LITTLE = (__import__("sys").byteorder == "little")


def consts(progs="{}", fc=True, widths="{1, 2, 4, 8}", lens="{0, 1, 2, 3}", drop=False, emit=False, maxlen=3):
    return dict(Progs=progs, Widths=widths, Lens=lens, ForgetClone=fc, Little=LITTLE, DropHigh=drop, MaxLen=maxlen,
                Emit=emit)


def model_heap(chk, thorough):
    """the heap-ownership machine: safe programs hold, today's program and the forget-only repair are refuted"""
    lens = "{0, 1, 2, 3, 4, 5, 6}" if thorough else "{0, 1, 2, 3}"
    cfg = write_cfg(os.path.join(chk.wd, "heap_safe.cfg"), constants=consts(SAFE_PROGS, lens=lens), invariants=HEAP_INVS)
    res = tlc_check("SigHeap", cfg, chk.wd, workers=1, timeout=1500, coverage=True)
    zero = [a for a in res.coverage_zero_actions() if a in ("Alloc", "Move", "Transfer", "DropNothing", "Free", "Read")]
    if zero:
        raise ToolError("SigHeap: action never taken: %s" % zero)
    chk.tlc_stats(res)
    log("[C18] SigHeap safe programs: %d states, all heap invariants hold (%.1fs)" % (res.distinct, res.wall))
    n_safe = res.distinct
    # today's Vec<u16>/Vec<u32>::get_sig: clone + from_raw_parts, the clone is dropped
    witnesses = ["InvNoDoubleFree"] + (["InvReadLive", "InvUniqueOwner", "InvNoDangling", "InvExactlyOnce"] if thorough else [])
    for inv in witnesses:
        cfg = write_cfg(os.path.join(chk.wd, "heap_today.cfg"),
                        constants=consts('{"reinterpret"}', fc=False, widths="{2, 4}", lens=lens), invariants=[inv])
        res = tlc_check("SigHeap", cfg, chk.wd, workers=1, timeout=1500, expect_violation=inv)
        chk.tlc_stats(res)
    log("[C18] SigHeap ForgetClone=FALSE (today's Vec<u16>/Vec<u32>): %s violated, as expected" % ", ".join(witnesses))
    # forget only: no double free any more, but the free uses align 1 for an align 2/4 block
    keep = [i for i in HEAP_INVS if i not in ("InvLayout", "InvSafe")]
    cfg = write_cfg(os.path.join(chk.wd, "heap_forget.cfg"),
                    constants=consts('{"reinterpret"}', fc=True, widths="{2, 4}", lens=lens), invariants=keep)
    res = tlc_check("SigHeap", cfg, chk.wd, workers=1, timeout=1500)
    chk.tlc_stats(res)
    cfg = write_cfg(os.path.join(chk.wd, "heap_forget2.cfg"),
                    constants=consts('{"reinterpret"}', fc=True, widths="{2, 4}", lens=lens), invariants=["InvLayout"])
    res = tlc_check("SigHeap", cfg, chk.wd, workers=1, timeout=1500, expect_violation="InvLayout")
    chk.tlc_stats(res)
    log("[C18] SigHeap ForgetClone=TRUE: no double free, InvLayout violated (align 1 vs 2/4), as expected")
    if thorough:
        cfg = write_cfg(os.path.join(chk.wd, "heap_forget1.cfg"),
                        constants=consts('{"reinterpret"}', fc=True, widths="{1}", lens=lens), invariants=HEAP_INVS)
        res = tlc_check("SigHeap", cfg, chk.wd, workers=1, timeout=1500)
        chk.tlc_stats(res)
        cfg = write_cfg(os.path.join(chk.wd, "heap_alias.cfg"),
                        constants=consts('{"alias_self"}', widths="{1, 2}", lens=lens), invariants=["InvNoDoubleFree"])
        res = tlc_check("SigHeap", cfg, chk.wd, workers=1, timeout=1500, expect_violation="InvNoDoubleFree")
        chk.tlc_stats(res)
    return n_safe


def model_bytes(chk, maxlen):
    """Bytes over small domains: length, round trip, injectivity; every value is exported for the replay"""
    cfg = write_cfg(os.path.join(chk.wd, "bytes.cfg"), constants=consts(emit=True, maxlen=maxlen), invariants=BYTE_INVS,
                    init="BInit", nxt="BNext")
    res = tlc_check("SigHeap", cfg, chk.wd, workers=1, timeout=900, xss=True)
    chk.tlc_stats(res)
    bvs = res.printed_json("BV")
    if len(bvs) != res.distinct or not bvs:
        raise ToolError("SigHeap bytes mode: %d values exported, %d states" % (len(bvs), res.distinct))
    log("[C18] SigHeap Bytes: %d values, length/round-trip/injectivity hold (%.1fs)" % (res.distinct, res.wall))
    return bvs


def chunks_to_int(ch, w):
    if w == 1:
        return ch[0]
    x = 0
    for c in ch:
        x = x * 65536 + c
    return x


UNS = {1: "u8", 2: "u16", 4: "u32", 8: "u64"}
SGN = {2: "i16", 4: "i32"}


def descs_from_bv(bvs):
    """TLC-enumerated values -> get_sig descriptors (with the bytes the specification expects) and groups"""
    descs = []
    groups = {}
    for bv in bvs:
        k, w, val, bts = bv["kind"], bv["w"], bv["val"], bv["bytes"]
        if k == "scalar":
            x = chunks_to_int(val[0], w)
            descs.append(dict(site="get_sig", type=UNS[w], val=[x], spec_bytes=bts, src="tlc"))
            groups.setdefault(UNS[w], []).append([x])
            if w in SGN:
                sx = x - (1 << (8 * w)) if x >= (1 << (8 * w - 1)) else x
                descs.append(dict(site="get_sig", type=SGN[w], val=[sx], spec_bytes=bts, src="tlc"))
                groups.setdefault(SGN[w], []).append([sx])
        elif k == "signed":
            descs.append(dict(site="get_sig", type=SGN[w], val=[val[0]], spec_bytes=bts, src="tlc"))
            if [val[0]] not in groups.setdefault(SGN[w], []):
                groups[SGN[w]].append([val[0]])
        elif k == "vec":
            xs = [chunks_to_int(e, w) for e in val]
            t = "Vec<%s>" % UNS[w]
            descs.append(dict(site="get_sig", type=t, val=xs, spec_bytes=bts, src="tlc"))
            groups.setdefault(t, []).append(xs)
        elif k == "string":
            s = "".join(chr(c) for c in val)
            descs.append(dict(site="get_sig", type="String", val=s, spec_bytes=bts, src="tlc"))
            groups.setdefault("String", []).append(s)
    for t, vals in sorted(groups.items()):
        uniq = []
        for v in vals:
            if v not in uniq:
                uniq.append(v)
        descs.append(dict(site="group", type=t, vals=uniq, src="tlc"))
    return descs


SCALARS = {"u8": (0, 2 ** 8 - 1), "u16": (0, 2 ** 16 - 1), "u32": (0, 2 ** 32 - 1), "u64": (0, 2 ** 64 - 1),
           "i16": (-2 ** 15, 2 ** 15 - 1), "i32": (-2 ** 31, 2 ** 31 - 1)}
VECS = {"Vec<u8>": "u8", "Vec<u16>": "u16", "Vec<u32>": "u32"}


def plan(chk, thorough):
    """boundary + random values; all randomness from chk.seed"""
    rng = random.Random(chk.seed * 1000003 + 18)
    descs = []
    nrand = 250 if thorough else 40
    for t, (lo, hi) in SCALARS.items():
        vals = {lo, hi, 0, 1, hi - 1, lo + 1, hi // 2, 0x0100 if hi >= 0x0100 else 16, 0x0001}
        for sh in range(0, hi.bit_length() + 1):
            for d in (-1, 0, 1):
                x = (1 << sh) + d
                if lo <= x <= hi:
                    vals.add(x)
                if lo <= -x <= hi:
                    vals.add(-x)
        if hi >= 2 ** 31:
            vals |= {0x01020304, 0x04030201, 0x80000000 if hi >= 2 ** 32 - 1 else 0x7fffffff}
        if hi >= 2 ** 63:
            vals |= {0x0102030405060708, 0x0807060504030201, 2 ** 63, 2 ** 32, 2 ** 32 - 1}
        for _ in range(nrand):
            vals.add(rng.randint(lo, hi))
        for x in sorted(vals):
            descs.append(dict(site="get_sig", type=t, val=[x], src="rand"))
        for g in range(6 if thorough else 2):
            descs.append(dict(site="group", type=t, vals=[[x] for x in rng.sample(sorted(vals), min(len(vals), 40))], src="rand"))
    lengths = [0, 1, 2, 3, 4, 5, 7, 8, 9, 15, 16, 17, 23, 24, 25, 31, 32, 33, 63, 64, 65, 100, 127, 128, 129, 255, 256, 257,
               1000, 1023, 4096, 4097, 65535, 65537, 1000000]
    reps = 4 if thorough else 1
    for t in list(VECS) + ["String"]:
        for rep in range(reps):
            ls = list(lengths)
            if rep > 0:
                ls = [rng.randint(0, 70) for _ in range(30)] + [rng.randint(71, 100000) for _ in range(10)]
            if thorough and rep == 1:
                ls += [1000001, 3000001]
            for n in ls:
                d = dict(site="get_sig", type=t, len=n, seed=rng.getrandbits(40), src="rand")
                if rng.random() < 0.3:
                    d["extra_cap"] = rng.randint(1, 40)
                if t == "String":
                    d["pool"] = "ascii" if rng.random() < 0.25 else "multi"
                descs.append(d)
    # hand-written edge values
    lo, hi = (0x0001, 0x0100)
    for xs in ([lo], [hi], [1, 0], [0, 1], [0, 0], [0], [0xffff], [0xff, 0xff00], [1, 2, 3], [0x0102, 0x0304, 0x0506]):
        descs.append(dict(site="get_sig", type="Vec<u16>", val=xs, src="edge"))
    for xs in ([1], [0x01000000], [1, 0], [0, 1], [0], [0, 0], [0xffffffff], [0x01020304, 0x05060708, 0x090a0b0c]):
        descs.append(dict(site="get_sig", type="Vec<u32>", val=xs, src="edge"))
    for xs in ([0], [0, 0], [255], [1, 0], [0, 1], list(range(256))):
        descs.append(dict(site="get_sig", type="Vec<u8>", val=xs, src="edge"))
    strs = ["", "a", "A", "\u00e9", "e\u0301", "\u20ac", "\U0001f600", "\u0000", "a\u0000b", "ab", "ba", " a", "a ", "\U0010ffff",
            "\ufeffa", "stra\u00dfe", "STRASSE", "\u4e2d\u6587"]
    for s in strs:
        descs.append(dict(site="get_sig", type="String", val=s, src="edge"))
    descs.append(dict(site="group", type="String", vals=strs, src="edge"))
    descs.append(dict(site="group", type="Vec<u16>", src="edge",
                      vals=[[1, 0], [0, 1], [0x0100], [0x0001], [1], [1, 0, 0], [], [0], [0, 0], [0x0101], [1, 1], [1, 0]]))
    descs.append(dict(site="group", type="Vec<u32>", src="edge",
                      vals=[[1, 0], [0, 1], [0x01000000], [1], [0x00010000], [0x00000100], [], [0], [0, 0], [1, 0]]))
    descs.append(dict(site="group", type="Vec<u8>", src="edge",
                      vals=[[1, 0], [0, 1], [1], [], [0], [0, 0], [0, 0, 0], [255], [1, 0]]))
    # random groups: a base value and single-edit variants (one element changed, appended, removed, swapped, byte-swapped)
    for t in list(VECS) + ["String"]:
        for n in ([0, 1, 2, 3, 8, 33, 1000] + ([5, 17, 64, 257, 4097, 100000] if thorough else [])):
            for rep in range(3 if thorough else 1):
                g = dict(len=n, seed=rng.getrandbits(40), variants=12)
                if t == "String":
                    g["pool"] = "multi"
                descs.append(dict(site="group", type=t, gen=g, src="rand"))
    # the sketcher calls key.get_sig() internally
    for t in ["Vec<u8>", "Vec<u16>", "Vec<u32>", "String", "u32", "u64"]:
        for mp in ("idx", "hash"):
            for rep in range(4 if thorough else 1):
                big = thorough and rep >= 2
                descs.append(dict(site="sketch", type=t, nkeys=40 if big else 10, keylen=33 if big else 7,
                                  nbhash=16 if big else 6, seed=rng.getrandbits(40), map=mp, src="rand"))
    descs.append(dict(site="bulk", type="u8", stride=8, src="all"))
    descs.append(dict(site="bulk", type="u16", stride=1024 if thorough else 4096, src="all"))
    descs.append(dict(site="bulk", type="i16", stride=1024 if thorough else 4096, src="all"))
    return descs


def run_harness(chk, descs, tag):
    df = os.path.join(chk.wd, "desc_%s.ndjson" % tag)
    tf = os.path.join(chk.wd, "trace_%s.ndjson" % tag)
    rf = os.path.join(chk.wd, "res_%s.ndjson" % tag)
    write_ndjson(df, [{k: v for k, v in d.items() if k not in ("spec_bytes", "src")} for d in descs])
    harness("c18", ["cases", "in=" + df, "trace=" + tf, "res=" + rf], timeout=1200)
    return tf, read_ndjson(rf)


def tlc_trace(chk, tf):
    """strict validation; after a reject the monitor configuration classifies every case.
    returns (strict result, {case id: CASE record})"""
    v = validate_trace("TraceSigHeap", tf, chk.wd, constants=dict(Strict=True), timeout=1200)
    chk.cov["transitions"] += v["generated"]
    chk.cov["states"] += v["distinct"]
    cases = {}
    if not v["accepted"]:
        m = validate_trace("TraceSigHeap", tf, chk.wd, constants=dict(Strict=False), timeout=1200)
        if not m["accepted"]:
            raise ToolError("C18: the monitor configuration did not consume the trace (malformed trace at line %d)\n%s"
                            % (m["matched"] + 1, m["out"][-2000:]))
        for body in re.findall(r'^<<"CASE", (.*)>>$', m["out"], flags=re.M):
            rec = json.loads(json.loads(body))
            cases[rec["id"]] = rec
        if not any(c["errs"] for c in cases.values()):
            raise ToolError("C18: strict validation rejected line %d but the monitor found no error" % (v["matched"] + 1))
    return v, cases


def case_lines(rows, starts, cid, cap=120):
    i = starts[cid]
    out = []
    while i < len(rows):
        out.append(rows[i])
        if rows[i].get("op") == "end":
            break
        i += 1
    if len(out) > cap:
        out = out[:cap // 2] + [dict(op="...", omitted=len(out) - cap)] + out[-cap // 2:]
    return out


class Raiser:
    """at most 3 replay files per distinct tag set (known findings are only counted)"""

    def __init__(self, chk):
        self.chk = chk
        self.n = {}

    def __call__(self, tags, scen):
        if known_match(self.chk.pid, tags) is not None:
            self.chk.violation(tags, scen)
            return
        key = json.dumps(tags, sort_keys=True)
        self.n[key] = self.n.get(key, 0) + 1
        if self.n[key] <= 3:
            self.chk.violation(tags, scen)
        else:
            self.chk.add("violations_not_written", 1)


def judge(chk, descs, tf, results, v, cases):
    """turn TLC's verdicts and the harness results into violations / known findings / evidence counts"""
    rows = read_ndjson(tf)
    starts = {r["id"]: i for i, r in enumerate(rows) if r.get("op") == "case"}
    if rows[-1].get("op") != "end":
        raise ToolError("C18: trace does not end with an end event")
    raise_ = Raiser(chk)
    by_id = {}
    distinct = set()
    for r in results:
        d = descs[r["d"]]
        site = r["site"]
        if site in ("get_sig", "sketch"):
            by_id[r["id"]] = (r, d)
            chk.add("evaluations", 1)
            chk.add("cases_" + site, 1)
            if r["nevents"] > 0:
                distinct.add((site, r["type"], r.get("len", 0), r["h"]))
            if r.get("panic"):
                raise_(dict(kind="panic", site=site, type=r["type"]), dict(kind="case", desc=d, panic=r["panic"]))
            if site == "get_sig" and "spec_bytes" in d:
                chk.add("tlc_values_replayed", 1)
                if r.get("bytes") != d["spec_bytes"]:
                    raise_(dict(kind="bytes", site="get_sig", type=r["type"], error="bytes_mismatch"),
                           dict(kind="case", desc=d, got=r.get("bytes"), expected_by_spec=d["spec_bytes"]))
                    r["_bytes_raised"] = True
        elif site == "group":
            chk.add("evaluations", r["pairs"])
            chk.add("pairs_compared", r["pairs"])
            chk.add("pairs_different_values", r["pairs_diff"])
            chk.add("pairs_equal_values", r["pairs_eq"])
            for b in r["bad"]:
                err = "different_values_equal_bytes" if b["sigs_equal"] else "equal_values_different_bytes"
                raise_(dict(kind="identity", site="get_sig", type=r["type"], error=err), dict(kind="group", desc=d, pair=b))
        elif site == "bulk":
            chk.add("evaluations", r["count"])
            chk.add("bulk_values", r["count"])
            if r["distinct_sigs"] != r["count"] and r["bad_bytes"] == 0:
                raise ToolError("C18 bulk: %d distinct byte strings for %d values although all bytes were as expected" % (r["distinct_sigs"], r["count"]))
            flagged = [i for i in r["traced"] if i in cases and cases[i]["errs"]]
            if (r["bad_bytes"] or r["bad_heap"]) and not flagged:
                raise ToolError("C18 bulk: the screen reports failures that TLC did not confirm")
            for i in r["traced"]:
                by_id[i] = (dict(r, id=i, site="get_sig", nonempty=True, screen=None), dict(d, traced_case=i))
    # TLC's per-case verdicts
    for cid, rec in sorted(cases.items()):
        if cid not in by_id:
            raise ToolError("C18: TLC reported case %s that the harness did not describe" % cid)
        r, d = by_id[cid]
        kinds = [e["kind"] for e in rec["errs"]]
        heap = sorted(set(k for k in kinds if not k.startswith("bytes_")))
        byts = sorted(set(k for k in kinds if k.startswith("bytes_")))
        if r.get("screen") is not None and set(r["screen"]) != set(heap):
            raise ToolError("C18: TLC and the harness screen disagree on case %s: %s vs %s" % (cid, heap, r["screen"]))
        if rec.get("leaked"):
            chk.add("drift_leaked_temporaries", rec["leaked"])
        scen = dict(kind="case", desc=d, header=rows[0], errs=rec["errs"], lines=case_lines(rows, starts, cid))
        if heap:
            raise_(dict(kind="heap", site=r["site"], type=r["type"], error="+".join(heap), nonempty=bool(r.get("nonempty"))), scen)
        if byts and not r.get("_bytes_raised"):
            raise_(dict(kind="bytes", site=r["site"], type=r["type"], error="bytes_mismatch"), scen)
    # consistency: what the harness saw must be what TLC said
    for cid, (r, d) in by_id.items():
        bad_h = bool(r.get("screen"))
        bad_b = (r.get("site") == "get_sig" and r.get("screen") is not None and not r.get("eq"))
        said = cid in cases and bool(cases[cid]["errs"])
        if (bad_h or bad_b) != said and r.get("screen") is not None:
            raise ToolError("C18: harness and TLC disagree on case %s (%s / %s)" % (cid, r.get("screen"), cases.get(cid)))
    ncases = len(starts)
    chk.add("traces_validated_against_impl", ncases)
    chk.add("trace_events", len(rows) - 1 - 2 * ncases)
    chk.add("distinct_nontrivial", len(distinct))
    chk.add("cases_rejected_by_tlc", sum(1 for c in cases.values() if c["errs"]))
    return rows, by_id, starts


def run(chk):
    build_harness("c18")
    thorough = chk.tier == "thorough"
    chk.cov["rule"] = ("cases = get_sig on TLC-enumerated values (every state of SigHeap's Bytes mode) + boundary/random "
                       "values of every Sig type (lengths 0..10^6) + ProbMinHash3aSha runs, each recorded under the logging "
                       "allocator and validated by TLC; non-trivial = the observation window contains at least one "
                       "allocation, distinct by (site, type, length, hash of the returned bytes / of the event sequence); "
                       "plus value pairs compared for equal/different bytes, and all u8/u16/i16 values screened in bulk")
    chk.assumptions += ["the logging allocator numbers blocks by first allocation and quarantines frees inside a window, so "
                        "pointers are never reused inside one case",
                        "reads performed inside the code under test are not observable; only the harness's own read of the "
                        "result is a Read event",
                        "for values too large to log, the bytes are compared in the harness with to_ne_bytes / as_bytes",
                        "bulk mode (all u8/u16/i16 values): a Rust-side screen with the same rules decides which cases are "
                        "shown to TLC (every failing one up to 20 per type, and a regular sample)"]
    n_safe = model_heap(chk, thorough)
    bvs = model_bytes(chk, 4 if thorough else 3)
    descs = descs_from_bv(bvs) + plan(chk, thorough)
    tf, results = run_harness(chk, descs, "main")
    v, cases = tlc_trace(chk, tf)
    rows, by_id, starts = judge(chk, descs, tf, results, v, cases)
    log("[C18] %d cases (%d trace lines) recorded from the real code; strict validation %s%s; %d cases with rule "
        "violations; %d value pairs compared" % (
            chk.cov["traces_validated_against_impl"], len(rows), "accepted" if v["accepted"] else "rejected at line %d" % (v["matched"] + 1),
            "" if v["accepted"] else " (monitor run classified every case)", chk.cov.get("cases_rejected_by_tlc", 0),
            chk.cov.get("pairs_compared", 0)))
    # samples: real cases
    seen = set()
    for cid in sorted(by_id):
        r, d = by_id[cid]
        if r.get("screen") is None or r["nevents"] == 0 or r["type"] in seen:
            continue
        if (r["site"] == "get_sig" and r["type"] in ("Vec<u16>", "String", "u64") and 4 <= r.get("len", 0) <= 12) or \
                (r["site"] == "sketch" and r["type"] == "Vec<u8>"):
            seen.add(r["type"])
            chk.sample(dict(desc={k: x for k, x in d.items() if k != "spec_bytes"}, trace=case_lines(rows, starts, cid, cap=16)))
    chk.sample(dict(what="tlc-enumerated value", **bvs[len(bvs) // 2]))
    chk.cov["exhaustive"] = False
    chk.cov["explanation"] = ("TLC: complete state graphs of the get_sig programs (%d states for the safe programs) and all %d "
                              "values of the Bytes domains; implementation: TLC-validated allocator traces of sampled values, "
                              "u8/u16/i16 exhaustively (bulk screen)" % (n_safe, len(bvs)))


def replay(chk, path):
    sc = json.load(open(path))
    tags, sc = sc.get("tags", {}), sc["scenario"]
    build_harness("c18")
    d = sc["desc"]
    tf, results = run_harness(chk, [d], "replay")
    bad = False
    if sc["kind"] == "group":
        for r in results:
            for b in r.get("bad", []):
                log("pair: %s" % json.dumps(b))
                bad = True
    else:
        v = validate_trace("TraceSigHeap", tf, chk.wd, constants=dict(Strict=True))
        if not v["accepted"]:
            bad = True
            m = validate_trace("TraceSigHeap", tf, chk.wd, constants=dict(Strict=False))
            for body in re.findall(r'^<<"CASE", (.*)>>$', m["out"], flags=re.M):
                log("TLC: %s" % json.loads(body))
        for r in results:
            if "spec_bytes" in d and r.get("site") == "get_sig" and r.get("bytes") != d["spec_bytes"]:
                log("bytes %s, the specification expects %s" % (r.get("bytes"), d["spec_bytes"]))
                bad = True
            if r.get("panic"):
                log("panic: %s" % r["panic"])
                bad = True
    log("replayed %s: %s" % (json.dumps({k: x for k, x in d.items() if k != "spec_bytes"})[:300], "still failing" if bad else "passes now"))
    if bad:
        log("VIOLATION property=C18 replay=%s" % path)
    return 1 if bad else 0


def selftest(chk):
    """anti-vacuity: deviation constants are refuted by TLC; corrupted / truncated traces are rejected"""
    build_harness("c18")
    wd = chk.wd
    # 1. deviations of the model
    for name, c, inv in [
            ("ForgetClone=FALSE", consts('{"reinterpret"}', fc=False, widths="{2, 4}"), "InvNoDoubleFree"),
            ("ForgetClone=FALSE", consts('{"reinterpret"}', fc=False, widths="{2, 4}"), "InvReadLive"),
            ("ForgetClone=TRUE", consts('{"reinterpret"}', fc=True, widths="{2, 4}"), "InvLayout"),
            ("alias_self", consts('{"alias_self"}', widths="{1}"), "InvNoDoubleFree")]:
        cfg = write_cfg(os.path.join(wd, "st_heap.cfg"), constants=c, invariants=[inv])
        tlc_check("SigHeap", cfg, wd, workers=1, timeout=1500, expect_violation=inv)
        log("[C18 selftest] SigHeap %s: %s refuted by TLC" % (name, inv))
    cfg = write_cfg(os.path.join(wd, "st_bytes.cfg"), constants=consts(drop=True, maxlen=2), invariants=["InvInjective"],
                    init="BInit", nxt="BNext")
    tlc_check("SigHeap", cfg, wd, workers=1, timeout=1500, xss=True, expect_violation="InvInjective")
    log("[C18 selftest] SigHeap DropHigh=TRUE: InvInjective refuted by TLC")
    # 2. a recorded trace of types that are sound today must be accepted ...
    descs = [dict(site="get_sig", type="u32", val=[0x01020304]), dict(site="get_sig", type="Vec<u8>", val=[1, 2, 3, 4, 5]),
             dict(site="get_sig", type="String", val="hé€"), dict(site="get_sig", type="i16", val=[-2]),
             dict(site="get_sig", type="Vec<u8>", len=1000, seed=3), dict(site="sketch", type="String", nkeys=5, keylen=5, nbhash=4, seed=1, map="idx")]
    tf, results = run_harness(chk, descs, "st")
    v = validate_trace("TraceSigHeap", tf, wd, constants=dict(Strict=True))
    assert v["accepted"], "the base trace of the selftest must be accepted"
    rows = read_ndjson(tf)

    def variant(name, new_rows, want_kind):
        f = os.path.join(wd, "st_%s.ndjson" % name)
        write_ndjson(f, new_rows)
        s = validate_trace("TraceSigHeap", f, wd, constants=dict(Strict=True))
        m = validate_trace("TraceSigHeap", f, wd, constants=dict(Strict=False))
        kinds = []
        for body in re.findall(r'^<<"CASE", (.*)>>$', m["out"], flags=re.M):
            kinds += [e["kind"] for e in json.loads(json.loads(body))["errs"]]
        ok = (not s["accepted"]) and want_kind in kinds
        log("[C18 selftest] %s: strict rejected=%s at line %d, monitor says %s (expected %s)" % (
            name, not s["accepted"], s["matched"] + 1, kinds, want_kind))
        return ok, s

    # case 1 is Vec<u8> [1..5]: lines case, alloc, read, free, end
    i_case = [i for i, r in enumerate(rows) if r.get("op") == "case"][1]
    i_free = [i for i in range(i_case, len(rows)) if rows[i].get("op") == "free"][0]
    i_end = [i for i in range(i_case, len(rows)) if rows[i].get("op") == "end"][0]
    oks = []
    # ... a duplicated free is a double free
    ok, s = variant("dupfree", rows[:i_free + 1] + [rows[i_free]] + rows[i_free + 1:], "double_free")
    oks.append(ok and s["matched"] == i_free + 1)
    # ... a removed final free: the result is not freed exactly once
    ok, s = variant("nofree", rows[:i_free] + rows[i_free + 1:], "result_not_freed")
    oks.append(ok and s["matched"] == i_end - 1)
    # ... one observed byte corrupted
    bad = [dict(r) for r in rows]
    bad[i_end]["bytes"] = list(bad[i_end]["bytes"])
    bad[i_end]["bytes"][2] ^= 1
    ok, s = variant("byte", bad, "bytes_mismatch_spec")
    oks.append(ok and s["matched"] == i_end)
    # ... the free uses another alignment
    bad = [dict(r) for r in rows]
    bad[i_free]["align"] = 2
    ok, s = variant("align", bad, "layout_mismatch")
    oks.append(ok and s["matched"] == i_free)
    # ... the read is moved after the free
    i_read = [i for i in range(i_case, len(rows)) if rows[i].get("op") == "read"][0]
    sw = list(rows)
    sw[i_read], sw[i_free] = sw[i_free], sw[i_read]
    ok, s = variant("readafterfree", sw, "read_after_free")
    oks.append(ok)
    # ... a free of a pointer that was not allocated inside the window
    bad = [dict(r) for r in rows]
    bad[i_free]["b"] = 0
    ok, s = variant("foreign", bad, "free_foreign")
    oks.append(ok)
    log("[C18 selftest] %d/%d trace mutations rejected with the expected classification" % (sum(oks), len(oks)))
    return 0 if all(oks) else 2
