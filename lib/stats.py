"""distribution-free acceptance radii for frequency validation (DESIGN 2.4, 2.6)"""
import math
from fractions import Fraction


def hist_moments(hist, m):
    """hist[k] = number of trials with k equal positions out of m; returns N, mean, sample variance of f = k/m"""
    n = sum(hist)
    if n == 0:
        return 0, 0.0, 0.0
    s1 = sum(Fraction(k, m) * c for k, c in enumerate(hist))
    s2 = sum(Fraction(k, m) ** 2 * c for k, c in enumerate(hist))
    mean = s1 / n
    var = (s2 - n * mean * mean) / (n - 1) if n > 1 else Fraction(0)
    return n, float(mean), max(float(var), 0.0)


def bernstein_radius(n, var, delta):
    """empirical Bernstein (Maurer & Pontil 2009), two-sided, values in [0,1]"""
    if n < 2:
        return 1.0
    lg = math.log(4.0 / delta)
    return math.sqrt(2.0 * var * lg / n) + 7.0 * lg / (3.0 * (n - 1))


def hoeffding_radius(n, delta):
    return math.sqrt(math.log(2.0 / delta) / (2.0 * n)) if n else 1.0


def dkw_radius(n, delta):
    """Dvoretzky-Kiefer-Wolfowitz: sup |F_n - F| <= eps with probability >= 1 - delta"""
    return math.sqrt(math.log(2.0 / delta) / (2.0 * n)) if n else 1.0
