"""C15 - the max tracker reports the true maximum of per-slot minima"""
import json
import os
from common import *

LEVEL = "model_checking"
MANIFEST = dict(
        category="model_checking",
        text="TLC explores the complete state graph of the tracker (MaxTracker.tla, propagation loop transcribed "
             "statement by statement) for M=1..8 (quick) / 1..10 (thorough) and checks that it refines 'per-slot minima "
             "and their maximum'; every transition of those graphs is replayed on the real tracker and leaves, maximum, "
             "is_update_possible and reset are compared; random update/reset sequences at M up to 5000 are recorded from "
             "the real tracker and validated by TLC against the abstract layer (TraceMaxTracker.tla)."
             " One tracker per size lives through 140000 (updates, reset) cycles (every node rewritten often / nodes last written 2^16 resets ago) and is compared with a new tracker around every multiple of 2^8 and 2^16 resets.",
        design_ref="DESIGN.md section 4, C15",
        note="trusted: TLC, the guarded wrapper verif::VerifMaxTracker (forwarding only), the order isomorphism between "
             "model values and reals; exhaustive only for the listed (M,V)",
        technique="TLA+ spec + TLC complete state graph, transition-by-transition replay into the Rust tracker, TLC trace validation of recorded runs",
    )
INVS = ["InvLeaves", "InvMax", "InvTree", "InvPossible", "InvReset"]


def graphs(tier):
    if tier == "quick":
        return [(1, 3), (2, 3), (3, 3), (4, 3), (5, 3), (6, 3), (7, 2), (8, 2)]
    return [(1, 4), (2, 4), (3, 4), (4, 4), (5, 4), (6, 4), (7, 3), (8, 3), (9, 2), (10, 2)]


def model_and_replay(chk, graphs_, tag=""):
    """complete state graph per (M, V); every transition exported and replayed on the real tracker"""
    for (m, v) in graphs_:
        cfg = write_cfg(os.path.join(chk.wd, "MT_%d_%d.cfg" % (m, v)), constants=dict(M=m, V=v, Emit=True),
                        view="view", invariants=INVS, action_constraints=["EmitTransition"])
        res = tlc_check("MaxTracker", cfg, chk.wd, workers=1, timeout=1500, xss=True, coverage=True)
        zero = [a for a in res.coverage_zero_actions() if a in ("Update", "Reset")]
        if zero:
            raise ToolError("MaxTracker: action never taken: %s" % zero)
        chk.tlc_stats(res)
        trs = res.printed_json("TR")
        if len(trs) != res.generated - 1:
            raise ToolError("MaxTracker M=%d V=%d: %d transitions exported, %d generated" % (m, v, len(trs), res.generated))
        tf = os.path.join(chk.wd, "tr_%d_%d.ndjson" % (m, v))
        write_ndjson(tf, trs)
        of = os.path.join(chk.wd, "rp_%d_%d.json" % (m, v))
        harness("c15", ["replay", "in=" + tf, "out=" + of, "seed=%d" % chk.seed])
        r = json.load(open(of))
        chk.add("evaluations", r["evaluations"])
        chk.add("transitions_replayed", r["evaluations"])
        nontriv = sum(1 for t in trs if t["a"][0] >= 0 and t["s"] != t["t"] and max(t["s"]) != max(t["t"])) \
            + sum(1 for t in trs if t["a"][0] >= 0 and t["s"] != t["t"] and max(t["s"]) == max(t["t"]) and len(set(t["s"])) > 1)
        chk.add("distinct_nontrivial", nontriv)
        chk.add("drift_inner_nodes", r["drift"])
        if trs:
            chk.sample(dict(kind="transition", **trs[len(trs) // 2]))
        for mm in r["mismatches"]:
            chk.violation(dict(kind="transition", m=m), dict(kind="transition", **mm))
        log("[C15] M=%d V=%d: %d states, %d transitions replayed, %d mismatches, drift=%d (%.1fs)" % (
            m, v, res.distinct, len(trs), len(r["mismatches"]), r["drift"], res.wall))
        os.remove(tf)


def record_and_validate(chk, runs, maxm, length, seed):
    tf = os.path.join(chk.wd, "trace_%d_%d.ndjson" % (maxm, seed))
    harness("c15", ["record", "out=" + tf, "seed=%d" % seed, "runs=%d" % runs, "maxm=%d" % maxm, "len=%d" % length])
    v = validate_trace("TraceMaxTracker", tf, chk.wd)
    rows = read_ndjson(tf)
    nruns = sum(1 for r in rows if r.get("op") == "new")
    chk.add("traces_validated_against_impl", nruns)
    chk.add("trace_events", len(rows) - 1)
    chk.add("evaluations", len(rows) - 1)
    panics = [r for r in rows if r.get("op") == "panic"]
    if not v["accepted"]:
        bad = rows[v["matched"]] if v["matched"] < len(rows) else None
        run = bad.get("run") if bad else None
        scen = [r for r in rows if r.get("run") == run]
        chk.violation(dict(kind="trace", op=(bad or {}).get("op")),
                      dict(kind="trace", header=rows[0], rejected_event=bad, run_events=scen,
                           cmd="c15-record seed=%d runs=%d maxm=%d len=%d" % (seed, runs, maxm, length)))
    elif panics:
        raise ToolError("panic event accepted by the trace spec")
    chk.sample(dict(kind="trace-event", **rows[min(len(rows) - 1, 7)]))
    log("[C15] trace maxm=%d: %d events in %d runs, accepted=%s (%.1fs)" % (maxm, len(rows) - 1, nruns, v["accepted"], v["wall"]))
    return v, tf


def run(chk):
    build_harness("c15")
    chk.cov["rule"] = ("complete TLC state graphs of MaxTracker.tla for the listed (M,V); every transition (s,a,s') is "
                       "replayed on the real tracker (state built by a seed-dependent path); non-trivial = an improving "
                       "update that changes the maximum, or changes a slot while slots differ; plus random update/reset "
                       "sequences recorded from the real tracker and validated by TLC (TraceMaxTracker.tla)")
    chk.assumptions += ["the guarded wrapper probminhash::verif::VerifMaxTracker forwards to the crate-private tracker",
                        "values are compared through an order isomorphism (random increasing reals / ranks)"]
    model_and_replay(chk, graphs(chk.tier))
    if chk.tier == "quick":
        plans = [(40, 12, 60, chk.seed), (6, 1000, 300, chk.seed + 1)]
    else:
        plans = [(300, 16, 100, chk.seed), (30, 1000, 600, chk.seed + 1), (10, 5000, 1500, chk.seed + 2)]
    for (runs, maxm, length, seed) in plans:
        record_and_validate(chk, runs, maxm, length, seed)
    long_life(chk)
    chk.cov["exhaustive"] = True
    chk.cov["explanation"] = "exhaustive for the listed (M,V) graphs; larger M sampled by recorded traces"
    chk.cov["graphs"] = ["M=%d,V=%d" % g for g in graphs(chk.tier)]


def long_life(chk):
    """one tracker through 140000 (400000) cycles of (one or two updates, reset), compared with a new one at check points"""
    out = os.path.join(chk.wd, "longlife.json")
    cycles = 140000 if chk.tier == "quick" else 400000
    harness("c15", ["longlife", "out=" + out, "seed=%d" % chk.seed, "cycles=%d" % cycles], timeout=1500)
    n = 0
    for c in json.load(open(out))["cases"]:
        chk.add("evaluations", c["cycles"])
        n += c["checks"]
        if c.get("panic"):
            chk.violation(dict(kind="long-life", what="panic", m=c["m"]), dict(kind="long-life", case=c, seed=chk.seed))
        elif c["bad"]:
            chk.violation(dict(kind="long-life", what="differs-from-new", m=c["m"]), dict(kind="long-life", case=c, seed=chk.seed))
    log("[C15] long life: one tracker per size through %d (updates, reset) cycles, %d comparisons with a new tracker" % (cycles, n))


def replay(chk, path):
    sc = json.load(open(path))["scenario"]
    build_harness("c15")
    if sc["kind"] == "long-life":
        out = os.path.join(chk.wd, "longlife_replay.json")
        harness("c15", ["longlife", "out=" + out, "seed=%d" % sc["seed"], "cycles=%d" % sc["case"]["cycles"]], timeout=1500)
        bad = [c for c in json.load(open(out))["cases"] if c["m"] == sc["case"]["m"] and (c["bad"] or c.get("panic"))]
        for c in bad:
            log(json.dumps(c)[:1200])
        if bad:
            log("VIOLATION property=C15 replay=%s" % path)
        return 1 if bad else 0
    if sc["kind"] == "transition":
        tf = os.path.join(chk.wd, "one.ndjson")
        write_ndjson(tf, [sc["rec"]])
        of = os.path.join(chk.wd, "one.json")
        bad = 0
        for s in range(20):
            harness("c15", ["replay", "in=" + tf, "out=" + of, "seed=%d" % (chk.seed + s)])
            r = json.load(open(of))
            bad += len(r["mismatches"])
            for mm in r["mismatches"][:1]:
                log(json.dumps(mm["bad"]))
        log("replayed transition 20 times: %d mismatching" % bad)
        if bad:
            log("VIOLATION property=C15 replay=%s" % path)
        return 1 if bad else 0
    else:
        tf = os.path.join(chk.wd, "one.ndjson")
        write_ndjson(tf, [sc["header"]] + sc["run_events"])
        v = validate_trace("TraceMaxTracker", tf, chk.wd)
        log("recorded run re-validated: accepted=%s" % v["accepted"])
        if not v["accepted"]:
            log("VIOLATION property=C15 replay=%s" % path)
        return 0 if v["accepted"] else 1


def selftest(chk):
    """anti-vacuity: a corrupted observation and a removed event must be rejected"""
    build_harness("c15")
    v, tf = record_and_validate(chk, 10, 8, 40, chk.seed)
    assert v["accepted"]
    rows = read_ndjson(tf)
    idx = [i for i, r in enumerate(rows) if r.get("op") == "update" and r["max"] < 1000000][5]
    bad = [dict(r) for r in rows]
    bad[idx]["max"] = bad[idx]["max"] + 1
    f2 = os.path.join(chk.wd, "corrupt.ndjson")
    write_ndjson(f2, bad)
    v2 = validate_trace("TraceMaxTracker", f2, chk.wd)
    # remove an improving update
    idx2 = [i for i, r in enumerate(rows) if r.get("op") == "update" and i + 1 < len(rows)
            and rows[i - 1].get("op") == "update" and rows[i + 1].get("op") == "update"
            and rows[i - 1]["leaves"] != r["leaves"] and rows[i + 1]["k"] != r["k"]][3]
    f3 = os.path.join(chk.wd, "removed.ndjson")
    write_ndjson(f3, rows[:idx2] + rows[idx2 + 1:])
    v3 = validate_trace("TraceMaxTracker", f3, chk.wd)
    ok = (not v2["accepted"]) and v2["matched"] == idx and (not v3["accepted"])
    log("[C15 selftest] corrupted field rejected at line %d (expected %d): %s; removed event rejected: %s" % (
        v2["matched"] + 1, idx + 1, not v2["accepted"], not v3["accepted"]))
    return 0 if ok else 2
