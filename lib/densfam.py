"""densified one-permutation sketchers: shared by C04, C09, C13 (harness bin `dm`, TraceDens.tla, DensMinHash.tla)"""
import json
import os
from common import *
import joinfam


def model_check(chk, quick):
    """DensMinHash.tla: safety + termination under fairness from every occupancy pattern; the pre-repair deviation
    (ReportEmpty = FALSE) must be refuted (lasso on the empty pattern)"""
    tot = 0
    for alg in ("opt", "rev"):
        for m in ([3, 4] if quick else [2, 3, 4, 5, 6]):
            cfg = write_cfg(os.path.join(chk.wd, "dens_%s_%d.cfg" % (alg, m)),
                            constants=dict(M=m, Alg='"%s"' % alg, ReportEmpty=True),
                            invariants=["Untouched", "CopiedFromPopulated", "CountOK", "Idempotent", "FailOnlyEmpty"],
                            properties=["Terminates"])
            res = tlc_check("DensMinHash", cfg, chk.wd, workers=4, timeout=900)
            chk.tlc_stats(res)
            tot += res.distinct
        cfg = write_cfg(os.path.join(chk.wd, "dens_%s_dev.cfg" % alg),
                        constants=dict(M=3, Alg='"%s"' % alg, ReportEmpty=False),
                        invariants=["Untouched", "CopiedFromPopulated", "CountOK"], properties=["Terminates"])
        tlc_check("DensMinHash", cfg, chk.wd, workers=2, timeout=1500, expect_violation="Terminates")
    chk.cov.setdefault("layer_b", {})["DensMinHash"] = dict(distinct_states=tot, deviations_refuted=["ReportEmpty=FALSE (opt, rev)"])
    log("[%s] DensMinHash.tla: %d distinct states, safety + termination hold from every occupancy pattern; "
        "pre-repair deviation refuted" % (chk.pid, tot))


def dens_tags(hdr, bad):
    return dict(alg=hdr.get("alg"), out=bad.get("out"),
                empty=bool(bad.get("ne") is not None and hdr.get("m") is not None and bad.get("ne") == hdr.get("m")))


def validate_dens(chk, tf, label, max_rounds=8):
    hang = tf + ".hang"
    if os.path.exists(hang):
        # the harness stopped at a call that did not return: the trace is incomplete and is not validated
        desc = json.load(open(hang))
        chk.violation(dict(kind="hang", alg=desc.get("alg"), where=label), dict(kind="dens-hang", call=desc))
        os.remove(hang)
        log("[%s] %s: a call did not return within the watchdog limit: %s" % (chk.pid, label, json.dumps(desc)[:300]))
        return 1
    rows = read_ndjson(tf)
    total_runs = sum(1 for r in rows if r.get("op") == "new")
    chk.add("traces_validated_against_impl", total_runs)
    chk.add("trace_events", len(rows) - 1 - total_runs)
    chk.add("evaluations", len(rows) - 1 - total_runs)
    # non-trivial: runs in which a densification really filled at least one bin from at least two populated ones
    nt = 0
    hdr = None
    for r in rows[1:]:
        if r.get("op") == "new":
            hdr = r
        elif r.get("op") in ("en", "sl") and r.get("ne") == 0 and len(set(r.get("it", []))) >= 2:
            nt += 1
    chk.add("distinct_nontrivial", nt)
    cur = tf
    rounds = 0
    rejected = 0
    wall = 0
    while True:
        v = validate_trace("TraceDens", cur, chk.wd, timeout=1500)
        wall += v["wall"]
        if v["accepted"]:
            break
        rounds += 1
        rejected += 1
        rws = read_ndjson(cur)
        bad = rws[v["matched"]]
        run = bad.get("run")
        hd = [r for r in rws if r.get("op") == "new" and r.get("run") == run]
        evs = [r for r in rws if r.get("run") == run and r.get("op") != "new"]
        tags = dict(kind="dens", op=bad.get("op"), where=label)
        tags.update(dens_tags(hd[0] if hd else {}, bad))
        chk.violation(tags, dict(kind="dens-trace", label=label, header=hd[0] if hd else None, events=evs, rejected_event=bad))
        if rounds >= max_rounds:
            chk.notes.append("%s: more than %d rejected runs, remainder not examined" % (label, max_rounds))
            break
        cur = os.path.join(chk.wd, "rest_%d_%s" % (rounds, os.path.basename(tf)))
        write_ndjson(cur, [r for r in rws if r.get("run") != run])
    for r in rows[2:6]:
        if r.get("op") in ("en", "sl"):
            chk.sample(dict(label=label, **r), cap=8)
            break
    log("[%s] %s: %d events in %d runs, %d run(s) rejected (%.1fs TLC)" % (chk.pid, label, len(rows) - 1 - total_runs,
                                                                           total_runs, rejected, wall))
    return rejected


def run_dm(chk, args, tf):
    rc, out = harness("dm", args, timeout=1800, ok=(0, 7))
    return rc


def replay_schedules(chk, label, nitems, ninst, depth, maxslice, stride, ms, reinit=True, seed=None):
    f, n, res = joinfam.gen_schedules(chk, "dens_" + label, nitems=nitems, ninst=ninst, depth=depth, maxslice=maxslice,
                                      reinit=reinit, end=True)
    chk.cov["schedules_" + label] = n
    tf = os.path.join(chk.wd, "trace_dens_%s.ndjson" % label)
    run_dm(chk, ["replay", "in=" + f, "out=" + tf, "seed=%d" % (chk.seed if seed is None else seed), "stride=%d" % stride,
                 "ms=" + ",".join(str(m) for m in ms)], tf)
    return validate_dens(chk, tf, label)


def patterns(chk, ms):
    """every occupancy pattern (2^m, incl. the empty one) for both algorithms and float types"""
    tot = 0
    for m in ms:
        tf = os.path.join(chk.wd, "trace_patterns_%d.ndjson" % m)
        run_dm(chk, ["patterns", "out=" + tf, "m=%d" % m, "seed=%d" % chk.seed], tf)
        validate_dens(chk, tf, "patterns-m%d" % m)
        tot += 4 * (2 ** m)
    chk.cov["occupancy_patterns_realised"] = tot
    return tot


def ties(chk):
    """f32 tie witnesses (two items, same bin, same value) streamed in both orders, item-wise and as slices"""
    tf = os.path.join(chk.wd, "trace_ties.ndjson")
    run_dm(chk, ["ties", "out=" + tf, "seed=%d" % chk.seed, "pairs=%d" % (3 if chk.tier == "quick" else 10)], tf)
    return validate_dens(chk, tf, "f32-ties")


def big(chk, thorough):
    of = os.path.join(chk.wd, "big.json")
    rc, out = harness("dm", ["big", "out=" + of, "seed=%d" % chk.seed, "thorough=%d" % (1 if thorough else 0)],
                      timeout=1800, ok=(0, 7))
    if rc == 7:
        desc = json.load(open(of + ".hang"))
        chk.violation(dict(kind="hang", alg=desc.get("alg"), where="big"), dict(kind="dens-hang", call=desc))
        return
    r = json.load(open(of))
    for c in r["cases"]:
        chk.add("evaluations", 1)
        if c["bad"]:
            chk.violation(dict(kind="dens-big", alg=c["alg"], what=c["bad"][0].split(" ")[0]), dict(kind="dens-big", case=c, seed=chk.seed))
    chk.cov["large_cases"] = len(r["cases"])
    log("[%s] large sketches: %d cases (m up to %d), %d bad" % (chk.pid, len(r["cases"]), max(c["m"] for c in r["cases"]),
                                                                sum(1 for c in r["cases"] if c["bad"])))


def c04_part(chk, quick):
    build_harness("dm")
    replay_schedules(chk, "c04", nitems=3, ninst=2, depth=3, maxslice=3, stride=25 if quick else 3, ms=[1, 2, 3, 5, 16], reinit=False)
    patterns(chk, [3, 4] if quick else [2, 3, 4, 5, 6])
    ties(chk)


def c13_part(chk, quick):
    build_harness("dm")
    replay_schedules(chk, "c13", nitems=3, ninst=1, depth=4, maxslice=2, stride=40 if quick else 4, ms=[1, 2, 3, 5], reinit=True)


def replay_one(chk, path, pid):
    sc = json.load(open(path))["scenario"]
    if sc.get("kind") == "dens-trace":
        tf = os.path.join(chk.wd, "one.ndjson")
        write_ndjson(tf, [dict(kind="dens"), sc["header"]] + sc["events"])
        v = validate_trace("TraceDens", tf, chk.wd)
        log("recorded run re-validated by TLC: accepted=%s (first unmatched event index %d)" % (v["accepted"], v["matched"]))
        if not v["accepted"]:
            log("VIOLATION property=%s replay=%s" % (pid, path))
        return 0 if v["accepted"] else 1
    if sc.get("kind") == "dens-big":
        # the large cases are run again with the seed of the scenario and the same case is looked up
        of = os.path.join(chk.wd, "big_replay.json")
        rc, out = harness("dm", ["big", "out=" + of, "seed=%d" % sc.get("seed", chk.seed), "thorough=0"], timeout=1800, ok=(0, 7))
        bad = rc == 7
        if not bad:
            c0 = sc["case"]
            for c in json.load(open(of))["cases"]:
                if (c["alg"], c["ft"], c["m"], c["n"]) == (c0["alg"], c0["ft"], c0["m"], c0["n"]):
                    log("case %s %s m=%d n=%d: %s" % (c["alg"], c["ft"], c["m"], c["n"], c["bad"] or "as specified"))
                    bad = bad or bool(c["bad"])
        if bad:
            log("VIOLATION property=%s replay=%s" % (pid, path))
        return 1 if bad else 0
    if sc.get("kind") == "dens-hang":
        log("scenario: %s" % json.dumps(sc)[:2000])
        log("re-run ./check %s with the same VERIF_SEED to reproduce on the current tree" % pid)
        return 1
    return None
