"""densified one-permutation sketchers: shared by C04, C08, C09, C13 (filled in later)"""
from common import *


def c04_part(chk, quick):
    chk.notes.append("densified sketchers: see C09 (shared machinery)")


def replay_one(chk, path, pid):
    return 2


def c13_part(chk, quick):
    chk.notes.append("densified sketchers: reinit histories are part of C09's schedules")
