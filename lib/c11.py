"""C11 - ProbOrdMinHash2 selects per position independently of sequence order"""
import json
import os
from common import *
import ordfam

LEVEL = "model_checking"
MANIFEST = dict(
    category="model_checking",
    text="OrdMinHash.tla models hash_set statement by statement (store of the l smallest per position, max tracker, "
         "permutation stream, exit conditions); TLC checks for every race table and every order of the pairs that the "
         "pairs kept at a position are the l smallest by table - a function of the multiset - and refutes the pre-repair "
         "'stop at the first rejected offer'. Binding: with the instance seed pinned (hook), the race table of every "
         "(element, occurrence) pair is measured on auxiliary instances; all permutations of all multisets over 3 symbols "
         "(lengths 3-5) and random longer sequences with shuffles are hashed, several in a row on the same instance; TLC "
         "validates for every call and position: selected pairs = a valid choice of the l smallest (exact ties tolerated), "
         "indices in sequence order, signature = combined hash of the spelled elements (dictionary via the public API)."
         " A quarter of the cases each use the crate's identity hasher and a true identity hasher with neighbouring small integers as elements; exact ties at the selection boundary are rejected, not tolerated.",
    design_ref="DESIGN.md section 4, C10/C11",
    note="trusted: TLC, Json/IOUtils, the store/seed hooks (read-only / pin), rank abstraction; multiplicities up to 14 "
         "(the crate asserts l < 16 for the auxiliary instances)",
    technique="TLA+ refinement check with TLC + enumerated permutations of multisets replayed into Rust + TLC trace validation against measured pair tables",
)


def run(chk):
    build_harness("om")
    quick = chk.tier == "quick"
    chk.cov["rule"] = ("every sequence over 3 symbols of length 3 and 4 (= all permutations of all multisets), m 1..4(8), "
                       "l 1..3(4), all hashed on one instance per (m,l); random sequences up to length 60 with shuffles and "
                       "reversal; non-trivial = a call whose positions do not all select the same pairs")
    chk.assumptions += ["pair tables are measured on auxiliary instances with the same pinned seed (l' = multiplicity)"]
    ordfam.model_check(chk, quick)
    ordfam.record_and_validate(chk, ordfam.c11_cases(chk, quick), "permutations")
    chk.cov["explanation"] = "design-level exhaustive at small sizes; code-level all permutations of small multisets + sampled long sequences"


def replay(chk, path):
    build_harness("om")
    r = ordfam.replay_one(chk, path, "C11")
    return 2 if r is None else r


def selftest(chk):
    build_harness("om")
    cases = [dict(m=3, l=2, seqs=ordfam.all_sequences(3, 3))]
    inp = os.path.join(chk.wd, "st_in.json")
    json.dump(dict(cases=cases), open(inp, "w"))
    tf = os.path.join(chk.wd, "st.ndjson")
    harness("om", ["record", "in=" + inp, "out=" + tf, "seed=4"])
    rows = read_ndjson(tf)
    assert validate_trace("TraceOrd", tf, chk.wd)["accepted"]
    hdr = rows[1]
    res = []
    # replace a selected pair by a pair of the sequence with a larger table value
    for i, r in enumerate(rows):
        if r.get("op") != "hs":
            continue
        P = set(r["order"])
        pos = 0
        sel = set(r["sel"][pos])
        outside = [p for p in P if p not in sel and all(hdr["tab"][p - 1][pos] > hdr["tab"][q - 1][pos] for q in sel)]
        if outside:
            bad = [json.loads(json.dumps(x)) for x in rows]
            bad[i]["sel"][pos][0] = outside[0]
            f2 = os.path.join(chk.wd, "st2.ndjson")
            write_ndjson(f2, bad)
            v2 = validate_trace("TraceOrd", f2, chk.wd)
            res.append((not v2["accepted"]) and v2["matched"] == i)
            bad = [json.loads(json.dumps(x)) for x in rows]
            bad[i]["sigeq"][1] = False
            f3 = os.path.join(chk.wd, "st3.ndjson")
            write_ndjson(f3, bad)
            v3 = validate_trace("TraceOrd", f3, chk.wd)
            res.append((not v3["accepted"]) and v3["matched"] == i)
            break
    log("[C11 selftest] wrong selection rejected, wrong signature rejected: %s" % res)
    return 0 if res and all(res) else 2
