"""C12 - a sketch is a pure function of parameters, hasher and input (instances, threads, processes)"""
import hashlib
import json
import os
import random
from concurrent.futures import ThreadPoolExecutor
from common import *

LEVEL = "exploration"
MANIFEST = dict(
        category="exploration",
        text="Purity.tla states the property as a partial function Key -> Digest with the single action Observe(env, key, d), "
             "enabled iff the key has no digest yet or exactly d, and models what can break it (a seed drawn from the "
             "environment on construction, a HashMap iteration order reaching the sketch); TLC checks the invariant on the "
             "model and refutes it under each deviation constant.  Binding: for every sketcher type of the crate (SuperMinHash, "
             "SuperMinHash2, SetSketcher, ProbMinHash2/3/3a/3aSha incl. the HashMap entry points, Opt/RevOptDensMinHash, "
             "ProbOrdMinHash2 as `new` gives it) the harness computes the bits of the public sketch of every key (kind, type "
             "parameters, constructor parameters, input) in 2 instances alive together in one thread, in 8 threads started on "
             "a barrier (own instances, own key order) and in 3 freshly launched processes; the merged observations "
             "{proc, thread, seq, key, digest} are validated by TLC against TracePurity.tla: a second, different digest "
             "for a key rejects the trace at that event."
         " Added after the seeded-change campaign: inputs beyond 2^16 distinct values (each twice) and tiny inputs in sketches of 2000-10000 positions."
             " Kinds include identifiers that are references to owned strings, small structs with padding, 8-byte arrays hashed in place from differently aligned buffers, and densified sketchers beyond 2^16 bins.",
        design_ref="DESIGN.md section 4, C12",
        note="sampling of environments (instances share no state, so there is no interleaving to control): 3 process launches, "
             "8 threads, the listed kinds/hashers/parameters; digests are 128-bit fingerprints of the exact bits; a hash "
             "collision could hide a difference, never create one",
        technique="TLA+ spec + TLC (invariant and deviation constants), TLC trace validation of observations recorded from real sketchers in several instances, threads and processes",
    )

NPROC = 3
NTHREADS = 8
SS_TUPLES = {1: (2.0, 20.0, 62), 2: (1.2, 20.0, 62), 3: (1.001, 20.0, 65534), 4: (1.5, 0.001, 30)}
SHAPE_LEN = {"one": 1, "few": 5, "repeats": 8, "weights": 6}
ENTRIES = {"smh": ["item", "slice"], "smh2": ["item", "slice"], "ss": ["item", "slice"], "dens": ["item", "slice"],
           "rev": ["item", "slice"], "ord2": ["seq"], "pmh2": ["item", "slice", "hashmap"],
           "pmh3": ["item", "slice", "idxmap", "hashmap"], "pmh3a": ["idxmap", "hashmap"], "pmh3asha": ["idxmap", "hashmap"]}
KINDS = ["smh_f64_fnv", "smh_f32_fnv", "smh_f64_no", "smh_f32_no", "smh2_u64_fnv", "smh2_u64_no", "smh2_u32_xx",
         "ss_u16", "ss_u32", "dens_f32_fnv", "dens_f64_fnv", "rev_f32_fnv", "rev_f64_fnv", "ord2_fnv",
         "pmh2", "pmh3", "pmh3a", "pmh3asha",
         # identifiers that are not plain integers: references to owned strings, a small struct with padding
         "pmh2_refstr", "pmh3_refstr", "pmh3a_refstr", "pmh3_pair",
         # 8-byte array keys behind the crate's identity hasher, hashed in place from differently aligned buffers
         "smh_bytes8_no"]
SKETCHER = {"smh": "SuperMinHash", "smh2": "SuperMinHash2", "ss": "SetSketcher", "dens": "OptDensMinHash",
            "rev": "RevOptDensMinHash", "ord2": "ProbOrdMinHash2", "pmh2": "ProbMinHash2", "pmh3": "ProbMinHash3",
            "pmh3a": "ProbMinHash3a", "pmh3asha": "ProbMinHash3aSha"}


def family(kind):
    return kind.split("_")[0]


def sketcher(kind):
    return SKETCHER[family(kind)]


# ----------------------------------------------------------------------------------------------
# specification

def purity_cfg(chk, name, big=False, emit=False, invariants=("TypeOK", "Functional"), **dev):
    c = dict(Keys="{k1, k2}", Seeded="{k1}", UsesMap="{k2}",
             Procs="{1, 2, 3}" if big else "{1, 2}", Threads="{1, 2}", Insts="{1, 2}",
             Seeds="{0, 1}", DefaultSeed=0, Orders="{0, 1}", CanonOrder=0,
             SeedFromEntropy=False, OrderLeaks=False, EmitGrid=emit)
    c.update(dev)
    return write_cfg(os.path.join(chk.wd, name + ".cfg"), constants=c, invariants=list(invariants))


def model(chk, big=False):
    """the invariant on the model, the grid of small configurations, and the deviation constants"""
    res = tlc_check("Purity", purity_cfg(chk, "purity", big=big, emit=True), chk.wd, workers=8 if big else 4, timeout=900, coverage=True)
    zero = [a for a in res.coverage_zero_actions() if a in ("Construct", "Drop", "Compute", "Init")]
    if zero:
        raise ToolError("Purity: action never taken: %s" % zero)
    chk.tlc_stats(res)
    grid = res.printed_json("KEY")
    if len(grid) < 100:
        raise ToolError("Purity: grid of small configurations not printed (%d)" % len(grid))
    log("[C12] Purity.tla: %d states, %d transitions, Functional holds; grid of %d small configurations (%.1fs)" % (
        res.distinct, res.generated, len(grid), res.wall))
    devs = [("SeedFromEntropy", "Functional"), ("SeedFromEntropy", "PureInstance"), ("SeedFromEntropy", "PureThread"),
            ("SeedFromEntropy", "PureProcess"), ("OrderLeaks", "Functional")]
    for const, inv in devs:
        r = tlc_check("Purity", purity_cfg(chk, "dev_%s_%s" % (const, inv), invariants=[inv], **{const: True}), chk.wd,
                      workers=1, timeout=600, expect_violation=inv)
        chk.tlc_stats(r)
        chk.add("deviations_refuted", 1)
    log("[C12] deviations refuted by TLC: %s" % ", ".join("%s=TRUE violates %s" % d for d in devs))
    return grid


# ----------------------------------------------------------------------------------------------
# keys

def finish_key(seed, k):
    """constructor parameters from the variant, input id, canonical id string"""
    fam = family(k["kind"])
    parts = [k["kind"], "m%d" % k["m"]]
    if fam == "ss":
        b, a, q = SS_TUPLES[k.pop("variant")]
        k.update(b=b, a=a, q=q)
        parts.append("b%g,a%g,q%d" % (b, a, q))
    elif fam == "ord2":
        k["l"] = k.pop("variant")
        parts.append("l%d" % k["l"])
    else:
        k.pop("variant", None)
    parts += [k["entry"], k["shape"], "n%d" % k["n"]]
    base = "/".join(parts)
    k["iseed"] = int(hashlib.sha1(("%d|%s" % (seed, base)).encode()).hexdigest()[:8], 16) >> 1
    k["kid"] = "%s/i%d" % (base, k["iseed"])
    return k


def grid_keys(chk, grid):
    keys = []
    for g in sorted(grid, key=lambda g: json.dumps(g, sort_keys=True)):
        keys.append(finish_key(chk.seed, dict(kind=g["kind"], m=g["m"], entry=g["entry"], shape=g["shape"],
                                              n=SHAPE_LEN[g["shape"]], variant=g["variant"])))
    return keys


def extreme_keys(chk):
    """inputs beyond 2^16 distinct values (each value twice) with small sketches, and tiny inputs with huge sketches"""
    keys = []
    n = 0
    for kind in KINDS:
        fam = family(kind)
        shapes_ = [("twice", 140000, 16), ("few", 1, 2000), ("few", 30, 2000), ("few", 5, 10000)]
        if fam in ("dens", "rev"):
            shapes_.append(("twice", 140000, 70001))   # more than 2^16 bins, about as many distinct items
        for (shape, nn, m) in shapes_:
            if fam == "ord2":
                if shape == "few" and nn < 4:
                    continue
                m = min(m, 256)
            if fam in ("pmh2", "pmh3", "pmh3a", "pmh3asha") or kind.startswith("pmh"):
                m = max(m, 2)
            variant = 1 if fam in ("ss", "ord2") else 0
            for entry in ENTRIES[fam][:2]:
                n += 1
                keys.append(finish_key(chk.seed + 7000 + n, dict(kind=kind, m=m, entry=entry, shape=shape, n=nn, variant=variant)))
    return keys


def random_keys(chk, count, skip_kinds=(), maxn=800):
    rng = random.Random(chk.seed * 1000003 + 12)
    keys, seen = [], set()
    kinds = [k for k in KINDS if k not in skip_kinds]
    while len(keys) < count:
        kind = kinds[len(keys) % len(kinds)] if len(keys) < 2 * len(kinds) else rng.choice(kinds)
        fam = family(kind)
        m = rng.choice([24, 64, 100, 128, 256, 512, 1024])
        n = rng.randint(100, maxn)
        variant = 0
        if fam == "ss":
            variant = rng.randint(1, 4)
        if fam == "ord2":
            variant = rng.randint(1, 8)
            m = rng.choice([8, 24, 64, 128, 256])
        k = finish_key(chk.seed + len(keys), dict(kind=kind, m=m, entry=rng.choice(ENTRIES[fam]), shape="random", n=n,
                                                  variant=variant))
        if k["kid"] not in seen:
            seen.add(k["kid"])
            keys.append(k)
    return keys


# ----------------------------------------------------------------------------------------------
# observations

def observe(chk, keys, tag, nproc=NPROC, full=False):
    """launch the child nproc times (fresh processes, in parallel), merge the observations in (proc, thread, seq) order"""
    kf = os.path.join(chk.wd, "keys_%s.json" % tag)
    with open(kf, "w") as f:
        json.dump(keys, f)
    build_harness("c12")

    def launch(p):
        out = os.path.join(chk.wd, "obs_%s_p%d.ndjson" % (tag, p))
        meta = os.path.join(chk.wd, "meta_%s_p%d.json" % (tag, p))
        harness("c12", ["child", "keys=" + kf, "out=" + out, "meta=" + meta, "proc=%d" % p, "seed=%d" % chk.seed,
                        "threads=%d" % NTHREADS, "full=%d" % (1 if full else 0)], timeout=900)
        return read_ndjson(out), json.load(open(meta))

    with ThreadPoolExecutor(max_workers=nproc) as ex:
        res = list(ex.map(launch, range(1, nproc + 1)))
    rows = []
    for r, _ in res:
        rows += r
    rows.sort(key=lambda r: (r["proc"], r["thread"], r["seq"]))
    metas = [m for _, m in res]
    # per process: 2 sequential instances + NTHREADS threads for every key, plus the interleaved pair (thread 100: item-wise
    # adapter kinds) and the instances constructed after an unrelated change_rng_seed (thread 101: ProbOrdMinHash2 keys)
    extra = 2 * sum(1 for k in keys if k["entry"] == "item" and not k["kind"].startswith(("dens", "rev", "ord2"))
                    and not k["kind"].endswith(("_refstr", "_pair"))
                    and not k["kind"].startswith("smh_bytes8")) \
        + sum(1 for k in keys if k["kind"].startswith("ord2"))
    want = nproc * ((2 + NTHREADS) * len(keys) + extra)
    if len(rows) != want:
        raise ToolError("C12: %d observations, expected %d" % (len(rows), want))
    # the fingerprint must stand for the bits: same digest <=> same bits wherever the bits were logged
    d2b = {}
    for r in rows:
        if "bits" in r and r["outcome"] == "ok":
            if d2b.setdefault((r["key"], r["digest"]), r["bits"]) != r["bits"]:
                raise ToolError("C12: fingerprint collision on %s" % r["key"])
    return rows, metas


TRACE_FIELDS = ("proc", "thread", "seq", "key", "digest")


def write_trace(chk, rows, name, header):
    tf = os.path.join(chk.wd, name)
    write_ndjson(tf, [header] + [{f: r[f] for f in TRACE_FIELDS} for r in rows])
    return tf


def levels(obs):
    """which levels of the environment separate two observations of one key with different digests"""
    lv = set()
    for i, a in enumerate(obs):
        for b in obs[i + 1:]:
            if a["digest"] != b["digest"]:
                if a["proc"] != b["proc"]:
                    lv.add("process")
                elif a["thread"] != b["thread"]:
                    lv.add("thread")
                else:
                    lv.add("instance")
    return lv


def validate(chk, rows, keys, tag, cmd):
    """TLC validates the merged trace; on a rejection the kind of the rejected event is reported and removed, the rest is
    validated again, so that a known finding on one sketcher cannot hide a different one"""
    kinfo = {k["kid"]: k for k in keys}
    header = dict(hdr="C12", keys=len(keys), procs=NPROC, threads=NTHREADS, seed=chk.seed)
    bykey = {}
    for r in rows:
        bykey.setdefault(r["key"], []).append(r)
    cur = rows
    rnd = 0
    rejected_kinds = []
    while cur:
        rnd += 1
        tf = write_trace(chk, cur, "trace_%s_%d.ndjson" % (tag, rnd), header)
        v = validate_trace("TracePurity", tf, chk.wd, timeout=1200)
        chk.cov["states"] += v["distinct"]
        chk.cov["transitions"] += v["generated"]
        chk.add("trace_events", v["matched"] - 1 if not v["accepted"] else len(cur))
        log("[C12] trace %s round %d: %d events, accepted=%s%s (%.1fs)" % (
            tag, rnd, len(cur), v["accepted"], "" if v["accepted"] else " rejected at line %d" % (v["matched"] + 1), v["wall"]))
        if v["accepted"]:
            chk.add("traces_validated_against_impl", 1)
            break
        bad = cur[v["matched"] - 1]
        kind = kinfo[bad["key"]]["kind"]
        first = bykey[bad["key"]][0]
        conflicting = [kid for kid, obs in bykey.items() if kinfo[kid]["kind"] == kind and len({o["digest"] for o in obs}) > 1]
        if bad["key"] not in conflicting or first["digest"] == bad["digest"]:
            raise ToolError("C12: TLC rejected an event that does not conflict: %s" % json.dumps(bad))
        lv = set()
        for kid in conflicting:
            lv |= levels(bykey[kid])
        env = "+".join(sorted(lv))
        nk = sum(1 for k in keys if k["kind"] == kind)
        examples = []
        for kid in conflicting[:3]:
            examples.append(dict(key=kinfo[kid], observations=[
                {f: o.get(f) for f in ("proc", "thread", "seq", "digest", "outcome", "bits")} for o in bykey[kid][:2 + NTHREADS]]))
        tags = dict(kind="purity", sketcher=sketcher(kind), variant=kind, env=env)
        chk.violation(tags, dict(kind="purity", sketcher=sketcher(kind), variant=kind, env=env,
                                 rejected_event={f: bad[f] for f in TRACE_FIELDS},
                                 first_observation={f: first[f] for f in TRACE_FIELDS},
                                 keys_conflicting=len(conflicting), keys_of_kind=nk,
                                 keys=[kinfo[kid] for kid in conflicting[:8]], examples=examples, cmd=cmd))
        log("[C12] %s (%s): %d of %d keys have more than one digest; environments that differ: %s" % (
            sketcher(kind), kind, len(conflicting), nk, env))
        chk.add("kinds_rejected", 1)
        rejected_kinds.append(kind)
        cur = [r for r in cur if kinfo[r["key"]]["kind"] != kind]
    return rejected_kinds


def overlap_fraction(rows):
    """share of the thread observations whose computation overlapped in time with one of another thread (ticket clock)"""
    tot = hit = 0
    for p in {r["proc"] for r in rows}:
        ev = [r for r in rows if r["proc"] == p and r["thread"] > 0]
        pts = []
        for i, r in enumerate(ev):
            pts.append((r["t0"], 0, i))
            pts.append((r["t1"], 1, i))
        pts.sort()
        active = {}
        marked = set()
        for _, typ, i in pts:
            th = ev[i]["thread"]
            if typ == 0:
                others = [j for t, j in active.items() if t != th]
                if others:
                    marked.add(i)
                    marked.update(others)
                active[th] = i
            else:
                active.pop(th, None)
        tot += len(ev)
        hit += len(marked)
    return hit / tot if tot else 0.0


def account(chk, rows, metas, keys, rejected_kinds):
    kinfo = {k["kid"]: k for k in keys}
    bykey = {}
    for r in rows:
        bykey.setdefault(r["key"], []).append(r)
    chk.add("evaluations", len(rows))
    full_env = (2 + NTHREADS) * NPROC
    single = {kid: obs[0]["digest"] for kid, obs in bykey.items()
              if len({o["digest"] for o in obs}) == 1 and len(obs) == full_env
              and len({(o["proc"], o["thread"]) for o in obs}) == NPROC * (1 + NTHREADS)}
    cnt = {}
    for d in single.values():
        cnt[d] = cnt.get(d, 0) + 1
    nontriv = [kid for kid, d in single.items() if cnt[d] == 1 and d != "panic"]
    chk.add("distinct_nontrivial", len(nontriv))
    chk.add("keys", len(keys))
    chk.add("keys_single_digest", len(single))
    chk.add("keys_panic_everywhere", sum(1 for d in single.values() if d == "panic"))
    maps = [kid for kid in bykey if kinfo[kid]["entry"] == "hashmap" and kinfo[kid]["n"] >= 2]
    chk.add("hashmap_keys", len(maps))
    chk.add("hashmap_keys_seen_in_2_or_more_iteration_orders", sum(1 for kid in maps if len({o.get("iter") for o in bykey[kid]}) > 1))
    chk.add("hashmap_keys_iteration_orders_seen", sum(len({o.get("iter") for o in bykey[kid]}) for kid in maps))
    kinds = sorted({kinfo[kid]["kind"] for kid in bykey})
    chk.cov["kinds"] = kinds
    chk.cov["sketcher_types"] = sorted({sketcher(k) for k in kinds})
    chk.cov.setdefault("process_probes", [])
    chk.cov["process_probes"] += [dict(heap=m["heap_addr"], stack=m["stack_addr"], text=m["text_addr"], map_order=m["map_order"]) for m in metas]
    chk.cov["distinct_address_layouts"] = len({(m["heap"], m["stack"], m["text"]) for m in chk.cov["process_probes"]})
    chk.cov["distinct_randomstate_orders"] = len({m["map_order"] for m in chk.cov["process_probes"]})
    ov = overlap_fraction(rows)
    chk.cov.setdefault("thread_overlap_fraction", [])
    chk.cov["thread_overlap_fraction"].append(round(ov, 3))
    for kid in (nontriv[:1] + nontriv[len(nontriv) // 2:len(nontriv) // 2 + 1] + [k for k in nontriv if "hashmap" in k][:1]):
        o = bykey[kid]
        chk.sample(dict(key=kinfo[kid], digest=o[0]["digest"], bits=o[0].get("bits"), observations=len(o),
                        envs=[[x["proc"], x["thread"], x["seq"]] for x in o[:4]] + ["..."]))
    return nontriv


RULE = ("keys = (sketcher kind incl. float/integer/hasher type parameters, m and SetSketch (b,a,q) / OrdMinHash l, entry point, "
        "input id); small keys are the grid enumerated by TLC from Purity.tla (kind x m in {1,2,3,4,16} x entry point x "
        "parameter variant x input shape in {one item, 5 items, 8 items with repeats, 6 weighted items}), large keys are "
        "random (100-800 items, m up to 1024, repeats, three weight styles), all derived from VERIF_SEED.  Every key is "
        "computed 2+8 times in each of 3 processes.  distinct_nontrivial = number of keys observed in all 30 environments "
        "(3 processes x (2 simultaneous instances + 8 concurrent threads)) with one single digest that is not a panic and "
        "that no other key of the run shares (the sketch depends on the key and was reproduced everywhere)")


def run(chk):
    build_harness("c12")
    chk.cov["rule"] = RULE
    chk.assumptions += [
        "digests are 128-bit xxhash fingerprints of the exact bits of everything the public accessors return; where the "
        "bits themselves are logged (<= 40 words) the driver checks fingerprint <=> bits",
        "environments are sampled: 3 process launches on this machine (ASLR on, per-process RandomState keys, per-thread "
        "ThreadRng), 8 threads, one architecture and one build; endianness/architecture portability is not covered",
        "HashMap entry points: exact floating-point ties between different items would make the signature legitimately "
        "order dependent (C02); with random 63-bit ids their probability is below 1e-9 per run and they are not special-cased",
        "change_rng_seed() is outside the property (same constructor parameters, no re-seeding)"]
    grid = model(chk, big=(chk.tier == "thorough"))
    keys = grid_keys(chk, grid) + random_keys(chk, 160 if chk.tier == "quick" else 1400) + extreme_keys(chk)
    cmd = "./check C12 --tier %s (VERIF_SEED=%d)" % (chk.tier, chk.seed)
    rows, metas = observe(chk, keys, "main")
    rejected = validate(chk, rows, keys, "main", cmd)
    account(chk, rows, metas, keys, rejected)
    chk.cov["explanation"] = ("sampling of environments, not exhaustive: every key of the run was computed in 30 environments "
                              "and TLC accepted the merged trace for all sketcher kinds except those listed as rejected")
    chk.cov["kinds_rejected_list"] = rejected
    for p in os.listdir(chk.wd):
        if p.startswith("obs_") or p.startswith("trace_"):
            if os.path.getsize(os.path.join(chk.wd, p)) > 50 * 1024 * 1024:
                os.remove(os.path.join(chk.wd, p))


def replay(chk, path):
    sc = json.load(open(path))["scenario"]
    keys = sc["keys"]
    rows, metas = observe(chk, keys, "replay", full=True)
    header = dict(hdr="C12", keys=len(keys), procs=NPROC, threads=NTHREADS, seed=chk.seed)
    tf = write_trace(chk, rows, "trace_replay.ndjson", header)
    v = validate_trace("TracePurity", tf, chk.wd)
    for k in keys:
        obs = [r for r in rows if r["key"] == k["kid"]]
        ds = {}
        for o in obs:
            ds.setdefault(o["digest"], []).append((o["proc"], o["thread"], o["seq"]))
        log("%s: %d digest(s) in %d environments%s" % (k["kid"], len(ds), len(obs),
                                                       "" if len(ds) == 1 else "; differ at: " + "+".join(sorted(levels(obs)))))
        if len(ds) > 1:
            for d, envs in list(ds.items())[:4]:
                o = next(o for o in obs if o["digest"] == d)
                log("   %s  (proc,thread,seq)=%s  bits=%s" % (d, envs[:3], (o.get("bits") or "")[:160]))
    log("replayed %d key(s) in %d processes: trace accepted=%s" % (len(keys), NPROC, v["accepted"]))
    if not v["accepted"]:
        log("VIOLATION property=C12 replay=%s" % path)
    return 0 if v["accepted"] else 1


def selftest(chk):
    """anti-vacuity: deviation constants refuted; a corrupted digest is rejected at exactly its line; swapping the digests
    of two keys is rejected; removing an event keeps acceptance (purity has no ordering constraint)"""
    build_harness("c12")
    for const in ("SeedFromEntropy", "OrderLeaks"):
        tlc_check("Purity", purity_cfg(chk, "st_" + const, **{const: True}), chk.wd, workers=1, timeout=600,
                  expect_violation="Functional")
    tlc_check("Purity", purity_cfg(chk, "st_ok"), chk.wd, workers=4, timeout=600)
    # keys of the kinds that are pure on the unchanged tree (ProbOrdMinHash2 is judged by run(), not here)
    keys = random_keys(chk, 60, skip_kinds=("ord2_fnv",), maxn=200)
    rows, _ = observe(chk, keys, "st")
    header = dict(hdr="C12", keys=len(keys), procs=NPROC, threads=NTHREADS, seed=chk.seed)
    base = [{f: r[f] for f in TRACE_FIELDS} for r in rows]
    t0 = os.path.join(chk.wd, "st_base.ndjson")
    write_ndjson(t0, [header] + base)
    v0 = validate_trace("TracePurity", t0, chk.wd)
    if not v0["accepted"]:
        log("[C12 selftest] the base trace is rejected (a sketcher other than ProbOrdMinHash2 is impure?): run ./check C12")
        return 2
    firsts = set()
    seen = set()
    for i, r in enumerate(base):
        if r["key"] not in seen:
            seen.add(r["key"])
            firsts.add(i)
    # (1) corrupt one digest (not a first observation)
    i1 = next(i for i in range(len(base) // 2, len(base)) if i not in firsts)
    bad = [dict(r) for r in base]
    d = bad[i1]["digest"]
    bad[i1]["digest"] = d[:-1] + ("0" if d[-1] != "0" else "1")
    t1 = os.path.join(chk.wd, "st_corrupt.ndjson")
    write_ndjson(t1, [header] + bad)
    v1 = validate_trace("TracePurity", t1, chk.wd)
    ok1 = (not v1["accepted"]) and v1["matched"] == i1 + 1      # 0-based index in the file (header is line 0)
    # (2) swap the digests of two events of different keys
    i2 = next(i for i in range(len(base) // 3, len(base)) if i not in firsts)
    j2 = next(j for j in range(i2 + 1, len(base)) if j not in firsts and base[j]["key"] != base[i2]["key"]
              and base[j]["digest"] != base[i2]["digest"])
    sw = [dict(r) for r in base]
    sw[i2]["digest"], sw[j2]["digest"] = base[j2]["digest"], base[i2]["digest"]
    t2 = os.path.join(chk.wd, "st_swap.ndjson")
    write_ndjson(t2, [header] + sw)
    v2 = validate_trace("TracePurity", t2, chk.wd)
    ok2 = (not v2["accepted"]) and v2["matched"] == i2 + 1
    # (3) removing an event is harmless: no ordering, no completeness constraint in the property
    t3 = os.path.join(chk.wd, "st_removed.ndjson")
    write_ndjson(t3, [header] + base[:i1] + base[i1 + 1:])
    v3 = validate_trace("TracePurity", t3, chk.wd)
    ok3 = v3["accepted"]
    # (4) a corrupted FIRST observation is caught by the next observation of that key
    i4 = sorted(firsts)[len(firsts) // 2]
    nxt = next(j for j in range(i4 + 1, len(base)) if base[j]["key"] == base[i4]["key"])
    b4 = [dict(r) for r in base]
    b4[i4]["digest"] = "f" * 32
    t4 = os.path.join(chk.wd, "st_first.ndjson")
    write_ndjson(t4, [header] + b4)
    v4 = validate_trace("TracePurity", t4, chk.wd)
    ok4 = (not v4["accepted"]) and v4["matched"] == nxt + 1
    log("[C12 selftest] SeedFromEntropy / OrderLeaks refuted by TLC; base trace of %d events accepted; corrupted digest "
        "rejected at line %d (expected %d): %s; swapped digests rejected at line %d (expected %d): %s; removed event still "
        "accepted: %s; corrupted first observation rejected at the next observation of the key (line %d, expected %d): %s" % (
            len(base), v1["matched"] + 1, i1 + 2, ok1, v2["matched"] + 1, i2 + 2, ok2, ok3, v4["matched"] + 1, nxt + 2, ok4))
    return 0 if (ok1 and ok2 and ok3 and ok4) else 2
