"""./check selftest : anti-vacuity of every check that has a selftest (run by setup_cmd)"""
import importlib
import os
import common


def run_all(tier):
    rc = 0
    for i in range(1, 21):
        m = "c%02d" % i
        if not os.path.exists(os.path.join(common.ROOT, "lib", m + ".py")):
            continue
        mod = importlib.import_module(m)
        if not hasattr(mod, "selftest"):
            continue
        chk = common.Check(m.upper() + "_selftest", mod.LEVEL, "quick", 7)
        try:
            r = mod.selftest(chk)
        except AssertionError as e:
            common.log("[selftest] %s: assertion %s" % (m, e))
            r = 2
        common.log("[selftest] %s: %s" % (m, "ok" if r == 0 else "FAILED"))
        rc = max(rc, r)
    return 0 if rc == 0 else 2
