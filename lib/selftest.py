"""./check selftest : anti-vacuity of every check that has a selftest (run by setup_cmd)"""
import importlib
import common

MODS = ["c15"]


def run_all(tier):
    rc = 0
    for m in MODS:
        mod = importlib.import_module(m)
        if not hasattr(mod, "selftest"):
            continue
        chk = common.Check(m.upper() + "_selftest", mod.LEVEL, "quick", 7)
        r = mod.selftest(chk)
        common.log("[selftest] %s: %s" % (m, "ok" if r == 0 else "FAILED"))
        rc = max(rc, r)
    return 0 if rc == 0 else 2
