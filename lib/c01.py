"""C01 - ProbMinHash estimates the probability-Jaccard index without bias"""
import json
import math
import os
from fractions import Fraction
from common import *
import freqfam
import joinfam
import stats

LEVEL = "other"
MANIFEST = dict(
    category="other",
    text="L1: J_P is defined in TLA+ as an exact rational (ProbJaccard.tla) and evaluated by TLC for every pair of weight "
         "vectors over 0..3 of length 3 (4 in thorough), with sanity theorems (range, symmetry, scale invariance); the driver's "
         "floating-point J_P is cross-checked against all of them before it is used for large vectors. ProbMinHash.tla (race "
         "semantics, model-checked, see C02) and TLC trace validation of recorded runs reduce the property to the law of "
         "single-entry race tables (L2). L3: frequency validation - (i) per cell (variant x entry points x m in {2,3,4,8,64} x "
         "weight shapes incl. 1:5, 10:1:1, 1:1000, nested, disjoint, 1 item, 200 items, the repository's own shapes) the mean "
         "fraction of equal positions within the empirical-Bernstein radius (delta=1e-9) of J_P and the mean squared error "
         "below J_P(1-J_P)/m; (ii) single-set law P(sig[p]=d) = w_d/sum(w) per (position, item) within a Hoeffding radius, the "
         "placeholder never; (iii) the primitive law: w*T[p] of measured single-entry tables against Exp(ln(m/(m-1))) "
         "(variants 3/3a/3a-Sha) resp. Exp(1/m) (variant 2) by the Dvoretzky-Kiefer-Wolfowitz bound."
         " Variant 2 cells also run both sets through one object reused with reset.",
    design_ref="DESIGN.md section 2.6 and section 4, C01",
    note="statistical test: effects below the radii are invisible (a rate error at m >= 16 is, but it is immaterial there); "
         "false-alarm probability <= 1e-9 per cell; trusted: TLC for the oracle on small vectors, the driver's float formula elsewhere",
    technique="TLA+-defined oracle evaluated by TLC + TLC trace validation of the race semantics + frequency validation (empirical Bernstein, Hoeffding, DKW)",
)

KINDS = ["pmh2", "pmh3", "pmh3a", "pmh3asha"]


def jp_float(wa, wb):
    s = 0.0
    n = len(wa)
    for i in range(n):
        if wa[i] > 0 and wb[i] > 0:
            den = sum(max(wa[j] / wa[i], wb[j] / wb[i]) for j in range(n))
            s += 1.0 / den
    return s


def expand(groups):
    wa, wb = [], []
    for cnt, a, b in groups:
        wa += [a] * cnt
        wb += [b] * cnt
    return wa, wb


def shapes(quick):
    sh = [
        ("equal-overlap", [[3, 1, 0], [3, 0, 1], [4, 1, 1]]),
        ("unequal-1:5", [[2, 1, 0], [2, 0, 5], [3, 1, 5], [3, 5, 1]]),
        ("10:1:1", [[1, 10, 10], [1, 1, 0], [1, 0, 1], [2, 1, 1]]),
        ("1:1000", [[1, 1000, 1], [1, 1, 1000], [3, 1, 1]]),
        ("nested", [[5, 1, 1], [5, 0, 2]]),
        ("disjoint", [[4, 1, 0], [4, 0, 3]]),
        ("one-item", [[1, 2, 7]]),
        ("two-items-skewed", [[1, 1, 5], [1, 5, 1]]),
        ("200-items", [[60, 1, 0], [60, 0, 1], [80, 2, 1]]),
    ]
    # the repository's own test shapes (100 items): wa = 2i (i < 70), wb = i^4 (i >= 50); equal weights 1/1
    repo = []
    for i in range(1, 100):
        a = 2.0 * i if i < 70 else 0.0
        b = float(i) ** 4 if i >= 50 else 0.0
        repo.append([1, a, b])
    sh.append(("repo-unequal", repo))
    sh.append(("repo-equal", [[50, 1, 0], [20, 1, 1], [30, 0, 1]]))
    # J_P depends on relative weights only: the same shapes at extreme absolute scales
    for name, groups in list(sh[:4]):
        for tag, f in (("x1e-25", 1e-25), ("x1e+25", 1e25)):
            sh.append(("%s %s" % (name, tag), [[c, a * f, b * f] for c, a, b in groups]))
    return sh


def trials_for(m, n, quick):
    base = {2: 400000, 3: 400000, 4: 300000, 8: 150000, 64: 20000}[m]
    if n > 50:
        base //= 8
    return base if quick else base * 6


def run(chk):
    build_harness("fq")
    quick = chk.tier == "quick"
    # ---- L1: oracle defined in TLA+, evaluated by TLC, cross-check of the float formula
    cfg = write_cfg(os.path.join(chk.wd, "jp.cfg"), constants=dict(N=3 if quick else 4, W=3), init="Init", nxt="Next")
    res = tlc("ProbJaccard", cfg, chk.wd, workers=1, timeout=2400, xss=True, ok_rc=(0,))
    chk.tlc_stats(res)
    rows = res.printed_json("JP")
    if len(rows) < 1000:
        raise ToolError("ProbJaccard.tla evaluated only %d pairs" % len(rows))
    worst = 0.0
    for r in rows:
        f = jp_float([float(x) for x in r["a"]], [float(x) for x in r["b"]])
        worst = max(worst, abs(f - r["num"] / r["den"]))
    if worst > 1e-12:
        raise ToolError("floating-point J_P oracle disagrees with TLC's exact value by %g" % worst)
    chk.cov["oracle_pairs_cross_checked_with_tlc"] = len(rows)
    log("[C01] ProbJaccard.tla: %d pairs of weight vectors evaluated exactly by TLC; float oracle within %.1e" % (len(rows), worst))
    # ---- L2 sample: race semantics validated by TLC on recorded runs (the full exploration is C02)
    build_harness("sk")
    joinfam.random_join(chk, KINDS, "L2-sample", runs=3 if quick else 10, length=60, nitems=40, ms=[2, 3, 4, 8])
    # ---- L3 (i): pairs
    cells = []
    for name, groups in shapes(quick):
        wa, wb = expand(groups)
        p = jp_float(wa, wb)
        for kind in KINDS:
            for m in (2, 3, 4, 8, 64):
                cells.append(dict(kind=kind, m=m, groups=groups, shape=name, oracle=p, trials=trials_for(m, len(wa), quick)))
    # variant 2 offers reset(): the same cells through one object reused with reset between the two sets
    for name, groups in shapes(quick):
        if name in ("unequal-1:5", "10:1:1", "two-items-skewed", "nested"):
            wa, wb = expand(groups)
            for m in (2, 4, 16):
                cells.append(dict(kind="pmh2", m=m, groups=groups, shape=name + "+reuse", oracle=jp_float(wa, wb), reuse=True,
                                  trials=trials_for(4 if m < 16 else 8, len(wa), quick)))
    # the crate's identity hasher (identifiers are "already hashed" values): pairs of identifiers that differ by two
    # swapped bytes must still behave like two independent items
    for name, groups in shapes(quick):
        if name in ("equal-overlap", "unequal-1:5", "10:1:1", "nested"):
            wa, wb = expand(groups)
            for kind in ("pmh2_no", "pmh3_no", "pmh3a_no"):
                for m in (4, 16):
                    cells.append(dict(kind=kind, m=m, groups=groups, shape=name + "+idhash", oracle=jp_float(wa, wb), ids="paired",
                                      trials=trials_for(4 if m < 16 else 8, len(wa), quick)))
    res_ = freqfam.run_pairs(chk, cells, "pairs")
    freqfam.judge_pairs(chk, cells, res_, "pairs")
    chk.cov["pair_cells"] = len(cells)
    # ---- L3 (ii): single-set law
    scells = []
    for ws in ([1.0, 1.0, 1.0], [1.0, 5.0], [10.0, 1.0, 1.0], [1.0, 1000.0, 30.0], [3.0], [0.5] * 12 + [4.0]):
        for kind in KINDS:
            for m in (2, 3, 8):
                scells.append(dict(kind=kind, m=m, weights=ws, trials=100000 if quick else 600000))
    cin = os.path.join(chk.wd, "single.json")
    json.dump(dict(cells=scells), open(cin, "w"))
    out = os.path.join(chk.wd, "single_out.json")
    harness("fq", ["single", "in=" + cin, "out=" + out, "seed=%d" % chk.seed], timeout=3000)
    sres = json.load(open(out))["cells"]
    worst_s = 0.0
    for c, r in zip(scells, sres):
        n = c["trials"] - r["panics"]
        tot = sum(c["weights"])
        k = len(c["weights"])
        rad = stats.hoeffding_radius(n, freqfam.DELTA / (c["m"] * (k + 1)))
        chk.add("evaluations", n)
        for p in range(c["m"]):
            for d in range(k + 1):
                want = c["weights"][d] / tot if d < k else 0.0
                got = r["counts"][p][d] / n if n else 0.0
                worst_s = max(worst_s, abs(got - want) / rad)
                if d == k and r["counts"][p][d] > 0:
                    chk.violation(dict(kind="single", what="placeholder-or-foreign", sketcher=c["kind"], m=c["m"]),
                                  dict(kind="single-cell", cell=c, position=p, count=r["counts"][p][d], seed=chk.seed))
                elif abs(got - want) > rad:
                    chk.violation(dict(kind="single", what="frequency", sketcher=c["kind"], m=c["m"]),
                                  dict(kind="single-cell", cell=c, position=p, item=d, got=got, want=want, radius=rad, seed=chk.seed))
        if r["panics"]:
            chk.violation(dict(kind="single", what="panic", sketcher=c["kind"], m=c["m"]), dict(kind="single-cell", cell=c, seed=chk.seed))
    log("[C01] single-set law: %d cells, worst |freq - w_d/sum w|/radius = %.3f" % (len(scells), worst_s))
    chk.cov["single_cells"] = len(scells)
    # ---- L3 (iii): primitive law of single-entry race tables
    pcells = []
    for kind in KINDS:
        for m in (2, 3, 4, 8, 16, 64):
            for w in (1.0, 0.001, 250.0):
                rate = 1.0 / m if kind == "pmh2" else math.log(m / (m - 1.0))
                pcells.append(dict(kind=kind, m=m, w=w, rate=rate, trials=(200000 if quick else 1000000) // (4 if m >= 16 else 1)))
    cin = os.path.join(chk.wd, "prim.json")
    json.dump(dict(cells=pcells), open(cin, "w"))
    out = os.path.join(chk.wd, "prim_out.json")
    harness("fq", ["prim", "in=" + cin, "out=" + out, "seed=%d" % chk.seed], timeout=3000)
    pres = json.load(open(out))["cells"]
    worst_p = 0.0
    for c, r in zip(pcells, pres):
        rad = stats.dkw_radius(r["n"], freqfam.DELTA / c["m"])
        chk.add("evaluations", r["n"])
        if r["unfilled"]:
            chk.violation(dict(kind="prim", what="unfilled", sketcher=c["kind"], m=c["m"]), dict(kind="prim-cell", cell=c, unfilled=r["unfilled"], seed=chk.seed))
            continue
        d = max(r["ks"])
        worst_p = max(worst_p, d / rad)
        if d > rad:
            chk.violation(dict(kind="prim", what="law", sketcher=c["kind"], m=c["m"]),
                          dict(kind="prim-cell", cell=c, sup_distance=d, radius=rad, per_position=r["ks"], seed=chk.seed))
    log("[C01] primitive law: %d cells, worst sup-distance/DKW radius = %.3f" % (len(pcells), worst_p))
    chk.cov["prim_cells"] = len(pcells)
    chk.cov["rule"] = ("cells = variant x m x weight shape (pairs), variant x m x weights (single-set law), variant x m x weight "
                       "(primitive law); fresh random identifiers per trial; non-trivial pair cell = J_P strictly inside (0.02, 0.98)")
    chk.cov["explanation"] = ("frequency validation against a TLA+-defined oracle: empirical-Bernstein / Hoeffding / DKW radii at "
                              "delta=1e-9 per cell; worst ratios: pairs %.3f, single %.3f, primitive %.3f"
                              % (chk.cov["worst_dev_over_radius"]["pairs"], worst_s, worst_p))
    chk.assumptions += ["trials are independent (fresh identifiers per trial)", "entry points are cycled over the trials of a cell"]


def replay(chk, path):
    r = joinfam.replay_one(chk, path, "C01")
    if r is not None:
        return r
    return freqfam.replay_cell(chk, path)


def selftest(chk):
    build_harness("fq")
    # a wrong oracle (J of the supports instead of J_P) must be rejected on a skewed shape
    groups = [[1, 1, 5], [1, 5, 1]]
    wa, wb = expand(groups)
    p = jp_float(wa, wb)
    cells = [dict(kind="pmh3", m=4, groups=groups, shape="st", oracle=p, trials=100000)]
    r = freqfam.run_pairs(chk, cells, "st")
    n, mean, var = stats.hist_moments(r[0]["hist"], 4)
    eps = stats.bernstein_radius(n, var, freqfam.DELTA)
    ok = abs(mean - p) <= eps and abs(mean - 1.0) > eps and abs(mean - (p + 0.02)) > eps
    log("[C01 selftest] J_P=%.4f mean=%.4f radius=%.4f: accepted; plain Jaccard 1.0 and J_P+0.02 rejected: %s" % (p, mean, eps, ok))
    return 0 if ok else 2
