"""C05 - sketch of a union is the position-wise join; SetSketch merge is exact"""
import json
import os
from common import *
import joinfam

LEVEL = "model_checking"
MANIFEST = dict(
    category="model_checking",
    text="Layer A in TLA+: a sketch is the position-wise join (min for SuperMinHash, max for SetSketch) of the single-item "
         "tables of everything streamed or merged in; merge = union of the sets, so commutativity, associativity, idempotence "
         "and merge-then-stream are consequences that TLC checks on every enumerated history. SetSketch.tla / SuperMinHash.tla "
         "(implementation-shaped, with lower_k left stale by merge) are model-checked for refinement and 'lower_k <= min "
         "register'. TLC enumerates all histories of sketch / sketch_slice / merge over 2-3 sketcher instances (incl. instances "
         "with different parameters: the merge must be refused and leave the receiver unchanged); each is replayed on the real "
         "sketchers (f32/f64, u16/u32, parameter tuples that exercise clipping at 0, at q+1 and the u16 overflow) and every "
         "recorded step (registers, get_low_sketch, outcome) is validated by TLC against the join of measured tables."
         " Instances of another parameter class may also differ in m (the merge must be refused).",
    design_ref="DESIGN.md section 4, C04/C05",
    note="trusted: TLC, Json/IOUtils, rank abstraction, measured single-item tables; exhaustive for the stated small "
         "bounds only; parameter-equality of merge is exercised on (b, a, q) differences, not on m",
    technique="TLA+ refinement check with TLC + TLC-generated multi-instance schedules replayed into Rust + TLC trace validation",
)

KINDS = ["smh_f64_fnv", "smh_f32_fnv", "smh_f64_no", "ss_u16", "ss_u32"]
KINDS_SS = ["ss_u16", "ss_u32"]


def tags(hdr, bad):
    return dict(out=bad.get("out"))


def run(chk):
    build_harness("sk")
    quick = chk.tier == "quick"
    chk.cov["rule"] = ("histories over 2 instances (depth 3, slices up to 2 items, merges in both directions) and over 3 "
                       "instances (depth 4 quick-sampled / full in thorough), replayed for SuperMinHash and SetSketch kinds; "
                       "non-trivial = history with a merge or a repeated item, >= 2 items, final sketch with >= 2 distinct values")
    chk.assumptions += ["single-item tables are measured from the implementation itself (fresh sketcher, one item)"]
    import layerb
    layerb.check_sketch_specs(chk, ["SetSketch", "SuperMinHash"], quick)
    f, n, res = joinfam.gen_schedules(chk, "c05a", nitems=3, ninst=2, depth=3, maxslice=2, merge=True)
    chk.cov["schedules_2inst"] = n
    joinfam.replay_join(chk, f, KINDS, "merge-2inst", stride=5 if quick else 1, ms=[1, 2, 3, 4, 5, 8], prop_tags=tags)
    f, n, res = joinfam.gen_schedules(chk, "c05b", nitems=3, ninst=3, depth=4, maxslice=1, slice_=False, merge=True)
    chk.cov["schedules_3inst"] = n
    joinfam.replay_join(chk, f, KINDS_SS, "merge-3inst", stride=25 if quick else 4, ms=[1, 2, 3, 4, 6], prop_tags=tags,
                        seed=chk.seed + 1)
    joinfam.random_join(chk, KINDS_SS + ["smh_f64_fnv"], "random-merge", runs=14 if quick else 60, length=150, nitems=100,
                        ms=[1, 2, 3, 4, 5, 7], merge=True, prop_tags=tags)
    joinfam.random_join(chk, KINDS_SS, "random-merge-large-m", runs=2 if quick else 10, length=40, nitems=40, ms=[64, 256],
                        merge=True, seed=chk.seed + 2, prop_tags=tags)
    joinfam.big_join(chk, ["ss_", "smh_"])
    chk.cov["explanation"] = "design-level exhaustive for small tables; code-level: all histories of the stated shape + sampled long histories"


def replay(chk, path):
    build_harness("sk")
    return joinfam.replay_one(chk, path, "C05")


def selftest(chk):
    build_harness("sk")
    f, n, res = joinfam.gen_schedules(chk, "st", nitems=2, ninst=2, depth=3, maxslice=1, slice_=False, merge=True)
    tf = os.path.join(chk.wd, "st.ndjson")
    harness("sk", ["replay", "in=" + f, "out=" + tf, "kinds=ss_u16", "seed=11", "ms=3,4"])
    rows = read_ndjson(tf)
    assert validate_trace("TraceJoin", tf, chk.wd)["accepted"]
    ref = [i for i, r in enumerate(rows) if r.get("op") == "mg" and r.get("out") == "refused"]
    okm = [i for i, r in enumerate(rows) if r.get("op") == "mg" and r.get("out") == "ok"
           and rows[i - 1].get("run") == r.get("run") and rows[i - 1].get("op") != "new"]
    assert ref and okm, "selftest needs refused and accepted merges"
    # a refused merge reported as accepted must be rejected; a merge that drops a register must be rejected
    bad = [json.loads(json.dumps(r)) for r in rows]
    bad[ref[0]]["out"] = "ok"
    f2 = os.path.join(chk.wd, "st2.ndjson")
    write_ndjson(f2, bad)
    v2 = validate_trace("TraceJoin", f2, chk.wd)
    cand = [i for i in okm if max(rows[i]["obs"]) > 0]
    bad = [json.loads(json.dumps(r)) for r in rows]
    i3 = cand[0]
    p = bad[i3]["obs"].index(max(bad[i3]["obs"]))
    bad[i3]["obs"][p] -= 1
    f3 = os.path.join(chk.wd, "st3.ndjson")
    write_ndjson(f3, bad)
    v3 = validate_trace("TraceJoin", f3, chk.wd)
    bad = [json.loads(json.dumps(r)) for r in rows]
    bad[i3]["low"] = max(bad[i3]["obs"]) + 1
    f4 = os.path.join(chk.wd, "st4.ndjson")
    write_ndjson(f4, bad)
    v4 = validate_trace("TraceJoin", f4, chk.wd)
    ok = (not v2["accepted"]) and v2["matched"] == ref[0] and (not v3["accepted"]) and v3["matched"] == i3 and not v4["accepted"]
    log("[C05 selftest] refused->ok rejected: %s; lost register rejected: %s; low above min rejected: %s" % (
        not v2["accepted"], not v3["accepted"], not v4["accepted"]))
    return 0 if ok else 2
