"""C04 - unweighted sketches have set semantics"""
import json
import os
from common import *
import joinfam

LEVEL = "model_checking"
MANIFEST = dict(
    category="model_checking",
    text="TLC checks on implementation-shaped specifications (SuperMinHash.tla, SuperMinHash2.tla, SetSketch.tla, "
         "DensMinHash.tla: lazy permutation, histogram/a_upper pruning, lower_k/nbmin pruning, OPH bins) that the registers "
         "always equal the join over the SET of distinct items, for all draw tables and all orders/repetitions at small sizes; "
         "TLC enumerates every API-call history (sketch / sketch_slice, all chunkings and duplicates, items in first-use "
         "order) up to a depth, each is replayed on the real sketchers with fresh concrete items and several sizes, and TLC "
         "validates every recorded step against the join of measured single-item tables (TraceJoin.tla / TraceDens.tla), "
         "including 'stored hashes are hashes of streamed items'. Long random streams (hundreds of items, m from 1 to far "
         "larger than the stream) are recorded and validated the same way."
         " Realistic sizes (m up to 30000, streams up to 10^6) are covered harness-side with the same Layer-A function; for f32 densified sketches, witness pairs of items that tie in a bin are searched and streamed in both orders (TraceDens.tla demands that the owner of a bin is a function of the set streamed).",
    design_ref="DESIGN.md section 4, C04/C05",
    note="trusted: TLC, Json/IOUtils community modules, the rank abstraction (order isomorphism) of the harness, measured "
         "single-item tables (a fresh sketcher fed one item); exhaustive only for the stated small bounds, larger sizes sampled",
    technique="TLA+ refinement check with TLC + TLC-generated schedules replayed into Rust + TLC trace validation against measured tables",
)

KINDS = ["smh_f64_fnv", "smh_f32_fnv", "smh_f64_no", "smh_f32_no", "smh2_u64_fnv", "smh2_u64_no", "smh2_u32_xx", "ss_u16", "ss_u32",
         "smh_f64_no32", "smh2_u64_no32", "ss_i32", "ss_u16_no"]


def run(chk):
    build_harness("sk")
    quick = chk.tier == "quick"
    chk.cov["rule"] = ("histories = all sequences of sketch/sketch_slice calls (slices up to 3 items, duplicates allowed) of "
                       "depth 3 over 3 abstract items, instantiated with fresh concrete items for every sketcher kind; "
                       "non-trivial = the history repeats an item or has >= 2 items and the final sketch has >= 2 distinct "
                       "values/winners; plus long random streams")
    chk.assumptions += ["single-item tables are measured from the implementation itself (fresh sketcher, one item)",
                        "exact ties between different items in f32 sketches cannot change the register value, so they need no special case"]
    import layerb
    layerb.check_sketch_specs(chk, ["SuperMinHash", "SuperMinHash2", "SetSketch"], quick)
    f, n, res = joinfam.gen_schedules(chk, "c04", nitems=3, ninst=1, depth=3, maxslice=3)
    chk.cov["schedules_enumerated"] = n
    joinfam.replay_join(chk, f, KINDS, "schedules", stride=6 if quick else 1, ms=[1, 2, 3, 4, 5, 8, 16])
    joinfam.random_join(chk, KINDS, "random-small-m", runs=16 if quick else 60, length=150, nitems=120, ms=[1, 2, 3, 4, 5, 7])
    joinfam.random_join(chk, KINDS, "random-large-m", runs=3 if quick else 12, length=30, nitems=30, ms=[64, 200],
                        seed=chk.seed + 1)
    joinfam.big_join(chk, ["smh", "ss_"])
    import densfam
    densfam.c04_part(chk, quick)
    chk.cov["exhaustive"] = False
    chk.cov["explanation"] = "design-level exhaustive for small tables; code-level: all histories of the stated shape + sampled long streams"


def replay(chk, path):
    build_harness("sk")
    r = joinfam.replay_one(chk, path, "C04")
    if r is None:
        import densfam
        r = densfam.replay_one(chk, path, "C04")
    return r


def selftest(chk):
    build_harness("sk")
    f, n, res = joinfam.gen_schedules(chk, "st", nitems=2, ninst=1, depth=2, maxslice=2)
    tf = os.path.join(chk.wd, "st.ndjson")
    harness("sk", ["replay", "in=" + f, "out=" + tf, "kinds=ss_u16,smh_f64_fnv,smh2_u64_fnv", "seed=3", "ms=3,4"])
    rows = read_ndjson(tf)
    v = validate_trace("TraceJoin", tf, chk.wd)
    assert v["accepted"], "unchanged trace must be accepted"
    # corrupt one observed register
    idx = [i for i, r in enumerate(rows) if r.get("op") == "sk" and "obs" in r][7]
    bad = [json.loads(json.dumps(r)) for r in rows]
    bad[idx]["obs"][0] += 1
    f2 = os.path.join(chk.wd, "st_corrupt.ndjson")
    write_ndjson(f2, bad)
    v2 = validate_trace("TraceJoin", f2, chk.wd)
    # corrupt a stored identity
    idx3 = [i for i, r in enumerate(rows) if r.get("op") == "sk" and "sig" in r][5]
    bad = [json.loads(json.dumps(r)) for r in rows]
    bad[idx3]["sig"][0] = -1
    f3 = os.path.join(chk.wd, "st_corrupt2.ndjson")
    write_ndjson(f3, bad)
    v3 = validate_trace("TraceJoin", f3, chk.wd)
    # remove an event that changed the state
    idx4 = None
    for i, r in enumerate(rows):
        if i > 2 and r.get("op") == "sk" and rows[i - 1].get("op") == "sk" and r.get("run") == rows[i - 1].get("run") \
                and "obs" in r and r["obs"] != rows[i - 1]["obs"] and i + 1 < len(rows) and rows[i + 1].get("run") == r.get("run"):
            idx4 = i
            break
    ok4 = True
    if idx4 is not None:
        f4 = os.path.join(chk.wd, "st_removed.ndjson")
        write_ndjson(f4, rows[:idx4] + rows[idx4 + 1:])
        ok4 = not validate_trace("TraceJoin", f4, chk.wd)["accepted"]
    ok = (not v2["accepted"]) and v2["matched"] == idx and (not v3["accepted"]) and v3["matched"] == idx3 and ok4
    log("[C04 selftest] corrupted register rejected: %s, corrupted identity rejected: %s, removed event rejected: %s" % (
        not v2["accepted"], not v3["accepted"], ok4))
    return 0 if ok else 2
