"""C02 - a ProbMinHash signature is a function of the weighted set alone"""
import json
import os
from common import *
import joinfam

LEVEL = "model_checking"
MANIFEST = dict(
    category="model_checking",
    text="ProbMinHash.tla models variants 3 (while-loop with interval pruning), 3a (first pass, to_be_processed buffer, "
         "rounds) and 2 (permutation stream, reset) statement by statement; TLC checks for every draw table, every insertion "
         "order, batch split and repetition at small sizes that registers/signature equal the race semantics 'register = min "
         "of first arrivals, signature = arg-min over the SET' and never hold the placeholder. TLC enumerates all histories "
         "of item-wise / batch calls over 1-2 instances; they are replayed on ProbMinHash2/3/3a/3a-Sha through every entry "
         "point (hash_item, hash_wset, IndexMap, HashMap), on a ProbMinHash3/3a pair fed the same sets, and on pairs whose "
         "weights differ by a power of two; TLC validates every recorded signature against the arg-min of measured race "
         "tables (register accessor hook), treating exact floating-point ties as the property says. Weights near both ends of "
         "the f64 range are probed separately."
         " Realistic sizes are covered harness-side with the same Layer-A function: m up to 4096 with streams up to 10^5 (10^6 thorough), and sketches far larger than the stream (singletons and sets dominated by one heavy entry at m up to 30000, with the ProbMinHash3-vs-3a comparison)."
             " Runs behind the crate's identity hasher with byte-structured identifier pairs, runs in which an item is the constructor's initial object, a twin sketcher fed the same set in the opposite order at the end of every history, and the function-of-the-set rule of TraceJoin.tla.",
    design_ref="DESIGN.md section 4, C02",
    note="trusted: TLC, Json/IOUtils, rank abstraction, measured race tables via the guarded register accessor; the union law "
         "is a consequence of the validated arg-min semantics; exhaustive only at the stated small sizes",
    technique="TLA+ refinement check with TLC + TLC-generated schedules replayed into Rust + TLC trace validation against measured race tables",
)

KINDS = ["pmh2", "pmh3", "pmh3a", "pmh3asha"]
KINDS_NO = ["pmh2_no", "pmh3_no", "pmh3a_no"]   # the crate's identity hasher, byte-structured and extreme identifiers


def tags(hdr, bad):
    t = dict(fullkind=hdr.get("fullkind"))
    sig = bad.get("sig") or []
    t["symptom"] = "placeholder" if 0 in sig else ("foreign" if -1 in sig else "other")
    mw = hdr.get("minw")
    t["tiny_weight"] = bool(mw is not None and mw < 1e-304)
    return t


def run(chk):
    build_harness("sk")
    quick = chk.tier == "quick"
    chk.cov["rule"] = ("histories of item-wise and batch calls (batches up to 3 entries, repeats allowed) over 1 instance "
                       "(depth 3) and 2 instances (3 vs 3a, scaled weights), all four variants, every entry point; "
                       "non-trivial = >= 2 entries or a repeat and a final signature with >= 2 distinct winners; long random "
                       "streams; weights 1e-307..1e300")
    chk.assumptions += ["race tables are measured from the implementation (fresh sketcher, one entry, register accessor)",
                        "HashMap iteration order is whatever RandomState gives in this process (order independence is the property)"]
    import layerb
    layerb.check_sketch_specs(chk, ["ProbMinHash"], quick)
    f, n, res = joinfam.gen_schedules(chk, "c02a", nitems=3, ninst=1, depth=3, maxslice=3, reinit=True)
    chk.cov["schedules_1inst"] = n
    joinfam.replay_join(chk, f, KINDS, "schedules", stride=8 if quick else 2, ms=[2, 3, 4, 5, 8, 16], prop_tags=tags)
    f2, n2, res = joinfam.gen_schedules(chk, "c02b", nitems=3, ninst=2, depth=3, maxslice=2)
    chk.cov["schedules_2inst"] = n2
    joinfam.replay_join(chk, f2, ["pmh3+3a", "pmh2@scale", "pmh3@scale", "pmh3a@scale", "pmh3asha@scale"], "3-vs-3a-and-scaling",
                        stride=4 if quick else 1, ms=[2, 3, 4, 8], prop_tags=tags, seed=chk.seed + 1)
    joinfam.random_join(chk, KINDS_NO, "identity-hasher", runs=20 if quick else 80, length=60, nitems=40, ms=[2, 3, 4, 6, 16],
                        prop_tags=tags)
    joinfam.random_join(chk, KINDS, "random-streams", runs=16 if quick else 60, length=120, nitems=150, ms=[2, 3, 4, 6, 16],
                        reinit=True, prop_tags=tags)
    joinfam.random_join(chk, KINDS, "random-large-m", runs=2 if quick else 10, length=40, nitems=60, ms=[64, 256],
                        prop_tags=tags, seed=chk.seed + 2)
    joinfam.random_join(chk, [k + "!huge" for k in KINDS], "huge-weights", runs=2 if quick else 8, length=30, nitems=20,
                        ms=[2, 4, 16], prop_tags=tags, seed=chk.seed + 3)
    joinfam.random_join(chk, [k + "!tiny" for k in KINDS], "tiny-weights", runs=2 if quick else 8, length=30, nitems=20,
                        ms=[2, 4, 16], prop_tags=tags, seed=chk.seed + 4)
    # fixed one-entry sets at the low end of the weight range: no position may keep the placeholder
    out = os.path.join(chk.wd, "tinyprobe.json")
    harness("sk", ["tinyprobe", "out=" + out])
    for c in json.load(open(out))["cases"]:
        chk.add("evaluations", 1)
        t = dict(kind=c["kind"], op="probe", where="tiny-weights", fullkind=c["kind"] + "!tiny", tiny_weight=bool(c["tiny"]))
        if c.get("panic"):
            chk.violation(dict(t, symptom="panic"), dict(kind="tiny-probe", case=c))
        elif c["placeholder_positions"] or c["foreign_positions"]:
            chk.violation(dict(t, symptom="placeholder" if c["placeholder_positions"] else "foreign"), dict(kind="tiny-probe", case=c))
    joinfam.big_join(chk, ["pmh"])
    chk.cov["explanation"] = "design-level exhaustive at small sizes; code-level all histories of the stated shape + sampled streams"


def replay(chk, path):
    build_harness("sk")
    sc = json.load(open(path))["scenario"]
    if sc.get("kind") == "tiny-probe":
        out = os.path.join(chk.wd, "tinyprobe_replay.json")
        harness("sk", ["tinyprobe", "out=" + out])
        c0 = sc["case"]
        bad = [c for c in json.load(open(out))["cases"] if (c["kind"], c["m"], c["weight"]) == (c0["kind"], c0["m"], c0["weight"])
               and (c.get("panic") or c.get("placeholder_positions") or c.get("foreign_positions"))]
        for c in bad:
            log(json.dumps(c))
        if bad:
            log("VIOLATION property=C02 replay=%s" % path)
        return 1 if bad else 0
    r = joinfam.replay_one(chk, path, "C02")
    return 2 if r is None else r


def selftest(chk):
    build_harness("sk")
    f, n, res = joinfam.gen_schedules(chk, "st", nitems=3, ninst=1, depth=2, maxslice=2)
    tf = os.path.join(chk.wd, "st.ndjson")
    harness("sk", ["replay", "in=" + f, "out=" + tf, "kinds=pmh3,pmh2", "seed=5", "ms=4"])
    rows = read_ndjson(tf)
    assert validate_trace("TraceJoin", tf, chk.wd)["accepted"]
    # swap the winner at one position for another streamed item: must be rejected
    done = False
    for i, r in enumerate(rows):
        if r.get("op") in ("sk", "sl") and len(set(r.get("sig", []))) >= 2:
            bad = [json.loads(json.dumps(x)) for x in rows]
            s = bad[i]["sig"]
            other = [v for v in s if v != s[0]][0]
            s[0] = other
            f2 = os.path.join(chk.wd, "st2.ndjson")
            write_ndjson(f2, bad)
            v2 = validate_trace("TraceJoin", f2, chk.wd)
            done = (not v2["accepted"]) and v2["matched"] == i
            break
    log("[C02 selftest] wrong winner rejected: %s" % done)
    return 0 if done else 2
