"""frequency validation shared by C01, C03, C08 (harness bin `fq`, lib/stats.py)"""
import json
import os
from fractions import Fraction
from common import *
import stats

DELTA = 1e-9


def run_pairs(chk, cells, label, timeout=3000):
    cin = os.path.join(chk.wd, "pairs_%s.json" % label)
    json.dump(dict(cells=cells), open(cin, "w"))
    out = os.path.join(chk.wd, "pairs_%s_out.json" % label)
    harness("fq", ["pairs", "in=" + cin, "out=" + out, "seed=%d" % chk.seed], timeout=timeout)
    return json.load(open(out))["cells"]


def judge_pairs(chk, cells, results, label, check_mse=True, extra_tags=None):
    """cells carry 'oracle' (float in [0,1]); accept |mean - oracle| <= empirical-Bernstein radius and
    mean (f-oracle)^2 <= oracle(1-oracle)/m + radius"""
    worst = 0.0
    worst_mse = 0.0
    for c, r in zip(cells, results):
        m = c["m"]
        p = c["oracle"]
        hist = r["hist"]
        n, mean, var = stats.hist_moments(hist, m)
        eps = stats.bernstein_radius(n, var, DELTA)
        chk.add("evaluations", n)
        dev = abs(mean - p)
        worst = max(worst, dev / eps if eps > 0 else 0.0)
        # squared error g = (k/m - p)^2 in [0,1]
        g = [(k / m - p) ** 2 for k in range(m + 1)]
        mg = sum(gk * h for gk, h in zip(g, hist)) / n if n else 0.0
        vg = sum((gk - mg) ** 2 * h for gk, h in zip(g, hist)) / (n - 1) if n > 1 else 0.0
        epsg = stats.bernstein_radius(n, vg, DELTA)
        bound = p * (1 - p) / m
        rec = dict(label=label, kind=c["kind"], m=m, shape=c.get("shape"), oracle=p, mean=mean, radius=eps, trials=n,
                   mse=mg, mse_bound=bound, mse_radius=epsg, panics=r["panics"])
        if 0.02 < p < 0.98:
            chk.add("distinct_nontrivial", 1)
        chk.sample(rec, cap=6)
        tags = dict(kind="freq", sketcher=c["kind"], shape=c.get("shape"), m=m)
        if extra_tags:
            tags.update(extra_tags)
        if r["panics"]:
            chk.violation(dict(tags, what="panic"), dict(kind="freq-cell", cell=rec, groups=c.get("groups"), seed=chk.seed))
        elif dev > eps:
            chk.violation(dict(tags, what="mean"), dict(kind="freq-cell", cell=rec, groups=c.get("groups"), seed=chk.seed))
        elif check_mse and mg - epsg > bound + 1e-12:
            chk.violation(dict(tags, what="mse"), dict(kind="freq-cell", cell=rec, groups=c.get("groups"), seed=chk.seed))
        if bound > 0:
            worst_mse = max(worst_mse, mg / bound)
    log("[%s] %s: %d cells, worst |mean-oracle|/radius = %.3f, worst mse/bound = %.3f" % (chk.pid, label, len(cells), worst, worst_mse))
    chk.cov.setdefault("worst_dev_over_radius", {})[label] = worst
    chk.cov.setdefault("worst_mse_over_bound", {})[label] = worst_mse
    return worst


def replay_cell(chk, path):
    """the cell of the scenario is measured again (same seed, same number of trials) and judged by the same rule"""
    doc = json.load(open(path))
    sc = doc["scenario"]
    rec = sc.get("cell") or {}
    if sc.get("kind") != "freq-cell" or not sc.get("groups"):
        log("frequency cell: %s" % json.dumps(sc)[:3000])
        log("re-run the check with VERIF_SEED=%s to re-measure this cell on the current tree" % sc.get("seed"))
        return 1
    shape = rec.get("shape") or ""
    cell = dict(kind=rec["kind"], m=rec["m"], groups=sc["groups"], shape=shape, oracle=rec["oracle"], trials=rec["trials"])
    if "+reuse" in shape:
        cell["reuse"] = True
    if shape.startswith("one-bit-twins-"):
        cell["ids"] = "flip" + shape.rsplit("-", 1)[1]
    elif "+idhash-low32" in shape:
        cell["ids"] = "low32"
    elif "+idhash" in shape:
        cell["ids"] = "paired32" if rec["kind"].endswith("no32") else "paired"
    build_harness("fq")
    chk.seed = sc.get("seed", chk.seed)
    res = run_pairs(chk, [cell], "replay")
    n, mean, var = stats.hist_moments(res[0]["hist"], cell["m"])
    eps = stats.bernstein_radius(n, var, DELTA)
    g = [(k / cell["m"] - cell["oracle"]) ** 2 for k in range(cell["m"] + 1)]
    mg = sum(gk * h for gk, h in zip(g, res[0]["hist"])) / n if n else 0.0
    vg = sum((gk - mg) ** 2 * h for gk, h in zip(g, res[0]["hist"])) / (n - 1) if n > 1 else 0.0
    epsg = stats.bernstein_radius(n, vg, DELTA)
    bound = cell["oracle"] * (1 - cell["oracle"]) / cell["m"]
    what = doc.get("tags", {}).get("what")
    log("cell %s m=%d shape=%s: oracle %.6f, mean %.6f +- %.6f over %d trials, mse %.6f (bound %.6f), panics %d"
        % (cell["kind"], cell["m"], shape, cell["oracle"], mean, eps, n, mg, bound, res[0]["panics"]))
    bad = res[0]["panics"] > 0 or abs(mean - cell["oracle"]) > eps or (what == "mse" and mg - epsg > bound + 1e-12)
    if bad:
        log("VIOLATION property=%s replay=%s" % (chk.pid, path))
    return 1 if bad else 0
