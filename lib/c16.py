"""C16 - the truncated-exponential sampler (src/exp01.rs) has the right law on [0,1)"""
import decimal
import json
import math
import os
import re
from decimal import Decimal as D

from common import *

LEVEL = "other"
MANIFEST = dict(
    category="other",
    text="Exp01.tla transcribes ExpRestricted01::sample on a rational grid (integer tables of c1, c2, c3 and of the "
         "curve generated in 50-digit arithmetic for 12 rates from 1e-9 to 30); TLC explores every grid behaviour and "
         "decides: range, squeeze tests implied by the exact test, accepted proposal cells map one-to-one onto the "
         "cells under the curve, first try uniform with weight 1/c1, mixture within one cell of the target "
         "distribution function.  Every TLC behaviour is replayed on the real sampler with a scripted generator "
         "(draws consumed, output cell); the same grid is run on the real code, recorded and validated by TLC "
         "(TraceExp01.tla).  The verdict comes from a deterministic quadrature of the real code over the first three "
         "generator outputs (about 6000 / 24000 points per axis): range [0,1) of every value, law of the rejection "
         "loop and total law against the high-precision target, draw budget for non-termination.  The law is checked "
         "up to the stated discretisation (sup-distance 1/N for the loop, 3/N in total), not proved."
         " Added after the seeded-change campaign: an end-to-end law test with a real generator (10^6 / 8*10^6 samples per rate, Dvoretzky-Kiefer-Wolfowitz radius) that also exercises long rejection runs, and probes of the generator words around the first-branch threshold 1/c1 for ~10000 rates (range [0,1)).",
    design_ref="DESIGN.md section 4, C16 (and 2.6)",
    note="level 'other': exhaustive on the TLC grid, quadrature (not proof) on the real code; assumes the sampler is a "
         "function of the generator outputs only and that a rejected pass restarts the loop afresh (checked "
         "metamorphically); trusted: TLC, python decimal, rand's Uniform<f64> mapping (next_u64 >> 12) * 2^-52",
    technique="TLA+ grid specification + TLC (complete behaviour enumeration), scripted-generator replay, TLC trace "
              "validation, deterministic quadrature of the real code against a high-precision oracle",
)

CTX = decimal.Context(prec=50)
HALF = D("0.5")

# Tolerances of the quadrature, in units of 1/N (N points per axis).
#  weight: the first draw is a threshold count on N points: error < 1/N by construction.
#  total : first-try histogram (+-1 point per cell edge) + weight error (<= 1/N) + loop error: < 2/N + loop error.
#  loop  : midpoint rule in (x, y); measured on the unchanged code over 40 seeds, N in 500..13500:
#          <= 0.10/N for lambda <= 5, 0.26/N at lambda = 30 (columns whose curve is below half a y-step).
# The measured values of every run are in the evidence file (quadrature.per_rate: d_loop_xN, d_total_xN).
TOL_WEIGHT = 2.0
TOL_LOOP = 1.0
TOL_TOTAL = 3.0
TOL_RATIO = 1e-9


# ----------------------------------------------------------------------------------------------
# rates and the high-precision oracle

def lambdas():
    """(id, Decimal value, f64 value): the f64 is what the code receives; the oracle is computed for exactly it"""
    res = []

    def add(name, v):
        f = float(v)
        res.append((name, D(f), f))
    add("1e-9", D("1e-9"))
    add("1e-6", D("1e-6"))
    add("1e-3", D("1e-3"))
    for m in (1024, 16, 4, 3, 2):
        add("ln(%d/%d)" % (m, m - 1), CTX.ln(CTX.divide(D(m), D(m - 1))))
    add("0.5", D("0.5"))
    add("1", D(1))
    add("5", D(5))
    add("30", D(30))
    return res


class Law:
    """constants and target functions for one rate, 50 digits (cancellations cost at most 10 of them)"""

    def __init__(self, lam):
        with decimal.localcontext(CTX):
            self.lam = lam
            self.em = lam.exp() - 1                      # e^lam - 1
            self.emn = 1 - (-lam).exp()                  # 1 - e^-lam
            self.c1 = self.em / lam
            self.c2 = (2 / (1 + (-lam).exp())).ln() / lam
            self.c3 = self.emn / lam

    def phi(self, x):
        with decimal.localcontext(CTX):
            return ((self.lam * (1 - x)).exp() - 1) / self.em

    def cdf(self, x):
        """target: (1 - exp(-lam x)) / (1 - exp(-lam))"""
        with decimal.localcontext(CTX):
            return (1 - (-self.lam * x).exp()) / self.emn

    def loop_cdf(self, x):
        """law of the rejection loop: density proportional to phi, i.e. to exp(-lam x) - exp(-lam)"""
        with decimal.localcontext(CTX):
            lam = self.lam
            num = (1 - (-lam * x).exp()) / lam - x * (-lam).exp()
            den = self.emn / lam - (-lam).exp()
            return num / den


# ----------------------------------------------------------------------------------------------
# integer tables for TLC

EPS_CUT = D("1e-9")


def ifloor(v):
    return int(v.to_integral_value(rounding=decimal.ROUND_FLOOR))


def inear(v):
    return int(v.to_integral_value(rounding=decimal.ROUND_HALF_EVEN))


def count_le(v, n):
    """#{j in 0..n-1 : (j+1/2)/n <= v}"""
    with decimal.localcontext(CTX):
        return max(0, min(n, ifloor(v * n + HALF)))


def jump_distance(v, n):
    """(distance of v from the nearest mid-point (j+1/2)/n, that j)"""
    with decimal.localcontext(CTX):
        t = v * n - HALF
        j = inear(t)
        return abs(t - j) / n, j


def make_tables(n, nu):
    k = int((2 ** 31 - 1) // (nu * n * (n * n // 2) * 1.02))
    k = max(10, min(1000, k))
    tabs = dict(n=n, nu=nu, k=k, lams=[], cuts=[])
    with decimal.localcontext(CTX):
        top = 1 - D(2) ** -52
        for (name, lam, lamf) in lambdas():
            law = Law(lam)
            xs = [(D(i) + HALF) / n for i in range(n)]
            us = [(D(i) + HALF) / nu for i in range(nu)]
            fo = []
            cut_u = []
            for kk, u in enumerate(us):
                v = law.c1 * u
                if v < 1:
                    fo.append(ifloor(v * n))
                    vn = v * n
                    d = min(abs(v - 1), abs(vn - inear(vn)) / n)
                else:
                    fo.append(-1)
                    d = abs(v - 1)
                if d < EPS_CUT:
                    cut_u.append(kk)
            if not law.c1 * top >= 1:
                raise ToolError("c1 * (1 - 2^-52) < 1 for lambda %s" % name)
            fo.append(-1)                      # cell NU: the top of the generator range always enters the loop
            c2 = [1 if x < law.c2 else 0 for x in xs]
            cut_x = [i for i, x in enumerate(xs) if abs(x - law.c2) < EPS_CUT]
            phi = [count_le(law.phi(x), n) for x in xs]
            t1 = [count_le(1 - x / law.c3, n) for x in xs]
            t2 = [count_le((1 - x) / law.c1, n) for x in xs]
            # columns whose curve value is within EPS_CUT of a cell mid-point: the cell at the jump is cut
            cut_col = {}
            for i, x in enumerate(xs):
                d, j = jump_distance(law.phi(x), n)
                if d < EPS_CUT and 0 <= j < n:
                    cut_col[str(i)] = j
            wnu = inear(k * nu / law.c1)
            ft = [inear(k * law.cdf(D(b) / n)) for b in range(n + 1)]
            tabs["lams"].append(dict(id=name, value=lamf, fo=fo, c2=c2, t1=t1, t2=t2, phi=phi, wnu=wnu, ft=ft))
            tabs["cuts"].append(dict(u=cut_u, x=cut_x, col=cut_col))
    # InvLaw: the grid mixture is within one cell (1/N) of the target distribution function (+1 unit: table rounding)
    tabs["lawtol"] = int(math.ceil(k / n)) + 1
    return tabs


def law_residual(tabs):
    """max over rates and cell edges of |grid mixture - target| in units of 1/k (python mirror of LawOnGrid)"""
    n, nu, k = tabs["n"], tabs["nu"], tabs["k"]
    worst = 0.0
    for t in tabs["lams"]:
        s = sum(t["phi"])
        w = sum(1 for v in t["fo"][:nu] if v >= 0)
        cum = 0
        for b in range(n + 1):
            if b > 0:
                cum += t["phi"][b - 1]
            lhs = w * b * s * k + (nu - w) * cum * n * k
            worst = max(worst, abs(lhs - t["ft"][b] * n * s * nu) / (n * s * nu))
    return worst


def outcome(tabs, a, k, i, j):
    """python mirror of Exp01!Outcome (only used to list *all* mismatching events after TLC rejected a trace)"""
    t = tabs["lams"][a - 1]
    n = tabs["n"]
    if t["fo"][k] >= 0:
        return 1, t["fo"][k]
    if t["c2"][i] == 1:
        return 2, i
    if i + j >= n:
        i, j = n - 1 - i, n - 1 - j
    if j < t["t1"][i] or j < t["t2"][i] or j < t["phi"][i]:
        return 3, i
    return 4, -1


def is_cut(tabs, a, kind, u, x, y):
    c = tabs["cuts"][a - 1]
    n = tabs["n"]
    if kind == "first":
        return u in c["u"]
    if x in c["x"]:
        return True
    if kind == "strip":
        return False
    if x + y >= n:
        x, y = n - 1 - x, n - 1 - y
    return c["col"].get(str(x)) == y


# ----------------------------------------------------------------------------------------------
# TLC on the grid, replay of its behaviours, trace validation of the real code on the same grid

INVS = ["InvRange", "InvSqueeze", "InvStrip", "InvInjective", "InvCover", "InvProgress", "InvFirstWeight",
        "InvFirstUniform", "InvLaw"]
ACTIONS = ("First", "Enter", "DrawX", "DrawY", "Test")


def write_tables(chk, n, nu):
    tabs = make_tables(n, nu)
    worst = law_residual(tabs)
    if worst > tabs["lawtol"]:
        raise ToolError("grid tables: residual %.2f/k above the tolerance %d/k of InvLaw" % (worst, tabs["lawtol"]))
    path = os.path.join(chk.wd, "tabs_%d.json" % n)
    with open(path, "w") as f:
        json.dump(tabs, f)
    os.environ["EXP01_TABLES"] = path
    return tabs, path


def model(chk, n, nu, mut="none", emit=True, expect=None, invs=INVS):
    """complete grid behaviour graph for all rates; returns (TlcResult, behaviours, tabs, tables path)"""
    tabs, path = write_tables(chk, n, nu)
    cfg = write_cfg(os.path.join(chk.wd, "Exp01_%d_%s.cfg" % (n, mut)), constants=dict(Mut='"%s"' % mut, Emit=emit),
                    invariants=invs, action_constraints=["EmitStep"])
    res = tlc_check("Exp01", cfg, chk.wd, workers=1, timeout=900, xss=True, coverage=(expect is None),
                    expect_violation=expect)
    if expect is None:
        zero = [a for a in res.coverage_zero_actions() if a in ACTIONS]
        if zero:
            raise ToolError("Exp01: action never taken: %s" % zero)
    return res, (res.printed_json("BH") if emit else []), tabs, path


def violation_once(chk, tags, scenario):
    """one report per (kind, where, rate): the first failing input; further ones are counted"""
    seen = chk.__dict__.setdefault("_c16_seen", set())
    key = (tags.get("kind"), tags.get("where"), tags.get("lam"))
    if key in seen:
        chk.add("further_failing_inputs_not_reported", 1)
        return
    seen.add(key)
    chk.violation(tags, scenario)


def obs_problem(chk, o, lam_id, lam_value, where):
    """range / hang / panic seen on a single call: these are the property itself"""
    if o["outcome"] == "ok" and o.get("inrange", True):
        return False
    kind = "range" if o["outcome"] == "ok" else o["outcome"]
    violation_once(chk, dict(kind=kind, where=where, lam=lam_id),
                   dict(kind="tape", lam=lam_id, value=lam_value, tape=o.get("tape"), observed=o, where=where))
    return True


def grid_replay(chk, n, nu):
    res, bh, tabs, path = model(chk, n, nu)
    chk.tlc_stats(res)
    exp_n = sum(nu + 1 + sum(t["c2"]) + (n - sum(t["c2"])) * (n // 2) for t in tabs["lams"])
    if len(bh) != exp_n:
        raise ToolError("Exp01 N=%d: %d behaviours exported, %d expected" % (n, len(bh), exp_n))
    bf = os.path.join(chk.wd, "bh_%d.ndjson" % n)
    of = os.path.join(chk.wd, "obs_%d.ndjson" % n)
    write_ndjson(bf, bh)
    harness("c16", ["replay", "tabs=" + path, "in=" + bf, "out=" + of, "seed=%d" % chk.seed])
    obs = read_ndjson(of)
    if len(obs) != len(bh):
        raise ToolError("replay returned %d observations for %d behaviours" % (len(obs), len(bh)))
    agree = cut = d_branch = d_law = 0
    first_law = None
    nontriv = set()
    for b, o in zip(bh, obs):
        t = tabs["lams"][b["lam"] - 1]
        if obs_problem(chk, o, t["id"], t["value"], "grid-replay"):
            continue
        if is_cut(tabs, b["lam"], b["kind"], b["u"], b["x"], b["y"]):
            cut += 1
            continue
        # the tape holds b["nd"] draws, then zeros.  Law level: an accepting behaviour must return the same cell
        # (possibly after more draws: the specification accepts whatever they are), a rejecting one must go on.
        if b["acc"]:
            law_ok = o["nd"] <= 3 and o["out"] == b["out"]
            branch_ok = o["nd"] == b["nd"]
        else:
            law_ok = o["nd"] > b["nd"]
            branch_ok = True
        if not law_ok:
            d_law += 1
            if first_law is None:
                first_law = dict(rate=t["id"], behaviour=b, observed=o)
        elif branch_ok:
            agree += 1
            if b["kind"] == "test":
                nontriv.add((b["lam"], b["x"], b["y"]))
        else:
            d_branch += 1
    chk.add("evaluations", len(bh))
    chk.add("behaviours_replayed", len(bh))
    chk.add("replay_agree", agree)
    chk.add("replay_cut_cells", cut)
    chk.add("drift_branch", d_branch)
    chk.add("drift_accept_or_cell", d_law)
    chk.add("distinct_nontrivial", len(nontriv))
    if first_law is not None:
        log("DRIFT [C16] N=%d: %d grid behaviours where the real code accepts/returns another cell than Exp01.tla, "
            "first: %s" % (n, d_law, json.dumps(first_law)))
        chk.notes.append("grid drift (not a verdict): " + json.dumps(first_law))
    test_b = [b for b in bh if b["kind"] == "test"]
    if test_b:
        chk.sample(dict(case="grid-behaviour", rate=tabs["lams"][test_b[len(test_b) // 2]["lam"] - 1]["id"],
                        **test_b[len(test_b) // 2]))
    log("[C16] TLC N=%d NU=%d: %d states, %d behaviours replayed: %d agree, %d cut cells, drift branch=%d "
        "accept/cell=%d (TLC %.1fs)" % (n, nu, res.distinct, len(bh), agree, cut, d_branch, d_law, res.wall))
    return tabs, path


def trace_consts(level):
    return dict(Mut='"none"', Emit=False, Level='"%s"' % level)


def record_and_validate(chk, tabs, path):
    """the whole grid on the real code -> trace -> TLC (direction implementation -> specification)"""
    tf = os.path.join(chk.wd, "trace_%d.ndjson" % tabs["n"])
    harness("c16", ["record", "tabs=" + path, "out=" + tf])
    rows = read_ndjson(tf)
    v = validate_trace("TraceExp01", tf, chk.wd, constants=trace_consts("full"))
    chk.add("traces_validated_against_impl", len(tabs["lams"]))
    chk.add("trace_events", len(rows) - 1)
    chk.add("evaluations", len(rows) - 1)
    chk.cov["states"] += v["distinct"]
    chk.cov["transitions"] += v["generated"]
    level = "full"
    if not v["accepted"]:
        # list every event that is not the specification's outcome (mirror), cross-checked with TLC's first one
        bad_full = []
        bad_law = []
        for idx, r in enumerate(rows[1:], start=1):
            if r.get("op") != "sample" or r.get("outcome") != "ok" or r["out"] == -2:
                t = tabs["lams"][r["lam"] - 1]
                violation_once(chk, dict(kind="range" if r.get("out") == -2 else r.get("outcome", "panic"),
                                         where="grid-trace", lam=t["id"]),
                               dict(kind="trace-event", value=t["value"], event=r, n=tabs["n"], nu=tabs["nu"]))
                bad_full.append(idx)
                bad_law.append(idx)
                continue
            if r["cut"]:
                continue
            nd, out = outcome(tabs, r["lam"], r["u"], r["x"], r["y"])
            if r["out"] != out:
                bad_law.append(idx)
                bad_full.append(idx)
            elif r["nd"] != nd:
                bad_full.append(idx)
        if not bad_full or bad_full[0] != v["matched"]:
            raise ToolError("trace validation: TLC rejects line %d, the mirror of Outcome says %s" % (
                v["matched"] + 1, bad_full[:3]))
        chk.add("drift_trace_branch", len(bad_full) - len(bad_law))
        chk.add("drift_trace_accept_or_cell", len(bad_law))
        level = "law" if not bad_law else "rejected"
        log("DRIFT [C16] trace of the real code on the grid rejected by TraceExp01 at line %d (%s); %d events differ in "
            "draws only, %d in acceptance/cell" % (v["matched"] + 1, json.dumps(rows[v["matched"]]),
                                                   len(bad_full) - len(bad_law), len(bad_law)))
        chk.notes.append("trace drift (not a verdict): first rejected event " + json.dumps(rows[v["matched"]]))
        if not bad_law:
            v2 = validate_trace("TraceExp01", tf, chk.wd, constants=trace_consts("law"))
            if not v2["accepted"]:
                raise ToolError("trace accepted by the mirror at level law but rejected by TLC at line %d" % (v2["matched"] + 1))
    chk.cov["trace_level_accepted"] = level
    chk.sample(dict(case="trace-event", **rows[min(len(rows) - 1, 200)]))
    log("[C16] trace N=%d: %d events of the real code, TraceExp01 accepted=%s level=%s (%.1fs)" % (
        tabs["n"], len(rows) - 1, v["accepted"], level, v["wall"]))
    return v, tf, rows


# ----------------------------------------------------------------------------------------------
# quadrature of the real code

def targets(lam, n):
    """(1/c1, c1, [F(b/n)], [G(b/n)]) as floats from the 50-digit oracle: F target law, G law of the loop"""
    law = Law(lam)
    f = []
    g = []
    with decimal.localcontext(CTX):
        for b in range(n + 1):
            x = D(b) / n
            f.append(float(law.cdf(x)))
            g.append(float(law.loop_cdf(x)))
        return float(1 / law.c1), float(law.c1), f, g


def evaluate_quad(entry, lam, n):
    """distances measured on one rate (python floats, errors ~1e-13, tolerances >= 1e-4)"""
    w_t, c1, f_t, g_t = targets(lam, n)
    res = dict(id=entry["id"], n=n, w_target=w_t)
    w = entry["first_count"] / n
    res["w"] = w
    res["d_weight"] = abs(w - w_t)
    # first try: outputs proportional to the draw with the factor c1 (the uniform component)
    if entry["first_count"] > 0 and entry["ratio_min"] is not None:
        res["first_ratio_dev"] = max(abs(entry["ratio_min"] / c1 - 1), abs(entry["ratio_max"] / c1 - 1))
    else:
        res["first_ratio_dev"] = 0.0
    loops = []
    for s in entry["stage2"]:
        if s.get("decided_by_first_draw"):
            loops.append(dict(ustar=s["ustar"], decided_by_first_draw=True))
            continue
        mass = [a * n + b for a, b in zip(s["strip"], s["acc"])]
        tot = sum(mass)
        d = dict(ustar=s["ustar"], accepted=tot, rej=s["rej"], restart_checked=s["restart_checked"],
                 restart_diff=len(s["restart_diff"]))
        if tot == 0:
            d.update(d_loop=1.0, d_total=1.0, at_loop=0, at_total=0, accept_rate=0.0)
            loops.append(d)
            continue
        cum = cf = 0
        dl = dt = 0.0
        arg_l = arg_t = 0
        for b in range(n + 1):
            if b > 0:
                cum += mass[b - 1]
                cf += entry["first_hist"][b - 1]
            ge = cum / tot
            fe = cf / n + (1 - w) * ge
            if abs(ge - g_t[b]) > dl:
                dl, arg_l = abs(ge - g_t[b]), b
            if abs(fe - f_t[b]) > dt:
                dt, arg_t = abs(fe - f_t[b]), b
        d.update(d_loop=dl, at_loop=arg_l / n, d_total=dt, at_total=arg_t / n, accept_rate=tot / (n * n))
        loops.append(d)
    res["loops"] = loops
    return res


def run_quad(chk, n, seed, tag="q"):
    L = lambdas()
    inp = os.path.join(chk.wd, "%s_in.json" % tag)
    outp = os.path.join(chk.wd, "%s_out.json" % tag)
    with open(inp, "w") as f:
        json.dump(dict(n=n, seed=seed, lams=[dict(id=nm, value=fl) for nm, _, fl in L]), f)
    try:
        harness("c16", ["quad", "in=" + inp, "out=" + outp], timeout=1500)
    except ToolError as e:
        if str(e).startswith("timeout"):
            chk.violation(dict(kind="hang", where="quadrature"), dict(kind="quad-timeout", n=n, seed=seed, note=str(e)))
            return []
        raise
    r = json.load(open(outp))
    return list(zip(r["lams"], L))


def quadrature(chk, n, seed):
    """the verdict: range, non-termination, law of the loop, total law, all on the real code"""
    results = run_quad(chk, n, seed)
    summary = []
    for e, (name, lam, lamf) in results:
        if "new_panic" in e:
            chk.violation(dict(kind="panic", where="new", lam=name), dict(kind="new", value=lamf, msg=e["new_panic"]))
            continue
        calls = e["stage1"]["calls"] + e["edges"]["calls"] + sum(s.get("calls", 0) for s in e["stage2"])
        chk.add("evaluations", calls)
        chk.add("quadrature_calls", calls)
        # (1) range / hang / panic on any tape
        for part, where in [(e["stage1"], "first-draw"), (e["edges"], "edge-tapes")] + \
                           [(s, "loop") for s in e["stage2"] if "bad" in s]:
            for kind_key, kind in (("nbad", "range"), ("nhang", "hang"), ("npanic", "panic")):
                if part[kind_key]:
                    ex = [b for b in part["bad"] if b["kind"] == kind][:1]
                    chk.violation(dict(kind=kind, where=where, lam=name),
                                  dict(kind="tape", lam=name, value=lamf, where=where, count=part[kind_key],
                                       tape=(ex[0]["tape"] if ex else None), observed=(ex[0] if ex else None)))
        if e.get("aborted_after_hangs"):
            log("[C16] quadrature lambda=%s: stopped after repeated exhaustion of the draw budget (reported above)" % name)
            continue
        q = evaluate_quad(e, lam, n)
        tol_w, tol_l, tol_t = TOL_WEIGHT / n, TOL_LOOP / n, TOL_TOTAL / n
        conform = q["d_weight"] <= tol_w and q["first_ratio_dev"] <= TOL_RATIO
        if not conform:
            chk.add("drift_first_try", 1)
            log("DRIFT [C16] lambda=%s: first try differs from 'c1*u with weight 1/c1': weight %.6g (1/c1 = %.6g), "
                "ratio deviation %.2g" % (name, q["w"], q["w_target"], q["first_ratio_dev"]))
        loops_done = [lp for lp in q["loops"] if not lp.get("decided_by_first_draw")]
        if not loops_done:
            chk.add("drift_loop_not_reached", 1)
        for lp in loops_done:
            if lp["restart_diff"]:
                chk.add("drift_restart_dependence", lp["restart_diff"])
            chk.add("restart_checks", lp["restart_checked"])

        def scen(lp, tol):
            return dict(kind="quad", lam=name, value=lamf, n=n, seed=seed, ustar=lp["ustar"], measured=lp,
                        weight=q["w"], weight_target=q["w_target"], tolerance=tol,
                        first_draws_probed=[x["ustar"] for x in loops_done])
        if loops_done:
            # one report per rate and kind, for the first draw with the largest distance
            lt = max(loops_done, key=lambda x: x["d_total"])
            ll = max(loops_done, key=lambda x: x["d_loop"])
            if lt["d_total"] > tol_t:
                chk.violation(dict(kind="law-total", lam=name), scen(lt, tol_t))
            if ll["d_loop"] > tol_l:
                if conform:
                    # first try = uniform component of weight 1/c1 (observed) => the law is right iff the loop has
                    # the residual law proportional to exp(-lam x) - exp(-lam)
                    chk.violation(dict(kind="law-loop", lam=name), scen(ll, tol_l))
                else:
                    chk.add("drift_loop_law", 1)
        wl = max([lp["d_loop"] for lp in loops_done] or [0.0])
        wt = max([lp["d_total"] for lp in loops_done] or [0.0])
        summary.append(dict(rate=name, weight=q["w"], weight_target=q["w_target"], d_weight_xN=round(q["d_weight"] * n, 3),
                            d_loop_xN=round(wl * n, 3), d_total_xN=round(wt * n, 3), first_draws_probed=len(loops_done),
                            accept_rate=(loops_done[0]["accept_rate"] if loops_done else None)))
        log("[C16] quadrature lambda=%-14s N=%d: weight %.6f (1/c1 %.6f), loop law %.3f/N, total law %.3f/N, "
            "%d first draws probed, %d calls" % (name, n, q["w"], q["w_target"], wl * n, wt * n, len(loops_done), calls))
    chk.cov["quadrature"] = dict(n=n, tolerance_loop=TOL_LOOP / n, tolerance_total=TOL_TOTAL / n, per_rate=summary)
    if summary:
        chk.sample(dict(case="quadrature", **summary[len(summary) // 2]))
    return summary


def quad_n(tier, seed):
    """points per axis: seed dependent so that different seeds probe different generator outputs"""
    base = 6000 if tier == "quick" else 24000
    return base + (seed * 2654435761 % 2 ** 32) % (base // 8)


def end_to_end_law(chk):
    """real generator, every path of the sampler (long rejection runs included): DKW test per rate, and the generator
    words around the first-branch threshold 1/c1 for ~10000 rates must give values in [0,1)"""
    import math
    out = os.path.join(chk.wd, "law.json")
    nn = 1000000 if chk.tier == "quick" else 8000000
    harness("c16", ["law", "out=" + out, "seed=%d" % chk.seed, "n=%d" % nn], timeout=3000)
    r = json.load(open(out))
    worst = 0.0
    for c in r["laws"]:
        if c.get("panic"):
            chk.violation(dict(kind="law-e2e", what="panic"), dict(kind="law-e2e", cell=c, seed=chk.seed))
            continue
        chk.add("evaluations", c["n"])
        rad = math.sqrt(math.log(2.0 / (1e-9 / len(r["laws"]))) / (2.0 * c["n"]))
        worst = max(worst, c["ks"] / rad)
        if c["out_of_range"]:
            chk.violation(dict(kind="law-e2e", what="range"), dict(kind="law-e2e", cell=c, seed=chk.seed))
        elif c["ks"] > rad:
            chk.violation(dict(kind="law-e2e", what="law"), dict(kind="law-e2e", cell=c, radius=rad, seed=chk.seed))
    chk.add("evaluations", r["probes"])
    for b in r["probe_failures"]:
        chk.violation(dict(kind="threshold-probe", what="range"), dict(kind="threshold-probe", case=b))
    chk.cov["e2e_law_worst_ks_over_dkw_radius"] = worst
    chk.cov["threshold_probes"] = r["probes"]
    log("[C16] end-to-end law: %d rates x %d samples, worst sup-distance / DKW radius = %.3f; %d threshold probes around 1/c1, %d out of range"
        % (len(r["laws"]), nn, worst, r["probes"], len(r["probe_failures"])))


def run(chk):
    build_harness("c16")
    chk.cov["rule"] = ("TLC enumerates every behaviour of Exp01.tla on the grid (first draw, abscissa, ordinate cells) "
                       "for 12 rates; each is replayed on the real sampler with a scripted generator; non-trivial = "
                       "distinct (rate, x cell, y cell) behaviours that reach the exact test (both loop draws "
                       "consumed) and agree with the real code; the grid is also run on the real code, recorded and "
                       "validated by TLC; evaluations additionally count every call of the real sampler made by the "
                       "quadrature (first draw grid, (x, y) grid per probed first draw, edge tapes)")
    chk.assumptions += [
        "the sampler's output is a function of the generator outputs it consumes (scripted RngCore; rand 0.9 "
        "Uniform<f64>::new(0,1) returns (next_u64 >> 12) * 2^-52)",
        "a rejected pass of the loop restarts afresh, so rejected mass renormalises (checked metamorphically on "
        "recorded rejected tapes; failures are reported as drift)",
        "law-loop verdict: the first try is observed to be the uniform component c1*u of weight 1/c1 (N grid points, "
        "relative 1e-9); then the law is right iff the loop has the residual law",
        "the oracle (distribution functions, tables) is computed with python decimal at 50 digits",
    ]
    grids = [(32, 64)] if chk.tier == "quick" else [(32, 64), (64, 128)]
    for (n, nu) in grids:
        tabs, path = grid_replay(chk, n, nu)
        record_and_validate(chk, tabs, path)
    n = quad_n(chk.tier, chk.seed)
    quadrature(chk, n, chk.seed)
    end_to_end_law(chk)
    chk.cov["exhaustive"] = False
    chk.cov["grids"] = ["N=%d,NU=%d" % g for g in grids]
    chk.cov["rates"] = [nm for nm, _, _ in lambdas()]
    chk.cov["explanation"] = (
        "The law is checked up to discretisation, not proved.  Exhaustive part: all grid behaviours of Exp01.tla "
        "(TLC: squeeze tests sound, accepted cells <-> cells under the curve one-to-one, first try uniform with "
        "weight 1/c1, mixture within one cell of the target) and their replay / trace validation on the real code.  "
        "Verdict part: midpoint quadrature of the real code with N = %d points per axis over (u1), (x, y) for up to "
        "three first draws that enter the loop (always 1 - 2^-52): every returned value in [0,1); sup-distance at "
        "the N cell edges between the measured law of the loop and the law proportional to exp(-lam x) - exp(-lam) "
        "<= %.1f/N; total law <= %.1f/N; draw budget 10000 per call for non-termination.  Deviations of the law "
        "below these distances are not detected; generator states are covered as grid points, not all 2^256 "
        "states." % (n, TOL_LOOP, TOL_TOTAL))


def replay(chk, path):
    sc = json.load(open(path))["scenario"]
    build_harness("c16")
    if sc["kind"] in ("tape", "trace-event"):
        if sc["kind"] == "trace-event" and "u" not in sc["event"]:
            tape = None
        elif sc["kind"] == "trace-event":
            ev = sc["event"]
            nn, nu = sc["n"], sc["nu"]
            u = 1 - 2.0 ** -52 if ev["u"] >= nu else (ev["u"] + 0.5) / nu
            tape = [u, (ev["x"] + 0.5) / nn, (ev["y"] + 0.5) / (nn // 2)]
        else:
            tape = sc.get("tape")
        if not tape:
            log("no tape recorded in this scenario")
            return 2
        rc, out = harness("c16", ["one", "lambda=%r" % sc["value"], "tape=" + ",".join(repr(float(t)) for t in tape)])
        o = json.loads(out.strip().splitlines()[-1])
        log("lambda=%r tape=%s -> %s" % (sc["value"], tape, json.dumps(o)))
        bad = o["outcome"] != "ok" or not o["inrange"]
    elif sc["kind"] == "quad":
        res = [x for x in run_quad(chk, sc["n"], sc["seed"], tag="replay") if x[1][0] == sc["lam"]]
        bad = False
        for e, (name, lam, lamf) in res:
            q = evaluate_quad(e, lam, sc["n"])
            for lp in q["loops"]:
                if lp.get("decided_by_first_draw"):
                    continue
                log("lambda=%s ustar=%r: loop law %.3f/N (tolerance %.1f/N), total law %.3f/N (tolerance %.1f/N)" % (
                    name, lp["ustar"], lp["d_loop"] * sc["n"], TOL_LOOP, lp["d_total"] * sc["n"], TOL_TOTAL))
                bad = bad or lp["d_loop"] > TOL_LOOP / sc["n"] or lp["d_total"] > TOL_TOTAL / sc["n"]
    elif sc["kind"] in ("law-e2e", "threshold-probe"):
        # the end-to-end law is measured again with the seed of the scenario and the same rate is looked up
        import math
        out = os.path.join(chk.wd, "law_replay.json")
        harness("c16", ["law", "out=" + out, "seed=%d" % sc.get("seed", chk.seed), "n=1000000"], timeout=3000)
        r = json.load(open(out))
        bad = False
        if sc["kind"] == "threshold-probe":
            bad = len(r["probe_failures"]) > 0
            log("%d threshold probes out of range" % len(r["probe_failures"]))
        else:
            lam = sc["cell"].get("lambda")
            for c in r["laws"]:
                if c.get("lambda") == lam:
                    rad = math.sqrt(math.log(2.0 / (1e-9 / len(r["laws"]))) / (2.0 * c["n"])) if c.get("n") else 0.0
                    log("lambda=%r: %s" % (lam, json.dumps(c)[:400]))
                    bad = bool(c.get("panic")) or bool(c.get("out_of_range")) or c.get("ks", 0.0) > rad
    else:
        log("scenario kind %s: re-run ./check C16" % sc["kind"])
        return 2
    if bad:
        log("VIOLATION property=C16 replay=%s" % path)
    return 1 if bad else 0


def selftest(chk):
    """anti-vacuity of the specification, of the trace binding and of the quadrature verdict"""
    build_harness("c16")
    ok = True
    # (1) named deviations of the specification must be refuted by TLC
    for mut, inv, invs in (("noreflect", "InvCover", INVS), ("widestrip", "InvStrip", INVS),
                           ("loosesqueeze", "InvSqueeze", ["InvSqueeze"])):
        res, _, tabs, path = model(chk, 32, 64, mut=mut, emit=False, expect=inv, invs=invs)
        mis = re.findall(r'<<"MISCOVER", (\d+), (\d+), (\d+)>>', res.out)
        log("[C16 selftest] Exp01 with Mut=%s: TLC refutes %s%s" % (
            mut, inv, (" (rate #%s: %s cells under the curve never produced, %s produced above it)" % mis[0]) if mis else ""))
    # (2) the trace binds: corrupted output cell, acceptance, draws; removed event (events are numbered)
    tabs, path = write_tables(chk, 32, 64)
    v, tf, rows = record_and_validate(chk, tabs, path)
    assert v["accepted"], "trace of the unchanged code must be accepted"
    cand = [i for i, r in enumerate(rows) if r.get("op") == "sample" and r["nd"] == 3 and not r["cut"] and r["lam"] == 8]
    idx = cand[len(cand) // 2]
    bad = [dict(r) for r in rows]
    bad[idx]["out"] = (bad[idx]["out"] + 1) % 32
    f2 = os.path.join(chk.wd, "corrupt_out.ndjson")
    write_ndjson(f2, bad)
    v2 = validate_trace("TraceExp01", f2, chk.wd, constants=trace_consts("full"))
    cand3 = [i for i, r in enumerate(rows) if r.get("op") == "sample" and r["nd"] == 4 and not r["cut"]]
    idx3 = cand3[len(cand3) // 3]
    bad = [dict(r) for r in rows]
    bad[idx3]["nd"] = 3
    bad[idx3]["out"] = bad[idx3]["x"]                 # a rejected point reported as accepted
    f3 = os.path.join(chk.wd, "corrupt_acc.ndjson")
    write_ndjson(f3, bad)
    v3 = validate_trace("TraceExp01", f3, chk.wd, constants=trace_consts("law"))
    idx4 = [i for i, r in enumerate(rows) if r.get("op") == "sample" and r["nd"] == 2][5]
    bad = [dict(r) for r in rows]
    bad[idx4]["nd"] = 3                                # draws only: rejected at level full, accepted at level law
    f4 = os.path.join(chk.wd, "corrupt_nd.ndjson")
    write_ndjson(f4, bad)
    v4 = validate_trace("TraceExp01", f4, chk.wd, constants=trace_consts("full"))
    v5 = validate_trace("TraceExp01", f4, chk.wd, constants=trace_consts("law"))
    f6 = os.path.join(chk.wd, "removed.ndjson")
    write_ndjson(f6, rows[:idx] + rows[idx + 1:])
    v6 = validate_trace("TraceExp01", f6, chk.wd, constants=trace_consts("full"))
    log("[C16 selftest] removed event rejected at line %d (expected %d): %s" % (v6["matched"] + 1, idx + 1, not v6["accepted"]))
    t_ok = (not v2["accepted"] and v2["matched"] == idx and not v3["accepted"] and v3["matched"] == idx3
            and not v4["accepted"] and v4["matched"] == idx4 and v5["accepted"]
            and not v6["accepted"] and v6["matched"] == idx)
    log("[C16 selftest] corrupted output cell rejected at line %d (expected %d): %s; rejected pass reported as accepted "
        "rejected at line %d (expected %d): %s; draws-only change rejected at level full: %s, accepted at level law: %s"
        % (v2["matched"] + 1, idx + 1, not v2["accepted"], v3["matched"] + 1, idx3 + 1, not v3["accepted"],
           not v4["accepted"], v5["accepted"]))
    ok = ok and t_ok
    # (3) the quadrature verdict binds: a histogram of the real code with 0.3 % of the loop mass moved from the
    # first to the last tenth of [0,1) must exceed the tolerance (and the untouched one must not)
    n = 2000
    res = run_quad(chk, n, chk.seed, tag="st")
    e, (name, lam, lamf) = [x for x in res if x[1][0] == "ln(2/1)"][0]
    q0 = evaluate_quad(e, lam, n)
    e2 = json.loads(json.dumps(e))
    for s in e2["stage2"]:
        if "acc" in s:
            tot = sum(a * n + b for a, b in zip(s["strip"], s["acc"]))
            mv = int(0.003 * tot / (n // 10))
            for b in range(n // 10):
                s["acc"][b] -= mv
                s["acc"][n - 1 - b] += mv
    q1 = evaluate_quad(e2, lam, n)
    d0 = max(lp["d_loop"] for lp in q0["loops"] if "d_loop" in lp) * n
    d1 = max(lp["d_loop"] for lp in q1["loops"] if "d_loop" in lp) * n
    log("[C16 selftest] quadrature N=%d lambda=ln 2: loop law %.3f/N untouched, %.3f/N with 0.3%% of the mass moved "
        "(tolerance %.1f/N)" % (n, d0, d1, TOL_LOOP))
    ok = ok and d0 <= TOL_LOOP and d1 > TOL_LOOP
    return 0 if ok else 2
