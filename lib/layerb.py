"""design-level (Layer B) model checks shared by several properties; filled in per module"""
import os
from common import *

SPECS = {}


def check_sketch_specs(chk, modules, quick):
    for m in modules:
        fn = SPECS.get(m)
        if fn is None:
            chk.notes.append("Layer-B model check of %s.tla not available in this build" % m)
            continue
        fn(chk, quick)
