"""design-level (Layer B) model checks shared by several properties.
Each entry: module, constants per tier, invariants, properties, constraint, mutants {Mut value: expected violated name}"""
import os
from common import *

SPECS = {
    "SetSketch": dict(
        quick=[dict(M=2, Q=2, IMAX=2, NItems=2, NInst=2), dict(M=2, Q=2, IMAX=3, NItems=3, NInst=1)],
        thorough=[dict(M=2, Q=2, IMAX=2, NItems=2, NInst=2), dict(M=2, Q=2, IMAX=3, NItems=3, NInst=1),
                  dict(M=3, Q=2, IMAX=3, NItems=2, NInst=1), dict(M=2, Q=3, IMAX=4, NItems=2, NInst=2),
                  dict(M=3, Q=1, IMAX=2, NItems=2, NInst=2)],
        invariants=["Refines", "LowerOK", "ReinitIsInit"], properties=["EstimateMonotone"], constraint=None,
        mutants=dict(lowmax="LowerOK", lowplus="Refines", mergemin="Refines", mergelow="LowerOK", reinitlow="LowerOK"),
        mutant_consts=dict(M=2, Q=2, IMAX=3, NItems=2, NInst=2),
        actions=["Sketch", "Merge", "Reinit"]),
    "SuperMinHash": dict(
        quick=[dict(M=3, NItems=2, G=2, MaxRank=4), dict(M=2, NItems=3, G=1, MaxRank=4)],
        thorough=[dict(M=3, NItems=2, G=2, MaxRank=5), dict(M=2, NItems=3, G=2, MaxRank=5), dict(M=3, NItems=3, G=1, MaxRank=4),
                  dict(M=4, NItems=2, G=1, MaxRank=3)],
        invariants=["Refines", "Histo", "AupOK", "SingleIsPerm", "ReinitIsInit"], properties=[], constraint="RankBound",
        mutants=dict(jlt="Refines", nolazy="Refines", reinitb="Histo", reinitaup="AupOK"),
        mutant_consts=dict(M=3, NItems=2, G=1, MaxRank=4),
        actions=["Sketch", "Reinit"]),
    "SuperMinHash2": dict(
        quick=[dict(M=3, NItems=2, G=2), dict(M=2, NItems=3, G=2)],
        thorough=[dict(M=3, NItems=2, G=2), dict(M=2, NItems=3, G=2), dict(M=3, NItems=3, G=1), dict(M=4, NItems=2, G=1)],
        invariants=["Refines", "StoredAreStreamed", "NoPlaceholder", "Histo", "AupOK", "SingleIsPerm", "ReinitIsInit"],
        properties=[], constraint=None,
        mutants=dict(lgt="Refines", noaup="AupOK", reinitl="Histo"),
        mutant_consts=dict(M=3, NItems=2, G=1),
        actions=["Sketch", "Reinit"]),
    "ProbMinHash": dict(
        quick=[dict(M=2, NE=2, L=3, G=2, Variant='"3"'), dict(M=2, NE=2, L=3, G=2, Variant='"3a"'),
               dict(M=3, NE=2, L=3, G=1, Variant='"2"')],
        thorough=[dict(M=2, NE=2, L=3, G=2, Variant='"3"'), dict(M=2, NE=2, L=3, G=2, Variant='"3a"'),
                  dict(M=3, NE=2, L=3, G=2, Variant='"2"'), dict(M=2, NE=3, L=3, G=1, Variant='"3"'),
                  dict(M=2, NE=3, L=3, G=1, Variant='"3a"'), dict(M=3, NE=2, L=4, G=1, Variant='"3"'),
                  dict(M=2, NE=3, L=2, G=2, Variant='"2"')],
        invariants=["Refines", "Members", "ResetIsInit"], properties=[], constraint=None,
        mutants=dict(lb="Refines", keep="Refines", brk="Refines", resetsig="Refines"),
        mutant_consts_by=dict(lb=dict(M=2, NE=2, L=3, G=2, Variant='"3"'), keep=dict(M=2, NE=2, L=3, G=2, Variant='"3a"'),
                              brk=dict(M=2, NE=2, L=2, G=2, Variant='"2"'), resetsig=dict(M=2, NE=2, L=2, G=2, Variant='"2"')),
        actions=[]),
}

_done = {}


def check_module(chk, module, quick, with_mutants=True):
    """TLC must accept the faithful model and refute each deviation; a failure here is a tool error"""
    sp = SPECS[module]
    key = (module, quick)
    tot = dict(states=0, gen=0)
    for n, consts in enumerate(sp["quick"] if quick else sp["thorough"]):
        c = dict(consts)
        c["Mut"] = '"none"'
        cfg = write_cfg(os.path.join(chk.wd, "%s_%d.cfg" % (module, n)), constants=c, invariants=sp["invariants"],
                        properties=sp["properties"], constraints=[sp["constraint"]] if sp["constraint"] else ())
        res = tlc_check(module, cfg, chk.wd, workers=8, timeout=1500, xss=True, coverage=(n == 0))
        if n == 0:
            zero = [a for a in res.coverage_zero_actions() if a in sp["actions"]]
            if zero:
                raise ToolError("%s: action never taken: %s" % (module, zero))
        chk.tlc_stats(res)
        tot["states"] += res.distinct
        tot["gen"] += res.generated
    refuted = []
    if with_mutants:
        for mut, inv in sp["mutants"].items():
            c = dict(sp["mutant_consts_by"][mut]) if "mutant_consts_by" in sp else dict(sp["mutant_consts"])
            c["Mut"] = '"%s"' % mut
            cfg = write_cfg(os.path.join(chk.wd, "%s_mut_%s.cfg" % (module, mut)), constants=c, invariants=sp["invariants"],
                            properties=sp["properties"], constraints=[sp["constraint"]] if sp["constraint"] else ())
            tlc_check(module, cfg, chk.wd, workers=4, timeout=600, xss=True, expect_violation=inv)
            refuted.append(mut)
    chk.cov.setdefault("layer_b", {})[module] = dict(distinct_states=tot["states"], deviations_refuted=refuted)
    log("[%s] %s.tla: %d distinct states, invariants %s hold; deviations refuted: %s" % (
        chk.pid, module, tot["states"], ",".join(sp["invariants"] + sp["properties"]), ",".join(refuted) or "-"))


def check_sketch_specs(chk, modules, quick, with_mutants=None):
    if with_mutants is None:
        with_mutants = not quick
    for m in modules:
        check_module(chk, m, quick, with_mutants=with_mutants)
