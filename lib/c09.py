"""C09 - densification only copies populated bins, is idempotent, and terminates"""
import json
import os
from common import *
import densfam

LEVEL = "model_checking"
MANIFEST = dict(
    category="model_checking",
    text="DensMinHash.tla models both densification algorithms as state machines over every occupancy pattern; TLC checks "
         "'populated bins untouched', 'every bin ends with the pair of a populated bin', the empty-bin counter, idempotence, "
         "and termination as a liveness property under fairness (the pre-repair behaviour on the empty stream is a named "
         "deviation that TLC refutes with a lasso). Binding: TLC enumerates all interleavings of sketch / end_sketch / "
         "sketch_slice / reinit to a depth; each is replayed on the real Opt/RevOpt sketchers (f32/f64) and TLC validates "
         "every step (raw state through the guarded accessor, the three views once finished): R1 untouched, R2 copied from a "
         "populated bin, determinism of densification (so sketch_slice = item-wise + end_sketch), idempotence, u32 and float "
         "views functions of the u64 view, failure (not a hang) on the empty stream. Every occupancy pattern (2^m) for "
         "m <= 8 (quick) / 12 (thorough) is realised with witness items, which decides termination completely for those m "
         "(the generators are position-keyed); large m is sampled under a watchdog."
         " f32 tie witnesses (two items, same bin, same value) are streamed in both orders, item-wise and as slices.",
    design_ref="DESIGN.md section 4, C09/C08",
    note="trusted: TLC, Json/IOUtils, the read-only raw-state hook, child-process/in-process watchdogs (3 s / 10 s against "
         "microsecond calls); termination for m above the enumerated range is sampled",
    technique="TLA+ model check (safety + liveness) + TLC-generated schedules and all occupancy patterns replayed into Rust + TLC trace validation",
)


def run(chk):
    build_harness("dm")
    quick = chk.tier == "quick"
    chk.cov["rule"] = ("all interleavings of sketch/end_sketch/sketch_slice/reinit (depth 4 over 1 instance, depth 3 over 2 "
                       "instances); every occupancy pattern of m bins incl. the empty one, both algorithms, f32/f64; "
                       "non-trivial = a finishing call that leaves >= 2 distinct owners in a full sketch")
    chk.assumptions += ["what densification does depends only on (m, occupancy pattern): generators are keyed by position (and pass)"]
    densfam.model_check(chk, quick)
    densfam.replay_schedules(chk, "1inst", nitems=3, ninst=1, depth=4, maxslice=2, stride=30 if quick else 2, ms=[1, 2, 3, 5, 64])
    densfam.replay_schedules(chk, "2inst", nitems=3, ninst=2, depth=3, maxslice=3, stride=30 if quick else 3, ms=[1, 2, 3, 5, 16],
                             seed=chk.seed + 1)
    n = densfam.patterns(chk, [1, 2, 3, 4, 5, 6, 7, 8] if quick else [1, 2, 3, 4, 5, 6, 7, 8, 9, 10, 11, 12])
    densfam.ties(chk)
    densfam.big(chk, not quick)
    chk.cov["exhaustive"] = True
    chk.cov["explanation"] = "termination and R1/R2 decided for every occupancy pattern of the listed m; histories enumerated to the stated depth; large m sampled"


def replay(chk, path):
    build_harness("dm")
    r = densfam.replay_one(chk, path, "C09")
    return 2 if r is None else r


def selftest(chk):
    build_harness("dm")
    tf = os.path.join(chk.wd, "st.ndjson")
    harness("dm", ["patterns", "out=" + tf, "m=3", "seed=3", "alg=opt", "ft=f64"])
    rows = read_ndjson(tf)
    assert validate_trace("TraceDens", tf, chk.wd)["accepted"]
    res = []
    # (1) a copied bin that claims an owner which was not populated, (2) a populated bin that changed, (3) removed event
    en = [i for i, r in enumerate(rows) if r.get("op") == "en" and r.get("out") == "ok" and rows[i - 1].get("op") == "sk"
          and 0 in rows[i - 1]["it"] and len(set(rows[i - 1]["it"])) >= 3]
    i1 = en[0]
    pre = rows[i1 - 1]["it"]
    k_empty = pre.index(0)
    k_pop = [k for k, v in enumerate(pre) if v != 0]
    bad = [json.loads(json.dumps(r)) for r in rows]
    bad[i1]["it"][k_pop[0]] = pre[k_pop[1]]
    f2 = os.path.join(chk.wd, "st2.ndjson")
    write_ndjson(f2, bad)
    v2 = validate_trace("TraceDens", f2, chk.wd)
    res.append((not v2["accepted"]) and v2["matched"] == i1)
    bad = [json.loads(json.dumps(r)) for r in rows]
    bad[i1]["it"][k_empty] = 0
    bad[i1]["ne"] = 1
    f3 = os.path.join(chk.wd, "st3.ndjson")
    write_ndjson(f3, bad)
    v3 = validate_trace("TraceDens", f3, chk.wd)
    res.append((not v3["accepted"]) and v3["matched"] == i1)
    # empty stream reported as ok must be rejected
    emp = [i for i, r in enumerate(rows) if r.get("op") == "en" and r.get("out") == "fail"]
    bad = [json.loads(json.dumps(r)) for r in rows]
    bad[emp[0]]["out"] = "ok"
    f4 = os.path.join(chk.wd, "st4.ndjson")
    write_ndjson(f4, bad)
    v4 = validate_trace("TraceDens", f4, chk.wd)
    res.append((not v4["accepted"]) and v4["matched"] == emp[0])
    f5 = os.path.join(chk.wd, "st5.ndjson")
    write_ndjson(f5, rows[:i1 - 1] + rows[i1:])
    v5 = validate_trace("TraceDens", f5, chk.wd)
    res.append(not v5["accepted"])
    log("[C09 selftest] changed populated bin rejected: %s; unfilled bin rejected: %s; empty stream 'ok' rejected: %s; "
        "removed event rejected: %s" % tuple(res))
    return 0 if all(res) else 2
