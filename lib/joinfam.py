"""shared driver code for the join sketchers (C02, C04, C05, C13): schedules from Schedule.tla,
replay with bin `sk`, validation with TraceJoin.tla"""
import json
import os
from common import *


def gen_schedules(chk, name, nitems, ninst, depth, maxslice, slice_=True, merge=False, reinit=False, end=False,
                  simulate=None, timeout=600):
    """all API-call histories of the given shape (or random walks with simulate='num=..')"""
    cfg = write_cfg(os.path.join(chk.wd, "sched_%s.cfg" % name),
                    constants=dict(NItems=nitems, NInst=ninst, Depth=depth, MaxSlice=maxslice, HasSlice=slice_,
                                   HasMerge=merge, HasReinit=reinit, HasEnd=end),
                    invariants=["SetsAreUsed", "EmitHistory"])
    if simulate:
        res = tlc("Schedule", cfg, chk.wd, workers=1, timeout=timeout, simulate=simulate, ok_rc=None,
                  extra=["-depth", str(depth + 1)])
        if res.rc not in (0,) and "Progress" not in res.out and not res.printed:
            raise ToolError("Schedule simulation failed:\n" + res.out[-2000:])
    else:
        res = tlc_check("Schedule", cfg, chk.wd, workers=1, timeout=timeout, xss=True)
        chk.tlc_stats(res)
    sch = res.printed_json("SCHED")
    if not sch:
        raise ToolError("Schedule.tla produced no history for %s" % name)
    f = os.path.join(chk.wd, "sched_%s.ndjson" % name)
    write_ndjson(f, sch)
    return f, len(sch), res


def op_nontrivial(rows):
    """number of runs whose history contains a duplicate or a reorder-relevant second item and whose final
    sketch has >= 2 distinct winners"""
    n = 0
    cur = None
    seen = set()
    dup = False
    last = None
    for r in rows[1:] + [dict(op="new")]:
        if r.get("op") == "new":
            if cur is not None and last is not None:
                fin = last.get("obs") or last.get("sig") or last.get("hid") or []
                if (dup or len(seen) >= 2) and len(set(fin)) >= 2:
                    n += 1
            cur = r
            seen = set()
            dup = False
            last = None
            continue
        xs = [r["x"]] if "x" in r else r.get("xs", [])
        for x in xs:
            if (r["i"], x) in seen:
                dup = True
            seen.add((r["i"], x))
        if r.get("op") in ("mg", "re"):
            dup = True
        last = r
    return n


def validate_join(chk, tf, label, prop_tags=None, max_rounds=8):
    """validate a recorded trace; every rejected run is reported and removed so that the rest is examined"""
    rows = read_ndjson(tf)
    total_runs = sum(1 for r in rows if r.get("op") == "new")
    chk.add("traces_validated_against_impl", total_runs)
    chk.add("trace_events", len(rows) - 1 - total_runs)
    chk.add("evaluations", len(rows) - 1 - total_runs)
    chk.add("distinct_nontrivial", op_nontrivial(rows))
    rounds = 0
    cur = tf
    rejected = 0
    wall = 0
    while True:
        v = validate_trace("TraceJoin", cur, chk.wd, timeout=1500)
        wall += v["wall"]
        if v["accepted"]:
            break
        rounds += 1
        rejected += 1
        rws = read_ndjson(cur)
        bad = rws[v["matched"]]
        run = bad.get("run")
        hdr = [r for r in rws if r.get("op") == "new" and r.get("run") == run]
        evs = [r for r in rws if r.get("run") == run and r.get("op") != "new"]
        kind = hdr[0]["cfg"][0]["kind"] if hdr else "?"
        tags = dict(kind=kind, op=bad.get("op"), call=bad.get("call"), where=label)
        if prop_tags:
            tags.update(prop_tags(hdr[0] if hdr else {}, bad))
        chk.violation(tags, dict(kind="join-trace", label=label, header=hdr[0] if hdr else None, events=evs,
                                 rejected_event=bad))
        if rounds >= max_rounds:
            chk.notes.append("%s: more than %d rejected runs, remainder of the trace not examined" % (label, max_rounds))
            break
        rest = [r for r in rws if r.get("run") != run]
        cur = os.path.join(chk.wd, "rest_%d_%s" % (rounds, os.path.basename(tf)))
        write_ndjson(cur, rest)
    for r in rows[1:4]:
        if r.get("op") != "new":
            chk.sample(dict(label=label, **{k: r[k] for k in r if k != "hid"}), cap=8)
            break
    log("[%s] %s: %d events in %d runs, %d run(s) rejected (%.1fs TLC)" % (chk.pid, label, len(rows) - 1 - total_runs,
                                                                           total_runs, rejected, wall))
    return rejected


def replay_join(chk, schedfile, kinds, label, stride=1, ms=None, seed=None, prop_tags=None):
    tf = os.path.join(chk.wd, "trace_%s.ndjson" % label)
    args = ["replay", "in=" + schedfile, "out=" + tf, "kinds=" + ",".join(kinds),
            "seed=%d" % (chk.seed if seed is None else seed), "stride=%d" % stride]
    if ms:
        args.append("ms=" + ",".join(str(m) for m in ms))
    harness("sk", args, timeout=1200)
    return validate_join(chk, tf, label, prop_tags=prop_tags)


def random_join(chk, kinds, label, runs, length, nitems, ms, seed=None, merge=False, reinit=False, prop_tags=None):
    tf = os.path.join(chk.wd, "trace_%s.ndjson" % label)
    args = ["random", "out=" + tf, "kinds=" + ",".join(kinds), "seed=%d" % (chk.seed if seed is None else seed),
            "runs=%d" % runs, "len=%d" % length, "nitems=%d" % nitems, "ms=" + ",".join(str(m) for m in ms),
            "merge=%d" % (1 if merge else 0), "reinit=%d" % (1 if reinit else 0)]
    harness("sk", args, timeout=1200)
    return validate_join(chk, tf, label, prop_tags=prop_tags)


def big_join(chk, kinds_prefix, label="realistic-sizes"):
    """m up to 4096, streams up to 1e5 (1e6 thorough) with repeats/chunking/merge: the Layer-A function evaluated
    harness-side (too large for TLC); only the cases of the given sketcher families are judged"""
    of = os.path.join(chk.wd, "big_%s.json" % label)
    harness("sk", ["big", "out=" + of, "seed=%d" % chk.seed, "thorough=%d" % (0 if chk.tier == "quick" else 1)], timeout=3000)
    cases = [c for c in json.load(open(of))["cases"] if c["kind"].startswith(tuple(kinds_prefix))]
    for c in cases:
        chk.add("evaluations", c["n"])
        if c["panic"]:
            chk.violation(dict(kind=c["kind"], op="panic", where=label), dict(kind="join-big", case=c, seed=chk.seed))
        elif c["bad_positions"]:
            chk.violation(dict(kind=c["kind"], op="big", where=label), dict(kind="join-big", case=c, seed=chk.seed))
    chk.cov["realistic_size_cases"] = [dict(kind=c["kind"], m=c["m"], n=c["n"]) for c in cases]
    log("[%s] %s: %d cases up to m=%d, n=%d, %d bad" % (chk.pid, label, len(cases), max(c["m"] for c in cases),
                                                        max(c["n"] for c in cases), sum(1 for c in cases if c["bad_positions"] or c["panic"])))


def replay_one(chk, path, pid):
    sc = json.load(open(path))["scenario"]
    if sc.get("kind") == "join-big":
        log("scenario: %s" % json.dumps(sc))
        log("re-run the check with VERIF_SEED=%s to reproduce on the current tree" % sc.get("seed"))
        return 1
    if sc.get("kind") != "join-trace":
        return None
    tf = os.path.join(chk.wd, "one.ndjson")
    write_ndjson(tf, [dict(kind="join"), sc["header"]] + sc["events"])
    v = validate_trace("TraceJoin", tf, chk.wd)
    log("recorded run re-validated by TLC: accepted=%s (first unmatched event index %d)" % (v["accepted"], v["matched"]))
    log("to re-record from the current tree run the check again with the same VERIF_SEED")
    if not v["accepted"]:
        log("VIOLATION property=%s replay=%s" % (pid, path))
    return 0 if v["accepted"] else 1
