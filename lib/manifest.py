#!/usr/bin/env python3
"""regenerates /verif/MANIFEST.json from the table below (run after adding a check)"""
import json
import os
import subprocess

ROOT = os.path.dirname(os.path.dirname(os.path.abspath(__file__)))
ALL = ["C%02d" % i for i in range(1, 21)]

import importlib
import sys
sys.path.insert(0, os.path.join(ROOT, "lib"))

# checks reviewed and accepted by the maintainer of /verif (others are still under construction)
APPROVED = ["C%02d" % i for i in range(1, 21)]

CHECKS = {}
for _pid in APPROVED:
    if os.path.exists(os.path.join(ROOT, "lib", _pid.lower() + ".py")):
        try:
            _m = importlib.import_module(_pid.lower())
        except Exception as _e:  # a module under construction must not break the manifest
            print("skipping %s: %s" % (_pid, _e))
            continue
        if getattr(_m, "MANIFEST", None) and getattr(_m, "READY", True):
            CHECKS[_pid] = _m.MANIFEST

NOT_YET = "check not built yet (work in progress; see DESIGN.md for the planned TLA+ model and binding)"
NA = {}


def main():
    hooks = subprocess.run(["git", "-C", "/repo", "log", "--format=%H %s", "--grep=^verif hook"],
                           capture_output=True, text=True).stdout.strip().splitlines()
    man = dict(
        version=1,
        setup_cmd="cd /verif/harness && cp -n /repo/Cargo.lock Cargo.lock; cargo build --release --offline --bins",
        hooks=dict(
            guard="--cfg probminhash_verif (rustc cfg flag, set in /verif/harness/.cargo/config.toml)",
            enable="cd /verif/harness && cargo build --release --offline   # rustflags = [\"--cfg\", \"probminhash_verif\"] come from harness/.cargo/config.toml; the harness depends on /repo by path",
            baseline_off_cmd="cd /repo && cargo test --workspace --no-fail-fast --offline",
            source_commits=[h.split()[0] for h in hooks],
            add_only=True,
        ),
        engines=[
            dict(name="tlc", path="/opt/veriftools/tla/tla2tools.jar", serves_properties=sorted(CHECKS),
                 kind_free_text="TLA+ model checker: design-level refinement checks, behaviour generation, trace validation"),
            dict(name="pmh-verif", path="/verif/harness", serves_properties=sorted(CHECKS),
                 kind_free_text="Rust conformance harness (path dependency on /repo, hooks enabled): replays TLC behaviours into the real code and records traces"),
            dict(name="xapi", path="/verif/lib/xapi.py", serves_properties=[],
                 kind_free_text="extra engine outside the listed properties (./check XAPI): TLA+ specification of the public API protocol (phases, ok/err/panic outcomes) "
                                "checked with TLC and bound by trace validation of recorded call histories; reports DRIFT lines only, never a VIOLATION"),
        ],
        checks=[],
        not_applicable=[],
        notes="driver: ./check <ID> [--tier quick|thorough] [--replay path] [--selftest]; ./check selftest runs the anti-vacuity self-tests of all checks (corrupted traces and deviation constants must be rejected); specs in spec/, harness in harness/, "
              "known findings in known_findings.json; every check rebuilds the harness against /repo's working tree first.",
    )
    for pid in ALL:
        if pid in CHECKS:
            c = CHECKS[pid]
            man["checks"].append(dict(
                property_id=pid,
                quick_cmd="./check %s --tier quick" % pid,
                thorough_cmd="./check %s --tier thorough" % pid,
                evidence_file="/verif/evidence/%s.json" % pid,
                replay_cmd_template="./check %s --replay {path}" % pid,
                engine="tlc + pmh-verif",
                level_claimed=dict(category=c["category"], text=c["text"], design_ref=c["design_ref"]),
                level_note=c["note"],
                technique=c["technique"],
            ))
        else:
            man["not_applicable"].append(dict(property_id=pid, reason=NA.get(pid, NOT_YET)))
    with open(os.path.join(ROOT, "MANIFEST.json"), "w") as f:
        json.dump(man, f, indent=1)
    print("MANIFEST.json: %d checks, %d not applicable" % (len(man["checks"]), len(man["not_applicable"])))


if __name__ == "__main__":
    main()
