"""C14 - similarity estimators are total, symmetric and exact on their inputs"""
import json
import os
from common import *

LEVEL = "model_checking"
MANIFEST = dict(
        category="model_checking",
        text="Estimators.tla specifies the contract of the 8 counting entry points (length guard + counting loop, refined "
             "against 'number of agreeing positions / length'); TLC checks symmetry, 1 on identical sketches, range, "
             "refusal iff the lengths differ and 'refusing is not computing on the prefix' over ALL pairs of sequences "
             "over 3 symbols of lengths 1..4 (quick) / 1..5 (thorough), exports every pair, and every pair is replayed "
             "into all entry points for every element type they accept (free functions: u8,u16,u32,u64,i32,usize,f32,f64,"
             "String, two value maps; methods: real SuperMinHash<f32|f64> / SuperMinHash2<u32|u64> sketches realising the "
             "pair's equality pattern); long constructed sketches (len <= 10^4) and real-vs-real sketches are recorded too; "
             "TLC (TraceEstimators.tla) validates every recorded call: the unique c with ret == c/len in the function's "
             "float type must equal the specified count, a length mismatch must be an error or a panic. "
             "MleProtocol (same module) models MleJaccard::get_mle over TLC-enumerated SetSketch cell tables; the real "
             "get_mle is run on real SetSketch sketches for a TLC-enumerated grid of set shapes x parameter tuples and "
             "TLC validates 'a value, finite, in [0,1]'.",
        design_ref="DESIGN.md section 4, C14",
        note="trusted: TLC, the float-to-count decoding of the harness (bit-exact c/len search), the rank abstraction of "
             "real sketch values (an isomorphism for ==); NaN sketch values are out of scope (NaN != NaN; real sketches "
             "never contain NaN); length 0 is out of scope (property: lengths >= 1); the MLE part is contract checking on "
             "sampled real sketches, exhaustive only in the abstract model. Known finding on the unchanged tree: get_mle "
             "aborts when the raw collision fraction exceeds min(c1/c2, c2/c1).",
        technique="TLA+ spec + TLC exhaustive enumeration of sketch pairs, replay of every pair into the Rust entry points, "
                  "TLC trace validation of recorded calls; abstract protocol model of get_mle with a deviation constant",
    )

INVC = ["InvExact", "InvRefine", "InvSymmetric", "InvIdentical", "InvRange", "InvRefusal", "InvNotPrefix", "InvTotal"]
INVM = ["InvCards", "InvBracket", "InvSolverPre", "InvMleOutcome"]
# the last tuple has a fine base: with sets of a thousand items the top registers saturate at q + 1 = 65535 (u16 maximum)
PARAMS = [[1.001, 256, 20.0, 65534], [1.2, 64, 20.0, 62], [2.0, 128, 20.0, 62], "default", [1.0002, 256, 20.0, 65534]]


def consts(**over):
    c = dict(Sym="{0,1,2}", MaxLen=4, OnPrefix=False, Items="{x,y,z}", M=2, K=2, ClampStart=True,
             Sizes="{0,1,20,2000}", Emit=False)
    c.update(over)
    return c


def nseqs(nsym, maxlen):
    return sum(nsym ** k for k in range(1, maxlen + 1))


# ----------------------------------------------------------------------------------------------
# model checking

def model_count(chk, maxlen):
    """all pairs of sequences over 3 symbols, lengths 1..maxlen: theorems + export"""
    cfg = write_cfg(os.path.join(chk.wd, "count_%d.cfg" % maxlen), constants=consts(MaxLen=maxlen, Emit=True),
                    spec="SpecCount", invariants=INVC + ["EmitPair"])
    res = tlc_check("Estimators", cfg, chk.wd, workers=1, timeout=1500, xss=True, coverage=True, xmx="6g")
    if "CallCount" in res.coverage_zero_actions():
        raise ToolError("Estimators: action CallCount never taken")
    chk.tlc_stats(res)
    pairs = res.printed_json("PAIR")
    want = nseqs(3, maxlen) ** 2
    if len(pairs) != want or res.distinct != 2 * want:
        raise ToolError("Estimators: %d pairs exported, %d expected (%d states)" % (len(pairs), want, res.distinct))
    log("[C14] Estimators/SpecCount MaxLen=%d: %d states, %d pairs exported, %d invariants hold (%.1fs)" % (
        maxlen, res.distinct, len(pairs), len(INVC), res.wall))
    return pairs


def model_mle(chk, sizes, models):
    """MleProtocol: holds with ClampStart (repaired code), refuted without (today's code); exports the shape grid"""
    shapes = None
    for (m, k) in models:
        cfg = write_cfg(os.path.join(chk.wd, "mle_%d_%d.cfg" % (m, k)),
                        constants=consts(M=m, K=k, ClampStart=True, Sizes=sizes, Emit=True), spec="SpecMle", invariants=INVM)
        res = tlc_check("Estimators", cfg, chk.wd, timeout=1500, xss=True, coverage=True)
        zero = [a for a in res.coverage_zero_actions() if a in ("Cards", "Bracket", "Start", "Solve")]
        if zero:
            raise ToolError("Estimators/SpecMle: action never taken: %s" % zero)
        chk.tlc_stats(res)
        sh = res.printed_json("SHAPES")
        if not sh:
            raise ToolError("Estimators/SpecMle: shape grid not exported")
        shapes = sh[0]
        cfg2 = write_cfg(os.path.join(chk.wd, "mle_%d_%d_unclamped.cfg" % (m, k)),
                         constants=consts(M=m, K=k, ClampStart=False, Sizes=sizes), spec="SpecMle", invariants=INVM)
        res2 = tlc_check("Estimators", cfg2, chk.wd, timeout=1500, xss=True, expect_violation="InvSolverPre")
        log("[C14] Estimators/SpecMle M=%d K=%d: ClampStart=TRUE %d states, invariants hold (%.1fs); ClampStart=FALSE "
            "(today's code): InvSolverPre refuted (%.1fs)" % (m, k, res.distinct, res.wall, res2.wall))
    nsz = len(sizes.strip("{}").split(","))
    if len(shapes) != nsz ** 3 - 1:
        raise ToolError("shape grid has %d entries, expected %d" % (len(shapes), nsz ** 3 - 1))
    return sorted(shapes, key=lambda s: (s["u"], s["v"], s["w"]))


# ----------------------------------------------------------------------------------------------
# traces

def validate(chk, tf):
    v = validate_trace("TraceEstimators", tf, chk.wd, constants=dict(ClampStart=False), invariants=["InvReport"],
                       timeout=1500, xmx="6g")
    if not v["accepted"]:
        raise ToolError("trace %s is not well formed: line %d of %d not consumed (harness/driver bug)\n%s" % (
            tf, v["matched"] + 1, v["total"], v["out"][-1500:]))
    if len(v["info"]) < 1:
        raise ToolError("trace validation of %s printed no report" % tf)
    info = v["info"][-1]
    if info["lines"] != v["total"]:
        raise ToolError("trace report of %s covers %d of %d lines" % (tf, info["lines"], v["total"]))
    chk.add("trace_validation_states", v["distinct"])
    return v, sorted(set(info["rejected"])), sorted(set(info["drift"]))


def neps(res):
    return sum(hi - lo + 1 for r in res for (lo, hi) in r["eps"])


def ep_names(header, res_group):
    names = []
    for (lo, hi) in res_group["eps"]:
        names += header["eps"][lo - 1:hi]
    return names


def diagnose_count(header, row):
    """which entry points disagree (diagnostic and tags only; the verdict was TLC's)"""
    bad = []
    calls = row["calls"] if row["op"] == "count" else None
    if calls is None:
        n, nb = row["n"], row["nb"]
        k = len(set(row["pos"]))
        exp = None if n != nb else (n - k if row["mode"] == "diff" else k)
        calls = [dict(grp="long", res=row["res"], exp=exp)]
    else:
        for c in calls:
            c["exp"] = None if len(c["a"]) != len(c["b"]) else sum(1 for x, y in zip(c["a"], c["b"]) if x == y)
    for c in calls:
        for g in c["res"]:
            ok = (g["out"] == "value" and g["c"] == c["exp"]) if c["exp"] is not None else g["out"] in ("refused", "panic")
            if not ok:
                bad.append(dict(entry_points=ep_names(header, g), outcome=g["out"], c=g["c"], ret=g.get("ret"),
                                expected=("value %d" % c["exp"]) if c["exp"] is not None else "refused or panic",
                                a=c.get("a"), b=c.get("b")))
    return bad


def count_part(chk, pairs, nlong, nreal, seed, tag, maxlen=10000, report=True):
    pf = os.path.join(chk.wd, "pairs_%s.ndjson" % tag)
    write_ndjson(pf, [dict(a=p["a"], b=p["b"]) for p in pairs])
    tf = os.path.join(chk.wd, "count_%s.ndjson" % tag)
    args = ["count", "in=" + pf, "out=" + tf, "seed=%d" % seed, "long=%d" % nlong, "real=%d" % nreal, "maxlen=%d" % maxlen]
    harness("c14", args, timeout=1500)
    v, rej, _ = validate(chk, tf)
    rows = read_ndjson(tf)
    header = rows[0]
    # binding spec -> impl is complete: every exported pair was replayed, in order
    got = [(tuple(r["calls"][0]["a"]), tuple(r["calls"][0]["b"])) for r in rows if r.get("mode") == "pair"]
    if got != [(tuple(p["a"]), tuple(p["b"])) for p in pairs]:
        raise ToolError("the harness did not replay exactly the exported pairs")
    if rows[-1].get("skipped"):
        chk.notes.append("%d method calls skipped: the sketcher could not be constructed for that length" % rows[-1]["skipped"])
    ncalls = 0
    nontriv = 0
    for r in rows[1:-1]:
        if r["op"] == "count":
            ncalls += sum(neps(c["res"]) for c in r["calls"])
            c0 = r["calls"][0]
            if r["mode"] == "pair":
                la, lb = len(c0["a"]), len(c0["b"])
                agree = sum(1 for x, y in zip(c0["a"], c0["b"]) if x == y)
                if la != lb or 0 < agree < la:
                    nontriv += 1
            else:
                nontriv += 1
        elif r["op"] == "long":
            ncalls += neps(r["res"])
            nontriv += 1
    chk.add("evaluations", ncalls)
    chk.add("counting_calls", ncalls)
    chk.add("distinct_nontrivial", nontriv)
    chk.add("traces_validated_against_impl", 1)
    chk.add("trace_events", len(rows) - 2)
    for ln in rej:
        row = rows[ln - 1]
        bad = diagnose_count(header, row)
        first = bad[0] if bad else dict(entry_points=["?"], outcome="?")
        ep = first["entry_points"][0].split("<")[0]
        scen = dict(kind="count", event_op=row["op"], mode=("long" if row["op"] == "long" else row["mode"]), seed=seed, nlong=nlong, nreal=nreal,
                    maxlen=maxlen, line=ln, disagreeing=bad[:6],
                    pair=dict(a=row["calls"][0]["a"], b=row["calls"][0]["b"]) if row.get("mode") == "pair" else None,
                    event=(row if len(json.dumps(row)) < 20000 else dict(op=row["op"], n=row.get("n"), nb=row.get("nb"))))
        if report:
            chk.violation(dict(kind="count", mode=scen["mode"], entry=ep, outcome=first["outcome"]), scen)
    if pairs and tag in ("p0", "st"):
        mid = rows[1 + (len(pairs) * 2) // 3]
        chk.sample(dict(kind="pair-event", a=mid["calls"][0]["a"], b=mid["calls"][0]["b"],
                        outcomes=[dict(out=g["out"], c=g["c"], entry_points=neps([g])) for g in mid["calls"][0]["res"]],
                        method_calls=[dict(a=c["a"], b=c["b"], out=c["res"][0]["out"], c=c["res"][0]["c"]) for c in mid["calls"][1:]]))
    lg = [r for r in rows if r["op"] == "long"]
    if lg:
        r = lg[min(3, len(lg) - 1)]
        chk.sample(dict(kind="long-event", n=r["n"], nb=r["nb"], mode=r["mode"], positions=len(r["pos"]),
                        outcomes=[dict(out=g["out"], c=g["c"], entry_points=neps([g])) for g in r["res"]]))
    log("[C14] counting %s: %d pairs + %d long + %d real events, %d entry-point calls, TLC rejected %d events (%.1fs)" % (
        tag, len(pairs), nlong, nreal, ncalls, len(rej), v["wall"]))
    return tf, rows, rej


def mle_jobs(shapes, params, types, reps):
    jobs = []
    for s in shapes:
        for p in params:
            for ty in types:
                for rep in range(reps):
                    jobs.append({"shape": [s["u"], s["v"], s["w"]], "class": s["class"], "params": p, "ty": ty, "rep": rep})
    return jobs


def mle_part(chk, jobs, seed, tag, report=True):
    jf = os.path.join(chk.wd, "jobs_%s.ndjson" % tag)
    write_ndjson(jf, jobs)
    tf = os.path.join(chk.wd, "mle_%s.ndjson" % tag)
    harness("c14", ["mle", "in=" + jf, "out=" + tf, "seed=%d" % seed], timeout=3000)
    v, rej, drift = validate(chk, tf)
    rows = read_ndjson(tf)
    ev = [r for r in rows if r["op"] == "mle"]
    if len(ev) != len(jobs):
        raise ToolError("mle: %d jobs, %d events" % (len(jobs), len(ev)))
    chk.add("evaluations", len(ev))
    chk.add("mle_calls", len(ev))
    chk.add("distinct_nontrivial", len(set((tuple(r["shape"]), r["params"], r["ty"]) for r in ev if r["class"] != "empty_side")))
    chk.add("traces_validated_against_impl", 1)
    chk.add("trace_events", len(ev))
    chk.add("mle_protocol_drift_vs_unclamped_model", len(drift))
    by = {}
    for r in ev:
        k = "%s:%s" % (r["class"], r["out"] if r["cause"] == "-" else r["out"] + "/" + r["cause"])
        by[k] = by.get(k, 0) + 1
    tot = chk.cov.setdefault("mle_outcomes_by_class", {})
    for k, n in by.items():
        tot[k] = tot.get(k, 0) + n
    for ln in rej:
        r = rows[ln - 1]
        scen = dict(kind="mle", seed=seed, job=r["jobspec"], observed={k: r[k] for k in (
            "out", "j", "c1", "c2", "deq", "m", "b_sup", "in_bracket", "at_edge", "cause", "msg", "zeros", "params")})
        if report:
            chk.violation(dict(kind="mle", outcome=r["out"], cause=r["cause"], cls=r["class"]), scen)
    good = [r for r in ev if r["cause"] == "-" and r["class"] == "nested"]
    if good:
        r = good[len(good) // 2]
        chk.sample({k: r[k] for k in ("op", "params", "ty", "shape", "class", "out", "j", "c1", "c2", "deq", "b_sup")})
    badr = [r for r in ev if r["cause"] != "-"]
    if badr:
        r = badr[0]
        chk.sample({k: r[k] for k in ("op", "params", "ty", "shape", "class", "out", "cause", "c1", "c2", "deq", "b_sup", "msg")})
    log("[C14] mle %s: %d calls on real sketches, TLC rejected %d (outcomes %s), protocol drift %d (%.1fs)" % (
        tag, len(ev), len(rej), json.dumps(by, sort_keys=True), len(drift), v["wall"]))
    return tf, rows, rej


# ----------------------------------------------------------------------------------------------

def run(chk):
    build_harness("c14")
    quick = chk.tier == "quick"
    chk.cov["rule"] = ("evaluations = entry-point calls (counting) + get_mle calls; non-trivial counting event = a TLC "
                       "pair with unequal lengths or with 0 < count < len, every long constructed sketch and every "
                       "real-vs-real event; non-trivial MLE = distinct (shape, parameters, register type) with both sets "
                       "non-empty")
    chk.assumptions += ["sketch values are compared with the element type's own ==; NaN values are excluded (NaN != NaN, "
                        "real sketches never contain NaN)",
                        "outcome `value c` means ret == c/len bit-exactly in the function's own float type (f64; f32 for "
                        "the superminhasher2 free functions; F for the superminhasher free functions)",
                        "a length mismatch may be reported as Err or as a panic (both accepted)",
                        "MLE: sketches are built by streaming real items through SetSketcher<u16|u32, u64, FnvHasher>; "
                        "get_mle recomputes the cardinal estimates with a rayon sum whose order is not fixed, so outcomes at "
                        "the edge of the bracket (identical sketches) vary from run to run; the verdict does not"]
    maxlen = 4 if quick else 5
    pairs = model_count(chk, maxlen)
    sizes = "{0,1,20,2000}" if quick else "{0,1,20,2000,50000}"
    shapes = model_mle(chk, sizes, [(2, 2)] if quick else [(2, 2), (3, 1)])
    chunk = 20000
    nl, nr = (40, 27) if quick else (300, 180)
    for i in range(0, len(pairs), chunk):
        first = i == 0
        count_part(chk, pairs[i:i + chunk], nl if first else 0, nr if first else 0, chk.seed, "p%d" % (i // chunk))
    if quick:
        jobs = mle_jobs(shapes, PARAMS, ["u16"], 2) + mle_jobs(shapes, PARAMS[:2], ["u32"], 1)
    else:
        jobs = mle_jobs(shapes, PARAMS, ["u16", "u32"], 4)
    mle_part(chk, jobs, chk.seed, "grid")
    huge_part(chk)
    alias_part(chk)
    chk.cov["exhaustive"] = True
    chk.cov["explanation"] = ("counting estimators: exhaustive over all pairs of sequences over 3 symbols with lengths "
                              "1..%d (including unequal lengths), each replayed into all 8 entry points and all element "
                              "types; longer sketches and the MLE grid are sampled" % maxlen)
    chk.cov["pairs"] = len(pairs)
    chk.cov["mle_shapes"] = len(shapes)


def huge_part(chk, report=True):
    """float-typed free estimators on sketches of 2^24 + 4097 positions: identical -> exactly 1, five positions differ ->
    exactly (n - 5) / n (a count kept in single precision stops at 2^24)"""
    out = os.path.join(chk.wd, "huge.json")
    harness("c14", ["huge", "out=" + out], timeout=1500)
    cases = json.load(open(out))["cases"]
    bad = [c for c in cases if c["outcome"] != "exact"]
    chk.add("evaluations", len(cases))
    if report:
        for c in bad:
            chk.violation(dict(kind="huge", fn=c["fn"], outcome=c["outcome"], differing=c["differing"]), dict(kind="huge", case=c))
    log("[C14] sketches of %d positions: %d calls of the float-typed free estimators, %d not exact" % (cases[0]["len"], len(cases), len(bad)))
    return bad


def alias_part(chk, report=True):
    """both arguments taken from one buffer: the whole twice -> exactly 1; the whole against a proper prefix -> reported"""
    out = os.path.join(chk.wd, "alias.json")
    harness("c14", ["alias", "out=" + out], timeout=600)
    cases = json.load(open(out))["cases"]
    bad = [c for c in cases if not c["ok"]]
    chk.add("evaluations", 2 * len(cases))
    if report:
        for c in bad:
            chk.violation(dict(kind="alias", fn=c["fn"]), dict(kind="alias", case=c))
    log("[C14] both arguments from one buffer: %d estimators, %d wrong" % (len(cases), len(bad)))
    return bad


def replay(chk, path):
    sc = json.load(open(path))["scenario"]
    build_harness("c14")
    if sc["kind"] == "alias":
        bad = [c for c in alias_part(chk, report=False) if c["fn"] == sc["case"]["fn"]]
        for c in bad:
            log(json.dumps(c))
        if bad:
            log("VIOLATION property=C14 replay=%s" % path)
        return 1 if bad else 0
    if sc["kind"] == "huge":
        bad = [c for c in huge_part(chk, report=False) if c["fn"] == sc["case"]["fn"] and c["differing"] == sc["case"]["differing"]]
        for c in bad:
            log(json.dumps(c))
        if bad:
            log("VIOLATION property=C14 replay=%s" % path)
        return 1 if bad else 0
    if sc["kind"] == "count":
        if sc.get("pair"):
            tf, rows, rej = count_part(chk, [sc["pair"]], 0, 0, sc["seed"], "replay", report=False)
        else:
            tf, rows, rej = count_part(chk, [], sc["nlong"], sc["nreal"], sc["seed"], "replay", sc.get("maxlen", 10000), report=False)
        for ln in rej:
            for b in diagnose_count(rows[0], rows[ln - 1])[:4]:
                log(json.dumps(b)[:600])
    else:
        tf, rows, rej = mle_part(chk, [sc["job"]], sc["seed"], "replay", report=False)
        for ln in rej:
            r = rows[ln - 1]
            log(json.dumps({k: r[k] for k in ("params", "ty", "shape", "out", "cause", "j", "c1", "c2", "deq", "b_sup", "msg")}))
    log("replayed: %d event(s) rejected by the specification" % len(rej))
    if rej:
        log("VIOLATION property=C14 replay=%s" % path)
    return 1 if rej else 0


def selftest(chk):
    """anti-vacuity: spec mutants refuted by TLC, corrupted traces rejected at the corrupted line"""
    build_harness("c14")
    ok = True
    # 1. deviation constants
    for inv in ("InvRefusal", "InvNotPrefix", "InvRefine"):
        cfg = write_cfg(os.path.join(chk.wd, "st_prefix_%s.cfg" % inv), constants=consts(MaxLen=3, OnPrefix=True),
                        spec="SpecCount", invariants=[inv])
        tlc_check("Estimators", cfg, chk.wd, workers=1, xss=True, expect_violation=inv)
    log("[C14 selftest] OnPrefix=TRUE: TLC refutes InvRefusal, InvNotPrefix, InvRefine")
    for inv in ("InvSolverPre", "InvMleOutcome"):
        cfg = write_cfg(os.path.join(chk.wd, "st_clamp_%s.cfg" % inv), constants=consts(K=1, ClampStart=False),
                        spec="SpecMle", invariants=[inv])
        tlc_check("Estimators", cfg, chk.wd, workers=1, xss=True, expect_violation=inv)
    log("[C14 selftest] ClampStart=FALSE: TLC refutes InvSolverPre, InvMleOutcome")
    # 2. corrupted counting traces
    pairs = model_count(chk, 3)
    tf, rows, rej = count_part(chk, pairs, 6, 4, chk.seed, "st")
    if rej:
        log("[C14 selftest] the recorded trace is already rejected (%d events); corruption tests are run on top of it" % len(rej))
    base_rej = set(rej)

    def check(name, mutated, want_line):
        f = os.path.join(chk.wd, "st_%s.ndjson" % name)
        write_ndjson(f, mutated)
        _, r2, _ = validate(chk, f)
        hit = (set(r2) - base_rej) == {want_line}
        log("[C14 selftest] %s: rejected lines %s, expected %d: %s" % (name, sorted(set(r2) - base_rej), want_line, hit))
        return hit

    # (a) count off by one in an equal-length pair
    idx = [i for i, r in enumerate(rows) if r.get("mode") == "pair" and len(r["calls"][0]["a"]) == len(r["calls"][0]["b"]) == 3
           and r["calls"][0]["res"][0]["out"] == "value" and r["calls"][0]["res"][0]["c"] == 1][7]
    bad = json.loads(json.dumps(rows))
    bad[idx]["calls"][0]["res"][0]["c"] += 1
    ok &= check("count_off_by_one", bad, idx + 1)
    # (b) a method call off by one
    bad = json.loads(json.dumps(rows))
    bad[idx]["calls"][2]["res"][0]["c"] -= 1
    ok &= check("method_off_by_one", bad, idx + 1)
    # (c) a reported mismatch turned into the value computed on the prefix
    idx2 = [i for i, r in enumerate(rows) if r.get("mode") == "pair" and len(r["calls"][0]["a"]) == 2 and len(r["calls"][0]["b"]) == 3][5]
    bad = json.loads(json.dumps(rows))
    c0 = bad[idx2]["calls"][0]
    pre = sum(1 for x, y in zip(c0["a"], c0["b"]) if x == y)
    for g in c0["res"]:
        g["out"] = "value"
        g["c"] = pre
    ok &= check("refused_to_prefix_value", bad, idx2 + 1)
    # (d) one entry point dropped from an event
    bad = json.loads(json.dumps(rows))
    g = bad[idx]["calls"][0]["res"][0]
    g["eps"][-1][1] -= 1
    ok &= check("entry_point_dropped", bad, idx + 1)
    # (e) long sketch: count off by one
    idx3 = [i for i, r in enumerate(rows) if r["op"] == "long" and r["n"] == r["nb"]][1]
    bad = json.loads(json.dumps(rows))
    bad[idx3]["res"][0]["c"] += 1
    ok &= check("long_off_by_one", bad, idx3 + 1)
    # (f) a removed event: the end marker no longer matches, the trace is not consumed
    f = os.path.join(chk.wd, "st_removed.ndjson")
    write_ndjson(f, rows[:idx] + rows[idx + 1:])
    v = validate_trace("TraceEstimators", f, chk.wd, constants=dict(ClampStart=False), invariants=["InvReport"])
    log("[C14 selftest] removed event: trace accepted=%s (expected False)" % v["accepted"])
    ok &= not v["accepted"]
    # 3. MLE trace: out-of-range value, panic, none
    shapes = [dict(u=0, v=0, w=20, **{"class": "identical"}), dict(u=20, v=20, w=0, **{"class": "disjoint"}),
              dict(u=20, v=20, w=20, **{"class": "overlap"})]
    tfm, mrows, mrej = mle_part(chk, mle_jobs(shapes, PARAMS[:1], ["u16"], 2), chk.seed, "st")
    base_rej = set(mrej)
    vi = [i for i, r in enumerate(mrows) if r["op"] == "mle" and r["out"] == "value" and (i + 1) not in base_rej]
    if len(vi) < 3:
        raise ToolError("selftest: not enough successful get_mle calls to corrupt")
    bad = json.loads(json.dumps(mrows))
    bad[vi[0]]["le1"] = False
    bad[vi[0]]["j_e9"] = 1000000001
    ok &= check("mle_value_above_one", bad, vi[0] + 1)
    bad = json.loads(json.dumps(mrows))
    bad[vi[1]]["out"] = "panic"
    ok &= check("mle_panic", bad, vi[1] + 1)
    bad = json.loads(json.dumps(mrows))
    bad[vi[2]]["out"] = "none"
    bad[vi[2]]["finite"] = False
    ok &= check("mle_none", bad, vi[2] + 1)
    log("[C14 selftest] %s" % ("passed" if ok else "FAILED"))
    return 0 if ok else 2
