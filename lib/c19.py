"""C19 - invertible integer hashes are bijections with the given inverses"""
import json
import os
import re
from common import *

LEVEL = "model_checking"
MANIFEST = dict(
        category="model_checking",
        text="InvHash.tla transcribes int64_hash/int64_hash_inverse/int32_hash/int32_hash_inverse statement by statement "
             "on bit-vector words (one TLC action per source statement, expressions as typed trees).  TLC checks that "
             "the inverse program is the forward program's statements undone in reverse order, pairs every forward "
             "statement with its inverse block, checks by construction (ClassOf) that each pair is GF(2)-linear "
             "(xor/shift) or affine over Z/2^W (add, sub, not, shl, multiply by constant) in (key,tmp), and runs "
             "s;t and t;s from the generators of the class (W unit vectors and 0, resp. 0 and 1, in key and in tmp): "
             "this decides inverse(hash(x)) = x and hash(inverse(x)) = x for all 2^64 / 2^32 words of the spec; TLC "
             "also runs the complete round trips on ~650 structured words.  Binding: all 2^32 words go through the "
             "real 32-bit functions in both directions (exhaustive on the code); for 64 bit, (x, hash(x), inverse(x)) "
             "of structured and random words are recorded from the real functions and validated by TLC against the "
             "spec programs (TraceInvHash.tla), plus 10^8 (quick) / 2*10^9 (thorough) random round trips in the harness."
         " Added after the seeded-change campaign: round trips on words whose intermediate value at every statement boundary of the pipelines is structured (a fast path or tie inside one inverse block fires on such values)."
             " Purity: pairs of words sharing a half word / one bit apart evaluated back to back, and call sequences across the two widths on the same word.",
        design_ref="DESIGN.md section 4, C19",
        note="32-bit half: exhaustive on the code.  64-bit half: universal for the spec; carried over to the code only "
             "through code = spec on the recorded words (1000 quick / 10000 thorough) - a deviation of the code on other "
             "words that also keeps every sampled round trip would go unnoticed.  If code and spec disagree while all "
             "round trips pass, the check does not fail but the evidence drops to level exploration (spec_mismatch).",
        technique="TLA+ bit-vector spec + TLC (finite-basis argument for linear/affine statement pairs), exhaustive 32-bit replay "
                  "of the Rust functions, TLC validation of recorded 64/32-bit input-output triples, random round trips",
    )

MUTANTS = [(64, "mul21_hi"), (64, "shr27"), (64, "drop14"), (64, "shl22"), (32, "drop30"), (32, "mul9_hi")]
NSTMT = {64: (7, 16), 32: (6, 6)}


def q(s):
    return '"%s"' % s


def spec_check(chk, w, mode, mut="none", expect=None, stats=True):
    """TLC on InvHash.tla; mode 'blocks' = finite-basis runs of every statement pair, 'roundtrip' = whole programs"""
    cfg = write_cfg(os.path.join(chk.wd, "IH_%d_%s_%s.cfg" % (w, mode, mut)),
                    constants=dict(W=w, Mode=q(mode), Mut=q(mut)), invariants=["RoundTrip"])
    res = tlc_check("InvHash", cfg, chk.wd, expect_violation=expect, workers=min(NCPU, 8), timeout=900, xss=True,
                    coverage=(expect is None))
    if expect is None:
        zero = [a for a in res.coverage_zero_actions() if re.match(r"[HI]%d_\d+$" % w, a)]
        if zero:
            raise ToolError("InvHash W=%d %s: statement actions never taken: %s" % (w, mode, zero))
        if mode == "blocks" and not any(t == "BLOCKSOK" for t, _ in res.printed):
            raise ToolError("InvHash W=%d: BlocksOK was not evaluated" % w)
        if stats:
            chk.tlc_stats(res)
        log("[C19] spec W=%d %-9s: %d distinct states, %d generated, RoundTrip holds (%.1fs)" % (
            w, mode, res.distinct, res.generated, res.wall))
    return res


def code_roundtrips(chk, name, args, w):
    of = os.path.join(chk.wd, name + ".json")
    harness("c19", args + ["out=" + of], timeout=1500)
    r = json.load(open(of))
    report_failures(chk, r, w, "c19 " + " ".join(args))
    return r


def report_failures(chk, r, w, cmd):
    for f in r["failures"]:
        chk.violation(dict(kind="roundtrip", w=w, dir=f["dir"], outcome="panic" if f.get("panic") else "differs"),
                      dict(kind="roundtrip", w=w, dir=f["dir"], x=f["x"], x_hex=f["x_hex"], mid=f["mid"],
                           back=f["back"], panic=f.get("panic"), found_by=cmd,
                           **({"called_just_before": f["called_just_before"]} if f.get("called_just_before") else {})))
    nf = r["fail_hash_then_inverse"] + r["fail_inverse_then_hash"]
    chk.add("roundtrip_failures", nf)
    return nf


def validate(chk, w, tf):
    """TLC runs the spec programs on every recorded x; returns the list of (line, dir, row) that disagree"""
    rows = read_ndjson(tf)
    nrec = len(rows) - 1
    cfg = write_cfg(os.path.join(chk.wd, "TIH_%s.cfg" % os.path.basename(tf)),
                    constants=dict(W=w, Mode=q("trace"), Mut=q("none")), spec="TraceSpec", invariants=["Conform"])
    res = tlc("TraceInvHash", cfg, chk.wd, workers=NCPU, timeout=1500, env={"TRACE": os.path.abspath(tf)}, xss=True,
              ok_rc=None)
    if res.rc != 0 or not res.no_error:
        return dict(ok=False, res=res, mism=[], nrec=nrec, rows=rows)
    expect = nrec * (NSTMT[w][0] + 1 + NSTMT[w][1] + 1)
    if res.distinct != expect:
        raise ToolError("TraceInvHash: %d distinct states, %d expected for %d records" % (res.distinct, expect, nrec))
    mism = [(int(l), d) for l, d in re.findall(r'<<"MISMATCH", (\d+), "(\w+)">>', res.out)]
    return dict(ok=True, res=res, mism=sorted(set(mism)), nrec=nrec, rows=rows)


def code_vs_spec(chk, w, n, seed):
    tf = os.path.join(chk.wd, "io_%d.ndjson" % w)
    sf = os.path.join(chk.wd, "io_%d.json" % w)
    args = ["record", "w=%d" % w, "n=%d" % n, "seed=%d" % seed]
    harness("c19", args + ["out=" + tf, "sum=" + sf])
    s = json.load(open(sf))
    report_failures(chk, s, w, "c19 " + " ".join(args))
    for p in s["skipped_panics"][:20]:
        chk.notes.append("panic on %s: %s" % (p["x"], p["panic"]))
    v = validate(chk, w, tf)
    if not v["ok"]:
        raise ToolError("trace validation of %s failed without a verdict:\n%s" % (tf, v["res"].out[-3000:]))
    chk.tlc_stats(v["res"])
    chk.add("evaluations", v["nrec"])
    chk.add("traces_validated_against_impl", v["nrec"])
    chk.add("records_%d" % w, v["nrec"])
    chk.add("records_structured_%d" % w, min(s["structured"], v["nrec"]))
    chk.add("spec_mismatch", len(v["mism"]))
    chk.add("spec_mismatch_%d" % w, len(v["mism"]))
    for (line, d) in v["mism"][:5]:
        chk.cov.setdefault("spec_mismatch_samples", []).append(dict(w=w, fn=d, hex_x_h_ih=v["rows"][line - 1]["hex"]))
    rows = v["rows"]
    for i in (2, 1 + s["structured"] // 3, len(rows) - 1):
        if 0 < i < len(rows):
            hx = rows[i]["hex"]
            chk.sample(dict(kind="code-vs-spec", w=w, x=hx[0], hash=hx[1], inverse=hx[2]))
    distinct = len({r["hex"][0] for r in rows[1:] if r["hex"][1] != r["hex"][0]})
    chk.add("distinct_nontrivial", distinct)
    log("[C19] code vs spec W=%d: %d records (%d structured), %d TLC states, %d disagreements, round-trip failures %d (%.1fs)" % (
        w, v["nrec"], min(s["structured"], v["nrec"]), v["res"].distinct, len(v["mism"]),
        s["fail_hash_then_inverse"] + s["fail_inverse_then_hash"], v["res"].wall))
    return v, tf


def run(chk):
    build_harness("c19")
    quick = chk.tier == "quick"
    chk.cov["rule"] = (
        "spec: every (forward statement, inverse block) pair run in both orders from the generators of its class "
        "(0 and unit vectors for GF(2)-linear pairs, 0 and 1 for affine pairs, placed in key and in tmp) plus whole "
        "programs on structured words; code: all 2^32 words through the real 32-bit pair in both directions, random "
        "64-bit words in both directions, and recorded (x,hash,inverse) triples validated by TLC.  distinct_nontrivial = "
        "32-bit words with hash(x) != x (distinct by enumeration) + distinct TLC-validated words with hash(x) != x; "
        "the random 64-bit round trips are counted in evaluations only (distinctness not measured)")
    chk.assumptions += ["TLC evaluates the bit-vector operators of InvHash.tla correctly",
                        "finite-basis argument: a GF(2)-linear map of (key,tmp) is fixed by its values on unit vectors, an "
                        "affine map a*k+c*t+b over Z/2^W by its values at (0,0),(1,0),(0,1); class membership is checked by "
                        "ClassOf on the expression trees (ASSUME BlocksOK)",
                        "64 bit: the universal claim is about the spec; it is carried to the code by code = spec on the recorded words only"]
    # 1. the specification on its own (a failure here is a tool error, never a verdict about the code)
    gens = {}
    for w in (64, 32):
        r = spec_check(chk, w, "blocks")
        gens[w] = r.distinct
        spec_check(chk, w, "roundtrip")
    chk.cov["algebra_states"] = gens
    chk.sample(dict(kind="algebra", W=64, pairs=["h64_1 | i64_13..16 affine", "h64_2 | i64_11..12 linear", "h64_3 | i64_10 affine",
                                                  "h64_4 | i64_6..9 linear", "h64_5 | i64_5 affine", "h64_6 | i64_3..4 linear",
                                                  "h64_7 | i64_1..2 affine"]))
    # 2. 32 bit: exhaustive on the code
    r32 = code_roundtrips(chk, "exh32", ["exh32"], 32)
    if r32["n"] != 2 ** 32:
        raise ToolError("exh32 evaluated %d words" % r32["n"])
    chk.add("evaluations", r32["n"])
    chk.add("distinct_nontrivial", r32["nontrivial"])
    chk.cov["exhaustive_32bit_words"] = r32["n"]
    log("[C19] code W=32 exhaustive: %d words both directions, failures %d/%d" % (
        r32["n"], r32["fail_hash_then_inverse"], r32["fail_inverse_then_hash"]))
    # 3. 64 bit: random round trips on the code
    n64 = 10 ** 8 if quick else 2 * 10 ** 9
    r64 = code_roundtrips(chk, "rt64", ["rt64", "n=%d" % n64, "seed=%d" % chk.seed], 64)
    chk.add("evaluations", r64["n"])
    chk.cov["random_roundtrips_64"] = r64["n"]
    log("[C19] code W=64 random: %d words both directions, failures %d/%d" % (
        r64["n"], r64["fail_hash_then_inverse"], r64["fail_inverse_then_hash"]))
    # 3b. words whose intermediate value at a statement boundary is structured (both widths, both directions)
    for w in (64, 32):
        rb = code_roundtrips(chk, "boundary%d" % w, ["boundary", "w=%d" % w], w)
        chk.add("evaluations", rb["n"])
        chk.cov["boundary_structured_roundtrips_%d" % w] = rb["n"]
        log("[C19] code W=%d boundary-structured: %d words both directions, failures %d/%d" % (
            w, rb["n"], rb["fail_hash_then_inverse"], rb["fail_inverse_then_hash"]))
    # 3c. purity: pairs that share their low half / high half / all but one bit, evaluated back to back
    for w in (64, 32):
        rh = code_roundtrips(chk, "history%d" % w, ["history", "w=%d" % w, "n=%d" % (1000000 if quick else 10000000), "seed=%d" % chk.seed], w)
        chk.add("evaluations", rh["n"])
        chk.cov["back_to_back_pairs_%d" % w] = rh["n"]
        log("[C19] code W=%d back-to-back pairs: %d, failures %d/%d" % (w, rh["n"], rh["fail_hash_then_inverse"], rh["fail_inverse_then_hash"]))
    # 4. code = spec on recorded words (and the round trips on those words)
    code_vs_spec(chk, 64, 1000 if quick else 10000, chk.seed)
    code_vs_spec(chk, 32, 400 if quick else 3000, chk.seed)
    chk.cov["exhaustive"] = True
    ok_text = ("32 bit: exhaustive on the code (all 2^32 words, both directions).  64 bit: all 2^64 words of the "
               "specification by the finite-basis argument; code = spec on every recorded word, random round trips on the code")
    if chk.cov.get("spec_mismatch", 0) == 0:
        chk.cov["explanation"] = ok_text
    else:
        m64, m32 = chk.cov.get("spec_mismatch_64", 0), chk.cov.get("spec_mismatch_32", 0)
        why = ("round-trip failures are reported above" if chk.cov.get("roundtrip_failures") else
               "every round trip passed: a consistent change of both functions keeps the property")
        msg = "code and specification disagree on %d (64 bit) + %d (32 bit) recorded results (%s). " % (m64, m32, why)
        if m64:
            msg += ("InvHash.tla does not describe the 64-bit functions of this tree: the universal 64-bit claim is NOT carried "
                    "by the proof, 64 bit is covered by sampling only. ")
            chk.level = "exploration"
        if m32:
            msg += "The 32-bit model does not describe this tree; the 32-bit half rests on the exhaustive run of the code alone. "
        log("[C19] SPEC-MISMATCH (not a violation by itself): " + msg)
        chk.notes.append(msg)
        chk.cov["explanation"] = msg if m64 else ok_text + "  BUT: " + msg


def replay(chk, path):
    sc = json.load(open(path))["scenario"]
    build_harness("c19")
    pre = []
    if sc.get("called_just_before"):
        try:
            pre = ["before=%d" % int(sc["called_just_before"], 16)]
        except ValueError:
            log("the failure was seen right after a call of the other width (%s): re-run the check to see it again" % sc["called_just_before"])
    rc, out = harness("c19", ["one", "w=%d" % sc["w"], "x=%s" % sc["x"]] + pre)
    r = json.loads(out.strip().splitlines()[-1])
    nf = r["fail_hash_then_inverse"] + r["fail_inverse_then_hash"]
    log("x=%s hash(x)=%s inverse(x)=%s" % (r["x_hex"], r["hash"], r["inverse"]))
    for f in r["failures"]:
        log("  %s: x -> %s -> %s%s" % (f["dir"], f["mid"], f["back"], (" panic: " + f["panic"]) if f.get("panic") else ""))
    if nf:
        log("VIOLATION property=C19 replay=%s" % path)
    else:
        log("both round trips return x")
    return 1 if nf else 0


def selftest(chk):
    """anti-vacuity: planted errors in the spec must break RoundTrip / BlocksOK; corrupted records must be reported"""
    build_harness("c19")
    ok = True
    for (w, mut) in MUTANTS:
        res = spec_check(chk, w, "blocks", mut=mut, expect="RoundTrip")
        log("[C19 selftest] W=%d planted error %-9s: RoundTrip violated on the generators (%.1fs)" % (w, mut, res.wall))
    for (w, mut) in [(64, "drop14"), (32, "drop30")]:
        res = spec_check(chk, w, "roundtrip", mut=mut, expect="RoundTrip")
        log("[C19 selftest] W=%d planted error %-9s: RoundTrip violated on the whole programs (%.1fs)" % (w, mut, res.wall))
    # a statement outside the declared class must be refused by BlocksOK
    cfg = write_cfg(os.path.join(chk.wd, "IH_class.cfg"), constants=dict(W=64, Mode=q("blocks"), Mut=q("xor_in_affine")),
                    invariants=["RoundTrip"])
    res = tlc("InvHash", cfg, chk.wd, workers=2, timeout=600, xss=True, ok_rc=None)
    cls_ok = res.rc != 0 and "ssumption" in res.out and not res.no_error
    log("[C19 selftest] xor inside an affine pair refused by ASSUME BlocksOK: %s" % cls_ok)
    ok &= cls_ok
    # recorded triples: accepted as recorded, every corrupted field reported, a removed record refused
    tf = os.path.join(chk.wd, "st.ndjson")
    harness("c19", ["record", "w=64", "n=40", "seed=%d" % chk.seed, "out=" + tf, "sum=" + os.path.join(chk.wd, "st.json")])
    v = validate(chk, 64, tf)
    good = v["ok"] and not v["mism"]
    rows = v["rows"]
    bad = json.loads(json.dumps(rows))
    bad[5 - 1]["h"][63] ^= 1        # line 5: hash result, top bit
    bad[17 - 1]["ih"][0] ^= 1       # line 17: inverse result, low bit
    bad[30 - 1]["x"][40] ^= 1       # line 30: the input itself
    f2 = os.path.join(chk.wd, "st_corrupt.ndjson")
    write_ndjson(f2, bad)
    v2 = validate(chk, 64, f2)
    want = [(5, "h"), (17, "ih"), (30, "h"), (30, "ih")]
    corrupt_ok = v2["ok"] and v2["mism"] == want
    f3 = os.path.join(chk.wd, "st_removed.ndjson")
    write_ndjson(f3, rows[:20] + rows[21:])
    v3 = validate(chk, 64, f3)
    removed_ok = (not v3["ok"]) and "ssumption" in v3["res"].out
    log("[C19 selftest] recorded triples accepted: %s; corrupted fields reported %s (expected %s): %s; removed record refused: %s" % (
        good, v2["mism"], want, corrupt_ok, removed_ok))
    ok &= good and corrupt_ok and removed_ok
    return 0 if ok else 2
