"""XAPI - extra engine (not one of the listed properties): the public API protocol of the crate's stateful objects.

spec/Api.tla specifies, per object family, which calls are accepted in which phase, what they return (ok / err / panic,
length of the returned sketch) and which phase they lead to - including the error and panic paths, as the code behaves
today.  TLC checks the protocol invariants on it; harness/src/bin/xapi.rs records random call histories from the real
objects and spec/TraceApi.tla validates them.  A history the specification rejects is reported as a line
`DRIFT extra=XAPI ...` (never as a VIOLATION: no listed property speaks about these paths); exit code 0 unless a tool
fails (2).  Report: /verif/extra/xapi.json (the evidence directory is reserved for the listed properties)."""
import json
import os
from common import *

LEVEL = "exploration"
MANIFEST = dict(category="exploration", text="extra engine, see docstring", design_ref="DESIGN.md section 5",
                note="not a property check", technique="TLA+ spec + TLC, TLC trace validation of recorded API histories")
KINDS = ["dens", "smh", "ss", "pmh", "pmh3", "pmha", "ord", "fy"]
INVS = ["TypeOK", "GetIsFull", "GetOnlyWhenDense", "EmptyNotFinished", "ReinitIsFresh", "PhaseOfKind", "NeverStuck"]
PROPS = ["ErrKeepsState", "PanicKeepsState", "GettersPure"]
DEVS = [("get_when_partial", "GetOnlyWhenDense"), ("err_changes_state", "ErrKeepsState"),
        ("reinit_keeps", "ReinitIsFresh"), ("end_empty_ok", "EmptyNotFinished")]
EXTRA = os.path.join(ROOT, "extra")


def q(s):
    return '"%s"' % s


def kinds_set(ks):
    return "{" + ", ".join(q(k) for k in ks) + "}"


def model(chk, rep, maxm):
    cfg = write_cfg(os.path.join(chk.wd, "Api.cfg"), constants=dict(Kinds=kinds_set(KINDS), MaxM=maxm, Dev=q("none")),
                    spec="Spec", invariants=INVS, properties=PROPS)
    res = tlc_check("Api", cfg, chk.wd, workers=4, timeout=1500, coverage=True)
    zero = res.coverage_zero_actions()
    if zero:
        raise ToolError("Api: action never taken: %s" % zero)
    rep["model"] = dict(kinds=KINDS, max_m=maxm, distinct_states=res.distinct, generated=res.generated,
                        invariants=INVS, action_properties=PROPS)
    log("[XAPI] Api.tla (all kinds, sizes 1..%d): %d distinct states, %d generated; %d invariants and %d action properties hold (%.1fs)"
        % (maxm, res.distinct, res.generated, len(INVS), len(PROPS), res.wall))


def record(chk, runs, length, maxm, seed, name="api"):
    tf = os.path.join(chk.wd, "%s_%d.ndjson" % (name, seed))
    rc, out = harness("xapi", ["record", "out=" + tf, "seed=%d" % seed, "runs=%d" % runs, "len=%d" % length, "maxm=%d" % maxm],
                      ok=(0, 3))
    if rc == 3:
        # a call of the code under test did not return: drift (no listed property is decided here), nothing to validate
        msg = [x for x in out.splitlines() if x.startswith("XAPI-HANG")]
        log("DRIFT extra=XAPI a call did not return within the limit: %s" % (msg[0] if msg else "?"))
        return None
    return tf


def validate(chk, tf, maxm):
    return validate_trace("TraceApi", tf, chk.wd, constants=dict(Kinds=kinds_set(KINDS), MaxM=maxm + 1, Dev=q("none")),
                          invariants=["TypeOK", "GetIsFull", "GetOnlyWhenDense", "EmptyNotFinished", "ReinitIsFresh"])


def run(chk):
    build_harness("xapi")
    os.makedirs(EXTRA, exist_ok=True)
    rep = dict(engine="XAPI", tier=chk.tier, seed=chk.seed, drift=[])
    quick = chk.tier == "quick"
    model(chk, rep, 3 if quick else 5)
    runs, length, maxm = (15, 30, 6) if quick else (120, 60, 8)
    rest = record(chk, runs, length, maxm, chk.seed)
    if rest is None:
        rep["drift"].append(dict(hang=True))
        with open(os.path.join(EXTRA, "xapi.json"), "w") as f:
            json.dump(rep, f, indent=1, default=str)
        chk.finish = lambda: 0
        return
    rows = read_ndjson(rest)
    total_events = len(rows) - 1
    histories = sum(1 for r in rows if r.get("op") == "new")
    outcomes = {}
    for r in rows[1:]:
        key = "%s/%s/%s" % (r["k"] if r["op"] == "new" else "", r["op"], r["out"])
        outcomes[key] = outcomes.get(key, 0) + 1
    rejected = 0
    wall = 0.0
    cur = rest
    while True:
        v = validate(chk, cur, maxm)
        wall += v["wall"]
        if v["accepted"]:
            break
        rws = read_ndjson(cur)
        bad = rws[v["matched"]] if v["matched"] < len(rws) else None
        if bad is None:
            raise ToolError("TraceApi rejected a trace without an unmatched line")
        run_id = bad.get("run")
        hist = [r for r in rws if r.get("run") == run_id]
        new = next((r for r in hist if r.get("op") == "new"), {})
        rejected += 1
        d = dict(run=run_id, kind=new.get("k"), variant=new.get("variant"), m=new.get("m"), rejected_event=bad,
                 history=hist[:hist.index(bad) + 1] if bad in hist else hist)
        if len(rep["drift"]) < 20:
            rep["drift"].append(d)
        log("DRIFT extra=XAPI kind=%s variant=%s m=%s call=%s observed=%s/%s/%s (the API protocol specification has no such step)"
            % (new.get("k"), new.get("variant"), new.get("m"), bad.get("op"), bad.get("out"), bad.get("len"), bad.get("ph")))
        if rejected >= 50:
            break
        cur = os.path.join(chk.wd, "rest_%d.ndjson" % rejected)
        write_ndjson(cur, [r for r in rws if r.get("run") != run_id])
    rep["traces"] = dict(histories=histories, events=total_events, rejected_histories=rejected, outcomes=outcomes,
                         tlc_wall_s=round(wall, 1))
    with open(os.path.join(EXTRA, "xapi.json"), "w") as f:
        json.dump(rep, f, indent=1, default=str)
    log("[XAPI] %d call events in %d histories recorded from the real objects, %d history(ies) rejected by TraceApi (%.1fs TLC); report extra/xapi.json"
        % (total_events, histories, rejected, wall))
    chk.finish = lambda: 0


def replay(chk, path):
    raise ToolError("XAPI reports drift only; there are no replay files")


def selftest(chk):
    """anti-vacuity: every deviation constant is refuted by TLC; a corrupted outcome and a removed event are rejected"""
    build_harness("xapi")
    ok = True
    for dev, inv in DEVS:
        cfg = write_cfg(os.path.join(chk.wd, "Api_%s.cfg" % dev), constants=dict(Kinds=kinds_set(KINDS), MaxM=3, Dev=q(dev)),
                        spec="Spec", invariants=INVS, properties=PROPS)
        res = tlc_check("Api", cfg, chk.wd, workers=2, timeout=1500, expect_violation=inv)
        log("[XAPI selftest] deviation %-18s refuted through %s (%.1fs)" % (dev, inv, res.wall))
    tf = record(chk, 4, 25, 5, chk.seed, name="st")
    v = validate(chk, tf, 5)
    if not v["accepted"]:
        log("[XAPI selftest] the recorded trace itself is rejected (drift on the current tree) - cannot run the corruption tests")
        return 2
    rows = read_ndjson(tf)
    idx = [i for i, r in enumerate(rows) if r.get("op") == "get" and r["out"] == "panic"][3]
    bad = [dict(r) for r in rows]
    bad[idx]["out"] = "ok"
    bad[idx]["len"] = 1
    f2 = os.path.join(chk.wd, "corrupt.ndjson")
    write_ndjson(f2, bad)
    v2 = validate(chk, f2, 5)
    # remove the call that made a densified sketcher dense before a successful getter
    idx2 = None
    for i, r in enumerate(rows):
        if r.get("op") in ("end", "slice") and r["out"] == "ok" and r.get("ph") == "dense" and i + 1 < len(rows) \
                and rows[i - 1].get("ph") in ("partial",) and rows[i + 1].get("op") == "get" and rows[i + 1]["out"] == "ok":
            idx2 = i
            break
    v3 = dict(accepted=True)
    if idx2 is not None:
        f3 = os.path.join(chk.wd, "removed.ndjson")
        write_ndjson(f3, rows[:idx2] + rows[idx2 + 1:])
        v3 = validate(chk, f3, 5)
    ok = (not v2["accepted"]) and v2["matched"] == idx and idx2 is not None and (not v3["accepted"])
    log("[XAPI selftest] corrupted outcome rejected at line %d (expected %d): %s; removed finishing call rejected: %s"
        % (v2["matched"] + 1, idx + 1, not v2["accepted"], idx2 is not None and not v3["accepted"]))
    return 0 if ok else 2
