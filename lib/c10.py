"""C10 - ProbOrdMinHash2 collision probability equals the order-min-hash similarity"""
import json
import os
import random
from common import *
import ordfam
import stats

LEVEL = "other"
MANIFEST = dict(
    category="other",
    text="The target probability is DEFINED in TLA+ (OrdOracle.tla: uniformly random ranking of all (element, occurrence) "
         "pairs, l lowest of each sequence read in sequence order) and evaluated by TLC for every cell with at most 6 pairs; "
         "the harness's exact enumeration of the same definition is cross-checked against TLC on those cells and then used "
         "for cells up to 10 pairs. L2: the selection rule that reduces the property to the law of pair tables is validated "
         "exactly by TLC on the cell sequences (TraceOrd.tla, as C11). L3 (the expectation itself): frequency validation - "
         "per cell N trials with fresh random element labels, mean fraction of equal positions within the empirical-Bernstein "
         "radius (delta = 1e-9 per cell) of the oracle value. Cells: distinct / repeated / shifted / edited / reversed "
         "sequences, l in {1,2,3,5}, m in {1,4,16}."
         " Cells also use the crate's identity hasher and a true identity hasher with neighbouring integer labels, and long runs (multiplicities up to 512, 66000 in thorough) with the closed form of the same definition for l = 1 (cross-checked against the enumeration on every small l = 1 cell).",
    design_ref="DESIGN.md section 2.6 and section 4, C10/C11",
    note="statistical test, not model checking: effects below the radius (about 0.004-0.01 quick, 0.002 thorough) are "
         "invisible; false-alarm probability <= 1e-9 per cell; trusted: TLC for the oracle on small cells, the harness "
         "enumeration for larger ones",
    technique="TLA+-defined oracle evaluated by TLC + TLC trace validation of the selection rule + frequency validation of recorded trials",
)

DELTA = 1e-9


def shapes(rnd, quick):
    """(name, a, b) with at most 10 pairs in the union"""
    sh = [
        ("distinct-overlap", [1, 2, 3], [2, 3, 4]),
        ("distinct-equal-set-reordered", [1, 2, 3, 4], [2, 1, 3, 4]),
        ("reversed", [1, 2, 3, 4], [4, 3, 2, 1]),
        ("shifted", [1, 2, 3, 4, 5], [2, 3, 4, 5, 6]),
        ("edited", [1, 2, 3, 4, 5], [1, 2, 6, 4, 5]),
        ("repeat-simple", [1, 1, 2, 3], [1, 2, 2, 3]),
        ("repeat-order", [1, 1, 2, 3], [1, 2, 1, 3]),
        ("repeat-long", [1, 2, 3, 1, 2], [2, 3, 1, 2, 1]),
        ("all-same", [1, 1, 1], [1, 1, 1, 1]),
        ("disjoint", [1, 2, 3], [4, 5, 6]),
        ("identical", [1, 2, 1, 3], [1, 2, 1, 3]),
        ("common-prefix", [1, 2, 3, 4, 5], [1, 2, 3, 6, 7]),
        ("no-common-prefix", [4, 5, 1, 2, 3], [6, 7, 1, 2, 3]),
        ("deletion", [1, 2, 3, 4, 5, 6], [1, 2, 4, 5, 6]),
        ("run-then-recurrence", [1, 1, 2, 1], [1, 2, 1, 1]),
        ("runs-interleaved", [1, 1, 2, 2, 1], [2, 1, 1, 2, 1]),
    ]
    if not quick:
        for _ in range(10):
            alpha = rnd.randint(2, 5)
            a = [rnd.randint(1, alpha) for _ in range(rnd.randint(3, 6))]
            b = [rnd.randint(1, alpha) for _ in range(rnd.randint(3, 6))]
            sh.append(("random", a, b))
    return sh


def npairs(a, b):
    def pairs(s):
        c = {}
        out = set()
        for e in s:
            c[e] = c.get(e, 0) + 1
            out.add((e, c[e]))
        return out
    return len(pairs(a) | pairs(b))


def run(chk):
    build_harness("om")
    quick = chk.tier == "quick"
    rnd = random.Random(chk.seed)
    trials = 300000 if quick else 2000000
    cells = []
    for name, a, b in shapes(rnd, quick):
        if npairs(a, b) > (9 if quick else 10):
            continue
        for l in (1, 2, 3, 5):
            if l > min(len(a), len(b)):
                continue
            for m in (1, 4, 16):
                cells.append(dict(name=name, a=a, b=b, l=l, m=m, trials=trials))
    # the same shapes with the crate's identity hasher and neighbouring small integers as labels
    extra = []
    for c in cells:
        if c["m"] == 4 and c["l"] <= 2:
            extra.append(dict(c, hasher="nohash", elems="small", name=c["name"] + "+nohash-small"))
            extra.append(dict(c, hasher="ident", elems="small", name=c["name"] + "+ident-small"))
            extra.append(dict(c, hasher="nohash32", elems="paired32", name=c["name"] + "+nohash32-pairs"))
    cells += extra
    chk.cov["cells"] = len(cells)
    # oracle: harness enumeration, cross-checked against TLC's evaluation of the TLA+ definition on small cells
    cin = os.path.join(chk.wd, "cells.json")
    json.dump(dict(cells=cells), open(cin, "w"))
    oout = os.path.join(chk.wd, "oracle.json")
    harness("om", ["oracle", "in=" + cin, "out=" + oout], timeout=1500)
    orc = json.load(open(oout))["cells"]
    small = [i for i, c in enumerate(cells) if npairs(c["a"], c["b"]) <= 6 and c["m"] == 1]
    small = small[:12] if quick else small
    sf = os.path.join(chk.wd, "small_cells.ndjson")
    write_ndjson(sf, [dict(a=cells[i]["a"], b=cells[i]["b"], l=cells[i]["l"]) for i in small])
    cfg = write_cfg(os.path.join(chk.wd, "oracle.cfg"), init="Init", nxt="Next")
    res = tlc("OrdOracle", cfg, chk.wd, workers=1, timeout=1500, env={"ORD_CELLS": sf}, xss=True, ok_rc=(0,))
    chk.tlc_stats(res)
    tl = {r["cell"]: r for r in res.printed_json("ORACLE")}
    if len(tl) != len(small):
        raise ToolError("OrdOracle.tla evaluated %d of %d cells" % (len(tl), len(small)))
    for k, i in enumerate(small):
        t = tl[k + 1]
        if t["num"] * orc[i]["den"] != orc[i]["num"] * t["den"]:
            raise ToolError("oracle mismatch between TLC and the harness on cell %s: %s vs %s" % (cells[i], t, orc[i]))
    chk.cov["oracle_cells_cross_checked_with_tlc"] = len(small)
    log("[C10] oracle: %d cells enumerated by the harness, %d cross-checked against TLC's evaluation of OrdOracle.tla" % (len(cells), len(small)))
    # L2: exact validation of the selection rule on the cell sequences
    seen = set()
    cases = []
    for c in cells:
        key = (tuple(c["a"]), tuple(c["b"]), c["l"], c["m"])
        if key in seen or max(c["a"].count(e) for e in c["a"]) > 14:
            continue
        seen.add(key)
        cases.append(dict(m=c["m"], l=c["l"], seqs=[c["a"], c["b"], c["a"]]))
    ordfam.record_and_validate(chk, cases, "cells-L2")
    # long runs of repeated elements (multiplicities beyond 255): l = 1, closed form of the same definition:
    # P = (1/|U|) * sum over u in U of [1 if u in both; count_B(elem u)/|P_B| if u only in A; count_A(elem u)/|P_A| if only in B]
    # (the restriction of a uniform ranking to P_B is uniform and independent of which pair outside P_B is the global minimum);
    # the closed form is cross-checked against the enumeration on every small l = 1 cell above
    def closed_l1(a, b):
        from fractions import Fraction
        ca, cb = {}, {}
        for e in a:
            ca[e] = ca.get(e, 0) + 1
        for e in b:
            cb[e] = cb.get(e, 0) + 1
        tot = Fraction(0)
        nu = 0
        for e in set(ca) | set(cb):
            x, y = ca.get(e, 0), cb.get(e, 0)
            nu += max(x, y)
            tot += min(x, y)
            if x > y:
                tot += (x - y) * Fraction(y, len(b))
            elif y > x:
                tot += (y - x) * Fraction(x, len(a))
        return tot / nu
    for c, o in zip(cells, orc):
        if c["l"] == 1:
            from fractions import Fraction
            if closed_l1(c["a"], c["b"]) != Fraction(o["num"], o["den"]):
                raise ToolError("closed form for l = 1 disagrees with the enumeration on %s" % c)
    long_cells = []
    for (xa, ya, xb, yb) in ((300, 20, 20, 300), (512, 256, 256, 512), (260, 1, 1, 3)):
        a = [1] * xa + [2] * ya
        b = [1] * xb + [2] * yb
        for m in (1, 4):
            long_cells.append(dict(name="long-runs", a=a, b=b, l=1, m=m, trials=trials // 30))
    if not quick:
        long_cells.append(dict(name="very-long-runs", a=[1] * 66000 + [2] * 10, b=[1] * 10 + [2] * 66000, l=1, m=2, trials=3000))
    for c in long_cells:
        f = closed_l1(c["a"], c["b"])
        cells.append(c)
        orc.append(dict(num=f.numerator, den=f.denominator))
    cin = os.path.join(chk.wd, "cells_all.json")
    json.dump(dict(cells=cells), open(cin, "w"))
    # L3: frequency validation
    fout = os.path.join(chk.wd, "freq.json")
    harness("om", ["freq", "in=" + cin, "out=" + fout, "seed=%d" % chk.seed], timeout=3000)
    fr = json.load(open(fout))["cells"]
    worst = 0.0
    for c, o, f in zip(cells, orc, fr):
        p = o["num"] / o["den"]
        n, mean, var = stats.hist_moments(f["hist"], c["m"])
        eps = stats.bernstein_radius(n, var, DELTA)
        chk.add("evaluations", n)
        dev = abs(mean - p)
        worst = max(worst, dev / eps if eps > 0 else 0)
        rec = dict(cell=c["name"], a=c["a"] if len(c["a"]) <= 12 else "%d elements" % len(c["a"]), b=c["b"] if len(c["b"]) <= 12 else "%d elements" % len(c["b"]),
                   l=c["l"], m=c["m"], oracle=p, mean=mean, radius=eps, trials=n, hasher=c.get("hasher", "fnv"), labels=c.get("elems", "random"),
                   panics=f["panics"])
        if 0.02 < p < 0.98:
            chk.add("distinct_nontrivial", 1)
        chk.sample(rec, cap=5)
        if f["panics"]:
            chk.violation(dict(kind="freq", what="panic", repeats=any(c["a"].count(e) > 1 for e in c["a"]) or any(c["b"].count(e) > 1 for e in c["b"])),
                          dict(kind="ord-freq", cell=rec, seed=chk.seed))
        elif dev > eps:
            chk.violation(dict(kind="freq", what="mean", repeats=any(c["a"].count(e) > 1 for e in c["a"]) or any(c["b"].count(e) > 1 for e in c["b"])),
                          dict(kind="ord-freq", cell=rec, seed=chk.seed))
    chk.cov["rule"] = ("cells = shape x l x m; per cell %d trials with fresh random labels; non-trivial = oracle strictly "
                       "between 0.02 and 0.98" % trials)
    chk.cov["explanation"] = ("frequency validation against a TLA+-defined oracle: |mean - oracle| <= empirical-Bernstein radius at "
                              "delta=1e-9 per cell; worst |dev|/radius this run = %.3f" % worst)
    chk.cov["worst_dev_over_radius"] = worst
    chk.assumptions += ["trials are independent (fresh labels per trial); positions within a trial need not be",
                        "oracle for cells with 7..10 pairs comes from the harness enumeration only"]
    log("[C10] %d cells x %d trials, worst |mean-oracle|/radius = %.3f" % (len(cells), trials, worst))


def replay(chk, path):
    sc = json.load(open(path))["scenario"]
    r = ordfam.replay_one(chk, path, "C10")
    if r is not None:
        return r
    c = sc.get("cell") or {}
    if sc.get("kind") != "ord-freq" or "a" not in c:
        log("frequency cell: %s" % json.dumps(sc))
        log("re-run ./check C10 with VERIF_SEED=%s to re-measure on the current tree" % sc.get("seed"))
        return 1
    # the cell is measured again (same seed, same number of trials) and judged by the same rule
    build_harness("om")
    cell = dict(name=c.get("cell", "replay"), a=c["a"], b=c["b"], l=c["l"], m=c["m"], trials=c["trials"])
    if c.get("hasher") and c["hasher"] != "fnv":
        cell["hasher"] = c["hasher"]
    if c.get("labels") and c["labels"] != "random":
        cell["elems"] = c["labels"]
    cin = os.path.join(chk.wd, "replay_cells.json")
    json.dump(dict(cells=[cell]), open(cin, "w"))
    fout = os.path.join(chk.wd, "replay_freq.json")
    harness("om", ["freq", "in=" + cin, "out=" + fout, "seed=%d" % sc.get("seed", chk.seed)], timeout=3000)
    f = json.load(open(fout))["cells"][0]
    n, mean, var = stats.hist_moments(f["hist"], cell["m"])
    eps = stats.bernstein_radius(n, var, DELTA)
    log("cell %s: oracle %.6f, mean %.6f +- %.6f over %d trials, panics %s" % (cell["name"], c["oracle"], mean, eps, n, f.get("panics")))
    bad = bool(f.get("panics")) or abs(mean - c["oracle"]) > eps
    if bad:
        log("VIOLATION property=C10 replay=%s" % path)
    return 1 if bad else 0


def selftest(chk):
    build_harness("om")
    # the acceptance rule must reject a shifted mean: feed the oracle of another cell
    cells = [dict(name="x", a=[1, 1, 2, 3], b=[1, 2, 2, 3], l=1, m=4, trials=30000)]
    cin = os.path.join(chk.wd, "cells.json")
    json.dump(dict(cells=cells), open(cin, "w"))
    fout = os.path.join(chk.wd, "freq.json")
    harness("om", ["freq", "in=" + cin, "out=" + fout, "seed=1"])
    f = json.load(open(fout))["cells"][0]
    n, mean, var = stats.hist_moments(f["hist"], 4)
    eps = stats.bernstein_radius(n, var, DELTA)
    ok = abs(mean - 0.7) <= eps and abs(mean - 0.75) > eps
    log("[C10 selftest] mean %.4f radius %.4f: true oracle 0.70 accepted, 0.75 rejected: %s" % (mean, eps, ok))
    return 0 if ok else 2
