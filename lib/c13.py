"""C13 - after reinit/reset a sketcher behaves exactly like a new one"""
import json
import os
from common import *
import joinfam

LEVEL = "model_checking"
MANIFEST = dict(
    category="model_checking",
    text="Each implementation-shaped TLA+ module (SuperMinHash, SuperMinHash2, SetSketch, DensMinHash, FYShuffle, "
         "MaxTracker, OrdMinHash) writes Reinit/Reset field by field as the code does; TLC checks from every reachable "
         "state that the state after it equals the initial state. TLC enumerates all API-call histories with reinit in "
         "any position (partial streams, merges, finished/unfinished densification) followed by further calls; each is "
         "replayed on one real object and TLC validates every step after the reinit against the specification of a fresh "
         "sketcher (join of measured tables from the empty set; get_low_sketch = 0 and overflow counter = 0 right after "
         "reinit). ProbOrdMinHash2's self-clearing hash_set is checked by comparing a used instance with a fresh one "
         "(same pinned seed) on the same input."
             " One object per sketcher kind also lives through 140000 (items, reinit/reset) cycles and is compared with a new object at every reset count within 6 of a multiple of 2^8 / 2^16 (long life); SetSketch kinds include a signed register type and the sketcher's own cardinality reading.",
    design_ref="DESIGN.md section 4, C13",
    note="trusted: TLC, Json/IOUtils, rank abstraction, measured tables; behavioural equality is checked on the "
         "enumerated/sampled suffixes, not proved for all suffixes",
    technique="TLA+ model check of Reinit = Init + TLC-generated histories with reinit replayed into Rust + TLC trace validation",
)

KINDS = ["smh_f64_fnv", "smh_f32_no", "smh2_u64_fnv", "smh2_u32_xx", "ss_u16", "ss_u32", "ss_i32", "ss_u16_no", "pmh2"]


def tags(hdr, bad):
    return dict()


def run(chk):
    build_harness("sk")
    quick = chk.tier == "quick"
    chk.cov["rule"] = ("histories of depth 4 over 1 instance and depth 3-4 over 2 instances with sketch / slice / merge / "
                       "reinit in every position; non-trivial = the history contains a reinit or merge and the final "
                       "sketch has >= 2 distinct values; plus long random histories that reach raised lower_k, shrunken "
                       "a_upper and overflowed registers before a reinit")
    import layerb
    layerb.check_sketch_specs(chk, ["SetSketch", "SuperMinHash", "SuperMinHash2"], quick)
    f, n, res = joinfam.gen_schedules(chk, "c13a", nitems=3, ninst=1, depth=4, maxslice=2, reinit=True)
    chk.cov["schedules_1inst"] = n
    joinfam.replay_join(chk, f, KINDS, "reinit-1inst", stride=25 if quick else 2, ms=[1, 2, 3, 4, 5, 8], prop_tags=tags)
    f, n, res = joinfam.gen_schedules(chk, "c13b", nitems=2, ninst=2, depth=4, maxslice=1, slice_=False, merge=True, reinit=True)
    chk.cov["schedules_2inst"] = n
    joinfam.replay_join(chk, f, ["ss_u16", "ss_u32"], "reinit-merge", stride=4 if quick else 1, ms=[1, 2, 3, 5], prop_tags=tags,
                        seed=chk.seed + 1)
    joinfam.random_join(chk, KINDS, "random-reinit", runs=12 if quick else 60, length=200, nitems=150, ms=[1, 2, 3, 4, 6],
                        reinit=True, prop_tags=tags)
    joinfam.random_join(chk, ["ss_u16", "ss_u32"], "random-reinit-merge", runs=4 if quick else 30, length=200, nitems=150,
                        ms=[1, 2, 3, 4], reinit=True, merge=True, prop_tags=tags, seed=chk.seed + 2)
    import densfam
    import ordfam
    densfam.c13_part(chk, quick)
    ordfam.c13_part(chk, quick)
    long_life(chk, quick)
    chk.cov["explanation"] = "all histories of the stated shape + sampled long histories; equality with a fresh sketcher via the specification's function of the empty set"


LL_KINDS = ["smh_f64_fnv", "smh_f32_no", "smh2_u64_fnv", "smh2_u32_xx", "ss_u16", "ss_u32", "ss_i32", "pmh2",
            "dens_f64", "dens_f32", "rev_f64", "rev_f32", "ord2_fnv"]


def long_life(chk, quick):
    """one object per kind through 140000 (400000) cycles of (items, reinit/reset); at check points - dense around 2^8 and
    2^16 cycles and their multiples - the reused object and a new one are given the same input"""
    build_harness("ll")
    out = os.path.join(chk.wd, "longlife.json")
    cycles = 140000 if quick else 400000
    harness("ll", ["run", "out=" + out, "seed=%d" % chk.seed, "cycles=%d" % cycles, "kinds=" + ",".join(LL_KINDS)], timeout=3000)
    nchecks = 0
    for c in json.load(open(out))["cases"]:
        chk.add("evaluations", c["cycles"])
        nchecks += c["checks"]
        tags = dict(kind="long-life", sketcher=c["kind"])
        if c.get("panic"):
            chk.violation(dict(tags, what="panic"), dict(kind="long-life", case=c, seed=chk.seed))
        elif c["bad"]:
            chk.violation(dict(tags, what="differs-from-new"), dict(kind="long-life", case=c, seed=chk.seed))
    chk.cov["long_life_cycles"] = cycles
    log("[C13] long life: %d kinds, one object each through %d (items, reinit) cycles, %d comparisons with a new object" % (
        len(LL_KINDS), cycles, nchecks))


def replay(chk, path):
    sc = json.load(open(path))["scenario"]
    if sc.get("kind") == "long-life":
        build_harness("ll")
        out = os.path.join(chk.wd, "longlife_replay.json")
        c = sc["case"]
        harness("ll", ["run", "out=" + out, "seed=%d" % sc["seed"], "cycles=%d" % c["cycles"], "kinds=" + c["kind"]], timeout=3000)
        r = json.load(open(out))["cases"][0]
        log("long life of %s: %d comparisons, %d differ%s" % (c["kind"], r["checks"], len(r["bad"]), ", panic: " + r["panic"] if r.get("panic") else ""))
        for b in r["bad"][:2]:
            log(json.dumps(b)[:600])
        if r["bad"] or r.get("panic"):
            log("VIOLATION property=C13 replay=%s" % path)
            return 1
        return 0
    build_harness("sk")
    r = joinfam.replay_one(chk, path, "C13")
    return 2 if r is None else r


def selftest(chk):
    build_harness("sk")
    f, n, res = joinfam.gen_schedules(chk, "st", nitems=2, ninst=1, depth=3, maxslice=1, slice_=False, reinit=True)
    tf = os.path.join(chk.wd, "st.ndjson")
    harness("sk", ["replay", "in=" + f, "out=" + tf, "kinds=ss_u16,smh_f64_fnv", "seed=5", "ms=3"])
    rows = read_ndjson(tf)
    assert validate_trace("TraceJoin", tf, chk.wd)["accepted"]
    # a reinit that leaves a register behind / a stale lower bound must be rejected
    idx = [i for i, r in enumerate(rows) if r.get("op") == "re" and rows[i - 1].get("op") in ("sk",) and "low" in r]
    bad = [json.loads(json.dumps(r)) for r in rows]
    bad[idx[0]]["obs"][0] = 1
    f2 = os.path.join(chk.wd, "st2.ndjson")
    write_ndjson(f2, bad)
    v2 = validate_trace("TraceJoin", f2, chk.wd)
    bad = [json.loads(json.dumps(r)) for r in rows]
    bad[idx[0]]["ovf"] = 1
    f3 = os.path.join(chk.wd, "st3.ndjson")
    write_ndjson(f3, bad)
    v3 = validate_trace("TraceJoin", f3, chk.wd)
    ok = (not v2["accepted"]) and (not v3["accepted"])
    log("[C13 selftest] stale register after reinit rejected: %s; stale overflow counter rejected: %s" % (
        not v2["accepted"], not v3["accepted"]))
    return 0 if ok else 2
