"""C07 - SetSketch register collisions follow the model; Jaccard bounds hold"""
import decimal
import json
import math
import os
from decimal import Decimal
from fractions import Fraction
from multiprocessing import Pool
from common import *
import stats

LEVEL = "other"
MANIFEST = dict(
    category="other",
    text="Structure (TLC, exhaustive on small grids, Collision.tla): register = clipped cell of the minimum, register of a "
         "set = max over its parts, registers equal iff both minima share a cell, and the collision event splits per cell "
         "into exactly the two product events of the collision-probability formula (every antitone cell map incl. clipping "
         "at both ends, every support of the three minima: the counting identity holds). Numeric oracle OUTSIDE TLA+ (exp, "
         "log_b; DESIGN C07): the formula evaluated with 50-digit decimals by the driver; the same implementation is "
         "cross-checked exactly against TLC's brute-force counts on discretised laws and statistically against a Monte-Carlo "
         "of the mathematical model. L3: frequency validation - per cell N trials streaming fresh random u64 identifiers "
         "through two real SetSketchers, mean fraction of equal registers within the empirical-Bernstein radius (delta=min(1e-9, "
         "1e-8/#cells) per cell) of the oracle; cells = cardinality triples (balanced, nested, disjoint, identical, skewed, 1 vs 1e5 "
         "(1e6 thorough), tiny) x b in {1.001,1.2,1.5,2} x u16/u32 x m in {16,256} with documented (a,q), plus heavily "
         "clipped (a,q). Bounds contract: TLC enumerates the input grid of get_jaccard_bounds (8 bases x fractions k/m), the "
         "harness replays it and TraceBounds.tla validates: returned, lo <= hi + 1e-9, and lo - 1e-4 <= J <= hi + 1e-4 for "
         "oracle collision probabilities of triples with known J in the documented regime."
             " Every bounds call is repeated in another thread after other calls and must return the same bits; cells on sketchers built through Default.",
    design_ref="DESIGN.md section 2.6 and section 4, C07",
    note="the expectation itself is decided by a statistical test (not model checking): effects below the radius (0.004-0.04 "
         "quick, 0.002-0.015 thorough, depending on the cell) are invisible; false-alarm probability <= 1e-9 per cell and <= 1e-8 per run; the "
         "oracle formula is not expressible in TLA+ (no reals): trusted = Python decimal, cross-checked as stated; the "
         "bounds part is contract checking of a numeric function on a grid",
    technique="TLA+ structural model checked by TLC + numeric oracle cross-validated against TLC counts and model simulation "
              "+ frequency validation of the real sketchers + TLC-enumerated input grid replayed and validated by a TLA+ trace spec",
)

DELTA = 1e-9          # per cell (DESIGN 2.6) ...
FAMILY = 1e-8         # ... and at most this for all cells of a run together (Bonferroni)


def cell_delta(ncells):
    return min(DELTA, FAMILY / max(1, ncells))

# documented regime: clip probabilities exp(-a|S|) and a|S|b^-q below 1e-6 for |S| in 1..1e6 (per register)
DOC = {1.001: (20.0, 65534), 1.2: (20.0, 200), 1.5: (20.0, 100), 2.0: (20.0, 60)}
CLIPPED = [(2.0, 1.0, 2), (1.5, 1.0, 4)]
BS = [1.001, 1.2, 1.5, 2.0]


# ------------------------------------------------------------------------------------------------
# the formula (generic in the number type) and the numeric oracle

def collision_terms(tail, q, s_inf, s_zero, kmin=0, kmax=None):
    """DESIGN C07.  tail(k) = (S_u, S_v, S_w) at the threshold lo_k = b^-k, 0 <= k <= q.  lo_{q+1} = 0 (S = s_zero: the
    whole mass), hi_k = lo_{k-1}, hi_0 = +inf (S = s_inf = 0, also for an empty part: its minimum +inf belongs to
    cell 0).  Generic in the number type.  returns [(k, term1, term2)] for kmin <= k <= kmax"""
    if kmax is None:
        kmax = q + 1
    out = []

    def at(k):
        if k < 0:
            return s_inf
        if k > q:
            return s_zero
        return tail(k)
    hi = at(kmin - 1)
    for k in range(kmin, kmax + 1):
        lo = at(k)
        t1 = (lo[2] - hi[2]) * lo[0] * lo[1]
        t2 = hi[2] * (lo[0] - hi[0]) * (lo[1] - hi[1])
        out.append((k, t1, t2))
        hi = lo
    return out


def oracle_p(key):
    """key = (nu, nv, nw, b, a, q, rate_scale) -> collision probability as a decimal string (50-digit arithmetic).
    Cells whose total contribution is below 1e-30 are skipped (bounds in the comments)."""
    nu, nv, nw, b, a, q, scale = key
    decimal.getcontext().prec = 50
    B = Decimal(repr(b))
    A = Decimal(repr(a)) * Decimal(repr(scale))
    rates = [A * nu, A * nv, A * nw]
    ra, rb = float(rates[0] + rates[2]), float(rates[1] + rates[2])
    if ra == 0 and rb == 0:
        return "1"
    lnb = math.log(b)
    rmax, rmin = max(ra, rb), min(ra, rb)
    # a collision in a cell < k0 needs both minima > lo_{k0-1}: probability <= exp(-rmax * b^-(k0-1)) < 1e-30
    kmin = 0
    if rmax / 69.1 > 1:
        kmin = max(0, int(math.floor(math.log(rmax / 69.1) / lnb)))
    # a collision in a cell > K needs both minima <= lo_K: probability <= rmin * b^-K < 1e-30
    if rmin == 0:
        kmax = 0
    else:
        kmax = int(math.ceil(math.log(rmin * 1e30) / lnb)) + 1
    kmax = max(min(kmax, q + 1), 0)
    kmin = min(kmin, kmax)
    one, zero = Decimal(1), Decimal(0)
    invb = one / B
    state = {"k": None, "x": None}
    distinct = sorted(set(r for r in rates if r != 0))

    def tail(k):
        # thresholds are visited in increasing k: one multiplication per step
        if state["k"] is None or k < state["k"]:
            state["x"] = (-(B.ln()) * k).exp()
        else:
            for _ in range(k - state["k"]):
                state["x"] = state["x"] * invb
        state["k"] = k
        x = state["x"]
        e = {r: (-(r * x)).exp() for r in distinct}
        return tuple(one if r == 0 else e[r] for r in rates)
    p = zero
    for (_, t1, t2) in collision_terms(tail, q, (zero,) * 3, (one,) * 3, kmin, kmax):
        p += t1 + t2
    return format(p, ".30f")


def oracle_many(keys):
    keys = sorted(set(keys))
    if not keys:
        return {}
    with Pool(min(NCPU, 16)) as pool:
        vals = pool.map(oracle_p, keys, chunksize=1)
    return dict(zip(keys, vals))


def key_of(c, scale=1.0):
    return (c["nu"], c["nv"], c["nw"], c["b"], c["a"], c["q"], scale)


def jaccard(c):
    n = c["nu"] + c["nv"] + c["nw"]
    return Fraction(c["nw"], n) if n else Fraction(1)


def in_regime(c):
    """documented regime: for both sets exp(-a|S|) < 1e-6 and a|S| b^-q < 1e-6"""
    for n in (c["nu"] + c["nw"], c["nv"] + c["nw"]):
        if n == 0:
            return False
        if math.exp(-c["a"] * n) >= 1e-6:
            return False
        if math.log(c["a"] * n) - c["q"] * math.log(c["b"]) >= math.log(1e-6):
            return False
    return True


# ------------------------------------------------------------------------------------------------
# 1. structure: Collision.tla

def dummy_given(chk):
    p = os.path.join(chk.wd, "given_dummy.json")
    json.dump([dict(raw=[1], wu=[1, 1], wv=[1, 1], ww=[1, 1])], open(p, "w"))
    return p


def structure(chk, quick):
    env = {"C07_GIVEN": dummy_given(chk)}
    runs = [("maps", 6, 2, 1, ["InvRegs", "InvDecomp", "InvCount", "InvTotal"]),
            ("maps", 4, 4, 2, ["InvRegs", "InvDecomp", "InvCount", "InvTotal"]),
            ("all", 3, 1, 1, ["InvCount", "InvTotal"])]
    if not quick:
        runs += [("maps", 8, 3, 1, ["InvRegs", "InvDecomp", "InvCount", "InvTotal"]),
                 ("all", 3, 2, 1, ["InvCount", "InvTotal"]),
                 ("all", 4, 1, 0, ["InvCount", "InvTotal"])]
    for (mode, g, q, e, invs) in runs:
        cfg = write_cfg(os.path.join(chk.wd, "coll_%s_%d_%d.cfg" % (mode, g, q)),
                        constants=dict(G=g, Q=q, Mode='"%s"' % mode, E=e, Mut='"none"'), invariants=invs)
        res = tlc_check("Collision", cfg, chk.wd, timeout=3000, env=env, xss=True)
        chk.tlc_stats(res)
        chk.add("structure_states", res.distinct)
        log("[C07] Collision.tla mode=%s G=%d Q=%d E=%d: %d distinct states, invariants %s hold (%.1fs)" % (
            mode, g, q, e, res.distinct, "/".join(invs), res.wall))


def raw_cell(g, b):
    """the integer z with b^-z < g <= b^(1-z), exact (Fractions)"""
    z = 0
    while not g > b ** (-z):
        z += 1
    while g > b ** (1 - z):
        z -= 1
    return z


def discretised_configs():
    """(name, b, q, grid, raw, wu, wv, ww): discretised exponential laws on a grid; G = 13, Q = 3 for all"""
    cfgs = []
    G, Q, W = 13, 3, 400
    grids = [("b2-halfsteps", Fraction(2), [Fraction(2) ** ((x - 9) // 2) * (Fraction(181, 128) if (x - 9) % 2 else 1) for x in range(1, G + 1)]),
             ("b2-on-thresholds", Fraction(2), [Fraction(2) ** (x - 9) for x in range(1, G + 1)]),
             ("b1.5-linear", Fraction(3, 2), [Fraction(x, 8) for x in range(1, G + 1)])]
    shapes = [("balanced", (3.0, 3.0, 3.0)), ("nested", (0.0, 5.0, 2.0)), ("disjoint", (1.0, 4.0, 0.0)),
              ("identical", (0.0, 0.0, 6.0)), ("skewed", (0.3, 12.0, 1.0))]
    for gname, b, grid in grids:
        raw = [raw_cell(g, b) for g in grid]
        for sname, rates in shapes:
            ws = []
            for r in rates:
                if r == 0:
                    ws.append([0] * G + [W])
                    continue
                w, prev = [], 1.0
                for g in grid:
                    s = math.exp(-r * float(g))
                    w.append(int(round(W * (prev - s))))
                    prev = s
                w.append(int(round(W * prev)))
                ws.append(w)
            cfgs.append(dict(name=gname + "/" + sname, b=b, q=Q, grid=grid, raw=raw, wu=ws[0], wv=ws[1], ww=ws[2]))
    return G, Q, cfgs


def discrete_formula(c):
    """the driver's threshold-based implementation of the formula on a discretised law (exact integers)"""
    grid, b = c["grid"], c["b"]

    def tail(k):
        t = b ** (-k)
        return tuple(sum(w[i] for i, g in enumerate(grid) if g > t) + w[-1] for w in (c["wu"], c["wv"], c["ww"]))
    tot = (sum(c["wu"]), sum(c["wv"]), sum(c["ww"]))
    # weights instead of probabilities: S(0) = total weight, S(+inf) = 0
    return [(t1, t2) for (_, t1, t2) in collision_terms(tail, c["q"], (0, 0, 0), tot)]


def discretised_crosscheck(chk, mutate=False):
    """TLC brute-force counts on discretised laws == the driver's formula implementation (exact)"""
    G, Q, cfgs = discretised_configs()
    e = max(max(0, -min(c["raw"])) for c in cfgs)
    e = max(e, max(max(c["raw"]) for c in cfgs) - (Q + 1), 0)
    gp = os.path.join(chk.wd, "given.json")
    json.dump([dict(raw=[z + e for z in c["raw"]], wu=c["wu"], wv=c["wv"], ww=c["ww"]) for c in cfgs], open(gp, "w"))
    cfg = write_cfg(os.path.join(chk.wd, "coll_given.cfg"),
                    constants=dict(G=G, Q=Q, Mode='"given"', E=e, Mut='"none"'),
                    invariants=["InvRegs", "InvDecomp", "InvCount", "InvTotal", "InvExport"])
    res = tlc_check("Collision", cfg, chk.wd, workers=1, timeout=1500, env={"C07_GIVEN": gp}, xss=True)
    chk.tlc_stats(res)
    counts = {r["id"]: r for r in res.printed_json("COUNT")}
    if len(counts) != len(cfgs):
        raise ToolError("Collision.tla exported %d of %d discretised configurations" % (len(counts), len(cfgs)))
    bad = 0
    for i, c in enumerate(cfgs):
        t = counts[i + 1]
        f = discrete_formula(c)
        if mutate:   # anti-vacuity: an implementation that treats an empty part as S(+inf) = 1
            f = [(a, b) for (a, b) in f]
            f[0] = (f[0][0] + 1, f[0][1])
        ok = (t["t1"] == [x[0] for x in f] and t["t2"] == [x[1] for x in f]
              and t["perk"] == [x[0] + x[1] for x in f] and t["coll"] == sum(x[0] + x[1] for x in f)
              and t["total"] == sum(c["wu"]) * sum(c["wv"]) * sum(c["ww"]))
        if not ok:
            bad += 1
            if not mutate:
                raise ToolError("oracle implementation disagrees with TLC's brute-force count on %s: TLC %s, driver %s" % (
                    c["name"], t, f))
        elif i < 2 and not mutate:
            chk.sample(dict(kind="discretised-crosscheck", config=c["name"], raw_cells=c["raw"], wu=c["wu"], wv=c["wv"], ww=c["ww"],
                            tlc_collision_weight=t["coll"], total=t["total"], per_cell=t["perk"]), cap=12)
    if not mutate:
        nz = sum(1 for c in cfgs if len(set(c["raw"])) > 2)
        chk.add("oracle_configs_cross_checked_with_tlc", len(cfgs))
        log("[C07] formula implementation == TLC brute-force counts on %d discretised laws (per cell, both terms; %.1fs)" % (len(cfgs), res.wall))
    return bad, len(cfgs)


# ------------------------------------------------------------------------------------------------
# 2./3. cells, oracle, model simulation, frequency validation

def freq_cells(quick):
    f = 1 if quick else 6
    cells = []

    def add(shape, tri, b, a, q, m, reg, trials, regime):
        cells.append(dict(id=len(cells), shape=shape, nu=tri[0], nv=tri[1], nw=tri[2], b=b, a=a, q=q, m=m, reg=reg,
                          trials=trials, regime=regime))
    tiny = [("tiny-1/1/1", (1, 1, 1)), ("tiny-2/1/3", (2, 1, 3)), ("tiny-disjoint-1/1/0", (1, 1, 0)), ("tiny-nested-0/1/1", (0, 1, 1))]
    mid = [("balanced", (1000, 1000, 1000)), ("nested", (0, 1000, 1000)), ("disjoint", (1000, 1000, 0)),
           ("identical", (0, 0, 1000)), ("skewed", (100, 3000, 500))]
    for b in BS:
        a, q = DOC[b]
        for name, tri in tiny:
            for m, reg in ((16, "u16"), (16, "u32"), (256, "u16"), (256, "u32")):
                add(name, tri, b, a, q, m, reg, (40000 if m == 16 else 20000) * f, True)
        for i, (name, tri) in enumerate(mid):
            ident = name == "identical"
            for m, reg in ((16, "u16"), (16, "u32"), (256, "u16" if i % 2 else "u32")):
                n = 10000 if m == 16 else 4000
                add(name, tri, b, a, q, m, reg, (1000 if ident else n * f), True)
            if not quick:
                add(name, tri, b, a, q, 256, "u32" if i % 2 else "u16", 1000 if ident else 12000, True)
    # 1 vs 1e5 (1 vs 1e6 in thorough): nested and disjoint
    big = [("1-in-1e5", (0, 99999, 1))]
    for b in (BS if not quick else (1.001, 2.0)):
        a, q = DOC[b]
        for name, tri in big:
            add(name, tri, b, a, q, 16, "u16", 1500 if quick else 6000, True)
            add(name, tri, b, a, q, 256, "u32", 500 if quick else 2000, True)
    if not quick:
        for b in (1.001, 2.0):
            a, q = DOC[b]
            add("1-vs-1e5-disjoint", (1, 100000, 0), b, a, q, 16, "u32", 3000, True)
            add("1-in-1e6", (0, 999999, 1), b, a, q, 16, "u16", 1200, True)
            add("1-in-1e6", (0, 999999, 1), b, a, q, 256, "u32", 400, True)
    # 32-bit registers beyond the 16-bit range: base 1.0002, sets of tens of thousands of items (registers above 65535)
    for name, tri in (("beyond-u16-balanced", (30000, 30000, 30000)), ("beyond-u16-nested", (0, 40000, 40000))):
        add(name, tri, 1.0002, 20.0, 2 ** 24 - 2, 16, "u32", 200 * f, True)
    # sketchers built through `Default` (documented defaults b = 1.001, a = 20, q = 2^16 - 2, m = 4096; the harness
    # skips these cells if the crate's defaults are others)
    for name, tri in tiny + [("small-10/10/10", (10, 10, 10))]:
        for reg in ("def16", "def32"):
            add(name + "+default", tri, 1.001, 20.0, 65534, 4096, reg, 1500 * f, True)
    # heavily clipped tuples: the collision model alone
    for (b, a, q) in CLIPPED:
        for name, tri in tiny + [("small-10/10/10", (10, 10, 10)), ("balanced", (1000, 1000, 1000))]:
            for m, reg in ((16, "u16"), (16, "u32"), (256, "u16"), (256, "u32")):
                if tri[0] == 1000:
                    if m == 256:
                        continue
                    add(name, tri, b, a, q, m, reg, 2000, False)
                else:
                    add(name, tri, b, a, q, m, reg, (40000 if m == 16 else 20000) * f, False)
    return cells


def simulate_model(chk, keys, orc, n, scale_of=None, tag="sim"):
    """Monte-Carlo of the mathematical model (independent exponential minima, clipped cells) against the formula"""
    cells = []
    for i, k in enumerate(keys):
        cells.append(dict(id=i, nu=k[0], nv=k[1], nw=k[2], b=k[3], a=k[4], q=k[5], trials=n,
                          rate_scale=(scale_of(k) if scale_of else 1.0)))
    cin = os.path.join(chk.wd, tag + "_cells.json")
    json.dump(dict(cells=cells), open(cin, "w"))
    out = os.path.join(chk.wd, tag + "_out.json")
    harness("c07", ["sim", "in=" + cin, "out=" + out, "seed=%d" % chk.seed], timeout=3000)
    res = json.load(open(out))["cells"]
    bad = []
    worst = 0.0
    for k, r in zip(keys, res):
        p = float(orc[k])
        mean = r["hits"] / r["n"]
        var = mean * (1 - mean) * r["n"] / (r["n"] - 1)
        eps = stats.bernstein_radius(r["n"], var, cell_delta(len(keys)))
        worst = max(worst, abs(mean - p) / eps)
        if abs(mean - p) > eps:
            bad.append(dict(key=k, oracle=p, simulated=mean, radius=eps))
    return bad, worst


def frequency(chk, quick):
    cells = freq_cells(quick)
    chk.cov["cells"] = len(cells)
    t0 = time.time()
    orc = oracle_many([key_of(c) for c in cells])
    log("[C07] oracle: %d distinct (triple, b, a, q) evaluated with 50-digit decimals (%.1fs)" % (len(orc), time.time() - t0))
    # the formula against a simulation of the model (validates the oracle, not the code)
    keys = sorted(orc)
    bad, worst = simulate_model(chk, keys, orc, 1000000 if quick else 4000000)
    if bad:
        raise ToolError("the oracle formula disagrees with the simulation of the mathematical model: %s" % bad[:3])
    chk.add("oracle_cells_cross_checked_with_simulation", len(keys))
    log("[C07] oracle formula vs Monte-Carlo of the model: %d cells agree (worst |dev|/radius %.2f)" % (len(keys), worst))
    # frequency validation on the real sketchers
    cin = os.path.join(chk.wd, "freq_cells.json")
    json.dump(dict(cells=cells), open(cin, "w"))
    fout = os.path.join(chk.wd, "freq.json")
    t0 = time.time()
    harness("c07", ["freq", "in=" + cin, "out=" + fout, "seed=%d" % chk.seed], timeout=7200)
    fr = json.load(open(fout))["cells"]
    worst = 0.0
    radii = []
    drift = 0
    for c, f in zip(cells, fr):
        if f.get("skipped"):
            chk.notes.append("cell %s skipped: the crate's default parameters are not the documented ones" % c["shape"])
            continue
        p = float(orc[key_of(c)])
        n, mean, var = stats.hist_moments(f["hist"], f.get("m", c["m"]))   # Default sketchers: their real number of registers
        eps = stats.bernstein_radius(n, var, cell_delta(len(cells)))
        chk.add("evaluations", n + f["panics"])
        dev = abs(mean - p)
        worst = max(worst, dev / eps if eps > 0 else 0)
        radii.append(eps)
        drift += f["parts_mismatch"]
        rec = dict(kind="freq", cell=c, oracle=p, jaccard=float(jaccard(c)), mean=mean, radius=eps, trials=n, panics=f["panics"])
        if 0.02 < p < 0.98:
            chk.add("distinct_nontrivial", 1)
        if c["id"] % 37 == 5:
            chk.sample(rec, cap=12)
        tags = dict(kind="freq", regime="documented" if c["regime"] else "clipped", shape=c["shape"], b=c["b"], reg=c["reg"], m=c["m"])
        if f["panics"]:
            chk.violation(dict(tags, what="panic"), dict(kind="freq", cell=c, seed=chk.seed, observed=rec))
        elif dev > eps:
            chk.violation(dict(tags, what="mean"), dict(kind="freq", cell=c, seed=chk.seed, observed=rec))
    chk.cov["worst_dev_over_radius"] = worst
    chk.cov["delta_per_cell"] = cell_delta(len(cells))
    chk.cov["radius_min_max"] = [min(radii), max(radii)]
    chk.cov["drift_register_not_max_of_parts"] = drift
    log("[C07] frequency validation: %d cells, worst |mean-oracle|/radius = %.3f, radii %.4f..%.4f, advisory join drift %d (%.1fs)" % (
        len(cells), worst, min(radii), max(radii), drift, time.time() - t0))
    return orc


# ------------------------------------------------------------------------------------------------
# 4. bounds contract

def export_grid(chk, full):
    dummy = os.path.join(chk.wd, "empty_trace.ndjson")
    write_ndjson(dummy, [dict(op="header")])
    cfg = write_cfg(os.path.join(chk.wd, "grid.cfg"), constants=dict(Full=full), init="GenInit", nxt="GenNext", invariants=["GenInv"])
    res = tlc("TraceBounds", cfg, chk.wd, workers=1, timeout=900, env={"TRACE": dummy})
    chk.tlc_stats(res)
    g = res.printed_json("GRID")
    if len(g) != 1:
        raise ToolError("TraceBounds.tla did not export the grid:\n" + res.out[-2000:])
    g = g[0]
    rows = []
    for bi, b in enumerate(g["bs"]):
        for mi, m in enumerate(g["ms"]):
            for k in g["ks"][mi]:
                rows.append(dict(src="grid", bi=bi + 1, mi=mi + 1, k=k, b=b, jac=[k, m]))
    if len(rows) != g["size"]:
        raise ToolError("grid export inconsistent: %d rows, GridSize %d" % (len(rows), g["size"]))
    return rows


def bracket_cells(quick):
    """triples with known J; documented (a, q) (regime computed, not assumed) plus a few outside the regime"""
    cells = []
    # (the bases of the frequency cells plus two more between 1.001 and 1.2, each with (a, q) inside the documented regime)
    for b in list(BS) + [1.05, 1.1]:
        a, q = DOC[b] if b in DOC else (20.0, 700 if b == 1.05 else 400)
        js = list(range(0, 11))
        if quick and b == 1.001:
            js = [0, 3, 5, 9, 10]
        for union in (2000, 10) + (() if quick else (200000,)):
            if union == 200000 and b == 1.001:
                js2 = [1, 5]
            else:
                js2 = js
            for j in js2:
                nw = union * j // 10
                rest = union - nw
                if rest % 2 == 0:
                    cells.append(dict(shape="balanced", nu=rest // 2, nv=rest // 2, nw=nw, b=b, a=a, q=q))
                if nw > 0:
                    cells.append(dict(shape="nested", nu=0, nv=rest, nw=nw, b=b, a=a, q=q))
    for (b, a, q) in CLIPPED:
        for tri in ((1, 1, 2), (500, 500, 1000), (3, 3, 4)):
            cells.append(dict(shape="outside-regime", nu=tri[0], nv=tri[1], nw=tri[2], b=b, a=a, q=q))
    return cells


BFRAC = {1.001: [1001, 1000], 1.2: [6, 5], 1.5: [3, 2], 2.0: [2, 1], 1.05: [21, 20], 1.1: [11, 10]}


def bounds_inputs(chk, quick):
    rows = export_grid(chk, 64 if quick else 4096)
    ngrid = len(rows)
    cells = bracket_cells(quick)
    t0 = time.time()
    orc = oracle_many([key_of(c) for c in cells])
    for c in cells:
        j = jaccard(c)
        j9 = j * 10 ** 9
        if j9.denominator != 1:
            raise ToolError("bracket cell with J not representable in 1e-9 units")
        rows.append(dict(src="oracle", b=BFRAC[c["b"]], p=orc[key_of(c)], j9=int(j9), regime=in_regime(c),
                         a=repr(c["a"]), q=c["q"], triple=[c["nu"], c["nv"], c["nw"]], shape=c["shape"]))
    log("[C07] bounds inputs: %d grid points exported by TLC, %d oracle collision probabilities (%.1fs)" % (ngrid, len(cells), time.time() - t0))
    return rows, ngrid


def validate_bounds(chk, tf, full):
    v = validate_trace("TraceBounds", tf, chk.wd, constants=dict(Full=full), invariants=["InvReport"], timeout=3000)
    info = v["info"][-1] if v["info"] else None
    if v["accepted"] and info is None:
        raise ToolError("TraceBounds.tla consumed the trace without a report")
    return v, info


def classify(r):
    if r["out"] == "panic":
        return dict(kind="bounds", outcome="panic", cause=r.get("cause", "other"))
    if r["out"] != "ok":
        return dict(kind="bounds", outcome=r["out"])
    if r["lo"] > r["hi"] + 1:
        return dict(kind="bounds", outcome="inverted", src=r["src"])
    if r.get("pure") is False:
        return dict(kind="bounds", outcome="depends-on-earlier-calls", src=r["src"])
    return dict(kind="bounds", outcome="bracket", regime="documented", b=r["b"][0] / r["b"][1])


def bounds(chk, quick, report=True):
    full = 64 if quick else 4096
    rows, ngrid = bounds_inputs(chk, quick)
    fin = os.path.join(chk.wd, "bounds_in.ndjson")
    write_ndjson(fin, rows)
    tf = os.path.join(chk.wd, "bounds_trace.ndjson")
    harness("c07", ["bounds", "in=" + fin, "out=" + tf, "full=1"], timeout=900)
    v, info = validate_bounds(chk, tf, full)
    ev = read_ndjson(tf)
    if not v["accepted"]:
        raise ToolError("TraceBounds.tla did not consume the recorded trace (line %d of %d): the trace is malformed or the "
                        "grid was not replayed completely" % (v["matched"] + 1, v["total"]))
    chk.add("traces_validated_against_impl", 1)
    chk.add("evaluations", len(ev) - 2)
    chk.add("bounds_events", len(ev) - 2)
    chk.cov["bounds_grid_points"] = info["ngrid"]
    chk.cov["exhaustive_bounds_grid"] = True
    nrej = info["nrej"]
    outside = [r for r in ev[1:-1] if r["src"] == "oracle" and not r["regime"] and r["out"] == "ok"
               and not (r["lo"] - 100000 <= r["j9"] <= r["hi"] + 100000)]
    inreg = [r for r in ev[1:-1] if r["src"] == "oracle" and r["regime"]]
    chk.cov["bracket_cells_in_documented_regime"] = len(inreg)
    chk.cov["bracket_false_outside_regime_informational"] = len(outside)
    chk.cov["drift_lo_below_0_or_hi_above_1"] = len(info["drift"])
    chk.add("distinct_nontrivial", sum(1 for r in ev[1:-1] if r["out"] != "ok" or (r["src"] == "oracle" and 0 < r["j9"] < 10 ** 9)))
    for r in inreg[3:5] + [x for x in ev[1:-1] if x["out"] == "panic"][:2] + outside[:1]:
        chk.sample(dict(kind="bounds-event", **r), cap=12)
    by = {}
    for ln in info["rejected"]:
        r = ev[ln - 1]
        tags = classify(r)
        by[json.dumps(tags, sort_keys=True)] = by.get(json.dumps(tags, sort_keys=True), 0) + 1
        if report:
            chk.violation(tags, dict(kind="bounds", input={k: r[k] for k in r if k in ("src", "b", "jac", "p", "j9", "regime", "a", "q", "bi", "mi", "k", "triple", "shape")},
                                     observed=r))
    if nrej > len(info["rejected"]) and report:
        log("[C07] %d further rejected events are not listed (cap)" % (nrej - len(info["rejected"])))
    log("[C07] bounds contract: %d events (%d grid, %d oracle of which %d in the documented regime), rejected by TraceBounds.tla: %d %s; "
        "bracket false outside the regime (informational): %d (%.1fs)" % (
            len(ev) - 2, info["ngrid"], len(ev) - 2 - info["ngrid"], len(inreg), nrej, json.dumps(by), len(outside), v["wall"]))
    return tf, ev, info


# ------------------------------------------------------------------------------------------------

def run(chk):
    build_harness("c07")
    quick = chk.tier == "quick"
    structure(chk, quick)
    discretised_crosscheck(chk)
    bounds(chk, quick)
    frequency(chk, quick)
    chk.cov["rule"] = ("frequency cells = cardinality triple x b x (a,q) x m x register type, per cell N trials with fresh random "
                       "u64 identifiers streamed through two real SetSketchers (non-trivial = oracle strictly between 0.02 and "
                       "0.98); bounds events = complete TLC-exported grid (8 bases x fractions k/m) plus oracle collision "
                       "probabilities of triples with known J (non-trivial = abort, or 0 < J < 1)")
    chk.cov["explanation"] = ("level 'other': the expectation is decided by frequency validation against a numeric oracle that TLA+ "
                              "cannot express (exp, log_b): |mean - oracle| <= empirical-Bernstein radius at delta=min(1e-9, 1e-8/#cells) per cell, "
                              "worst |dev|/radius this run = %.3f; TLC's part: exhaustive structural model of cells/clipping and of the "
                              "event decomposition behind the formula (counting identity for every cell map and support on small "
                              "grids), exact cross-check of the oracle implementation on discretised laws, enumeration of the "
                              "bounds input grid and validation of every replayed call by TraceBounds.tla"
                              % chk.cov.get("worst_dev_over_radius", 0.0))
    chk.assumptions += ["trials are independent (fresh identifiers per trial); registers within a trial need not be",
                        "the numeric oracle (Python decimal, 50 digits) is trusted after the two cross-checks; cells contributing "
                        "less than 1e-30 in total are skipped",
                        "identifiers are random u64 hashed by FnvHasher as in the crate's tests; duplicates (probability < 1e-7 per "
                        "trial) are not removed",
                        "bracket clause only for (a,q) in the documented regime (clip probabilities below 1e-6 for both sets)"]


def replay(chk, path):
    doc = json.load(open(path))
    sc = doc["scenario"]
    build_harness("c07")
    if sc["kind"] == "bounds" and doc.get("tags", {}).get("outcome") == "depends-on-earlier-calls":
        # the result depended on the calls made before it: the whole series of calls is made again (twice, in two orders,
        # as in the check) and the same input is looked up
        rows, ngrid = bounds_inputs(chk, True)
        fin = os.path.join(chk.wd, "replay_in.ndjson")
        write_ndjson(fin, rows)
        tf = os.path.join(chk.wd, "replay_trace.ndjson")
        harness("c07", ["bounds", "in=" + fin, "out=" + tf, "full=1"], timeout=900)
        want = {k: sc["input"].get(k) for k in ("src", "b", "jac", "p")}
        hit = [e for e in read_ndjson(tf)[1:-1] if {k: e.get(k) for k in want} == want]
        bad = any(e.get("pure") is False for e in hit)
        others = sum(1 for e in read_ndjson(tf)[1:-1] if e.get("pure") is False)
        log("the series of %d calls made again: this input %s (%d inputs in all give other bits when asked again in another thread)"
            % (len(rows), "gives other bits when asked again" if bad else "is stable now", others))
        if bad or (not hit and others):
            log("VIOLATION property=C07 replay=%s" % path)
            return 1
        return 0
    if sc["kind"] == "bounds":
        fin = os.path.join(chk.wd, "one_in.ndjson")
        write_ndjson(fin, [sc["input"]])
        tf = os.path.join(chk.wd, "one_trace.ndjson")
        harness("c07", ["bounds", "in=" + fin, "out=" + tf, "full=0"])
        v, info = validate_bounds(chk, tf, 4096)     # Full = 4096 accepts the grid points of both tiers
        ev = read_ndjson(tf)
        log("replayed: %s" % json.dumps(ev[1]))
        bad = (not v["accepted"]) or info["nrej"] > 0
        log("TraceBounds.tla: consumed=%s rejected=%s" % (v["accepted"], info["rejected"] if info else None))
        if bad:
            log("VIOLATION property=C07 replay=%s" % path)
        return 1 if bad else 0
    c = sc["cell"]
    orc = oracle_many([key_of(c)])
    cin = os.path.join(chk.wd, "one_cell.json")
    json.dump(dict(cells=[c]), open(cin, "w"))
    fout = os.path.join(chk.wd, "one_freq.json")
    harness("c07", ["freq", "in=" + cin, "out=" + fout, "seed=%d" % sc["seed"]], timeout=7200)
    f = json.load(open(fout))["cells"][0]
    p = float(orc[key_of(c)])
    n, mean, var = stats.hist_moments(f["hist"], c["m"])
    eps = stats.bernstein_radius(n, var, DELTA)
    log("cell %s: oracle %.6f mean %.6f radius %.6f trials %d panics %d" % (json.dumps(c), p, mean, eps, n, f["panics"]))
    bad = f["panics"] > 0 or abs(mean - p) > eps
    if bad:
        log("VIOLATION property=C07 replay=%s" % path)
    return 1 if bad else 0


def selftest(chk):
    build_harness("c07")
    ok = True
    env = {"C07_GIVEN": dummy_given(chk)}
    # 1. mutants of the formula must be refuted by TLC
    for mut in ("dropclip", "dropzero", "t2closed"):
        cfg = write_cfg(os.path.join(chk.wd, "coll_mut_%s.cfg" % mut),
                        constants=dict(G=4, Q=2, Mode='"maps"', E=1, Mut='"%s"' % mut), invariants=["InvCount"])
        tlc_check("Collision", cfg, chk.wd, expect_violation="InvCount", timeout=900, env=env, xss=True)
        log("[C07 selftest] Collision.tla with the formula mutant %s: InvCount refuted by TLC" % mut)
    bad, n = discretised_crosscheck(chk, mutate=True)
    log("[C07 selftest] a driver formula off by one triple in cell 0 is detected against TLC's counts on %d/%d configurations" % (bad, n))
    ok &= bad == n
    # 2. bounds trace: corrupted field, panic event, removed event
    tf, ev, info = bounds(chk, True, report=False)
    base = set(info["rejected"])
    oks = [i for i, r in enumerate(ev) if r.get("op") == "bounds" and r["out"] == "ok" and (i + 1) not in base]

    def variant(name, rows, want_line=None, want_unconsumed=False):
        f = os.path.join(chk.wd, "st_%s.ndjson" % name)
        write_ndjson(f, rows)
        v, inf = validate_bounds(chk, f, 64)
        if want_unconsumed:
            hit = not v["accepted"]
            log("[C07 selftest] %s: trace not consumed (stops at line %d): %s" % (name, v["matched"] + 1, hit))
        else:
            new = set(inf["rejected"]) - base if inf else set()
            hit = v["accepted"] and new == {want_line}
            log("[C07 selftest] %s: newly rejected lines %s, expected {%d}: %s" % (name, sorted(new), want_line, hit))
        return hit
    i1 = oks[len(oks) // 3]
    r1 = [dict(r) for r in ev]
    r1[i1]["lo"] = r1[i1]["hi"] + 5
    ok &= variant("lo-above-hi", r1, want_line=i1 + 1)
    i2 = oks[len(oks) // 2]
    r2 = [dict(r) for r in ev]
    r2[i2]["out"] = "panic"
    ok &= variant("panic-event", r2, want_line=i2 + 1)
    inr = [i for i in oks if ev[i]["src"] == "oracle" and ev[i]["regime"] and 0 < ev[i]["j9"] < 10 ** 9]
    i3 = inr[len(inr) // 2]
    r3 = [dict(r) for r in ev]
    r3[i3]["j9"] = r3[i3]["hi"] + 100002
    ok &= variant("J-outside-interval", r3, want_line=i3 + 1)
    i4 = [i for i in oks if ev[i]["src"] == "grid"][7]
    r4 = ev[:i4] + ev[i4 + 1:]
    r4[-1] = dict(r4[-1], n=r4[-1]["n"] - 1)
    ok &= variant("grid-point-skipped", r4, want_unconsumed=True)
    # 3. oracle against the simulation of the model: a wrong rate must be detected
    keys = [(1, 1, 1, 2.0, 1.0, 2, 1.0), (1000, 1000, 1000, 2.0, 20.0, 60, 1.0), (2, 1, 3, 1.5, 20.0, 100, 1.0)]
    orc = oracle_many(keys)
    bad0, w0 = simulate_model(chk, keys, orc, 1000000, tag="st_sim")
    bad1, w1 = simulate_model(chk, keys, orc, 1000000, scale_of=lambda k: 1.3, tag="st_sim_wrong")
    hit = (not bad0) and len(bad1) >= 1
    log("[C07 selftest] oracle vs model simulation: correct rates agree (worst %.2f radii); rates scaled by 1.3 in the simulation "
        "detected on %d/%d cells (worst %.1f radii): %s" % (w0, len(bad1), len(keys), w1, hit))
    ok &= hit
    # 4. the acceptance rule rejects a shifted oracle on real sketches
    c = dict(id=0, shape="tiny-1/1/1", nu=1, nv=1, nw=1, b=2.0, a=20.0, q=60, m=16, reg="u16", trials=40000)
    cin = os.path.join(chk.wd, "st_cell.json")
    json.dump(dict(cells=[c]), open(cin, "w"))
    fout = os.path.join(chk.wd, "st_freq.json")
    harness("c07", ["freq", "in=" + cin, "out=" + fout, "seed=%d" % chk.seed])
    f = json.load(open(fout))["cells"][0]
    n, mean, var = stats.hist_moments(f["hist"], 16)
    eps = stats.bernstein_radius(n, var, DELTA)
    wrong = dict(c, b=1.5)
    o2 = oracle_many([key_of(c), key_of(wrong)])
    p, pw = float(o2[key_of(c)]), float(o2[key_of(wrong)])
    hit = abs(mean - p) <= eps and abs(mean - pw) > eps
    log("[C07 selftest] frequency rule: mean %.4f radius %.4f: oracle %.4f accepted, oracle of b=1.5 (%.4f) rejected: %s" % (mean, eps, p, pw, hit))
    ok &= hit
    return 0 if ok else 2
