"""Shared driver machinery: build, TLC runner, trace validation, evidence, verdicts."""
import hashlib
import json
import os
import re
import shutil
import subprocess
import sys
import time

ROOT = os.path.dirname(os.path.dirname(os.path.abspath(__file__)))
SPEC = os.path.join(ROOT, "spec")
WORK = os.path.join(ROOT, "work")
HARNESS = os.path.join(ROOT, "harness")
BINDIR = os.path.join(HARNESS, "target", "release")
EVID = os.path.join(ROOT, "evidence")
REPLAYS = os.path.join(ROOT, "replays")
NCPU = os.cpu_count() or 4


class ToolError(Exception):
    """the tooling failed (exit 2): never a verdict about the code"""


def log(*a):
    print(*a, flush=True)


def workdir(pid, clean=True):
    d = os.path.join(WORK, pid)
    if clean and os.path.isdir(d):
        shutil.rmtree(d, ignore_errors=True)
    os.makedirs(d, exist_ok=True)
    return d


def run(cmd, timeout=600, env=None, cwd=None, ok=(0,), capture=True):
    e = dict(os.environ)
    if env:
        e.update(env)
    t0 = time.time()
    try:
        p = subprocess.run(cmd, cwd=cwd, env=e, timeout=timeout,
                           stdout=subprocess.PIPE if capture else None,
                           stderr=subprocess.STDOUT if capture else None,
                           text=True, errors="replace")
    except subprocess.TimeoutExpired as ex:
        raise ToolError("timeout after %ss: %s" % (timeout, " ".join(cmd[:6]))) from ex
    out = p.stdout or ""
    if ok is not None and p.returncode not in ok:
        raise ToolError("command failed (%d): %s\n%s" % (p.returncode, " ".join(cmd[:8]), out[-3000:]))
    return p.returncode, out, time.time() - t0


_built = set()


def build_harness(binname):
    """rebuild one harness binary against /repo's current working tree (cargo decides what is stale)"""
    if binname in _built:
        return os.path.join(BINDIR, binname)
    lock_src = "/repo/Cargo.lock"
    lock_dst = os.path.join(HARNESS, "Cargo.lock")
    if not os.path.exists(lock_dst) and os.path.exists(lock_src):
        shutil.copy(lock_src, lock_dst)
    env = {"CARGO_NET_OFFLINE": "true"}
    rc, out, dt = run(["cargo", "build", "--release", "--offline", "--bin", binname], cwd=HARNESS, timeout=1800,
                      env=env, ok=None)
    if rc != 0:
        raise ToolError("harness build failed:\n" + out[-4000:])
    log("[build] harness binary %s up to date (%.1fs)" % (binname, dt))
    _built.add(binname)
    return os.path.join(BINDIR, binname)


def harness(binname, args, timeout=1800, env=None, ok=(0,)):
    """run a harness binary (built from harness/src/bin/<binname>.rs); returns (rc, stdout)"""
    b = build_harness(binname)
    rc, out, dt = run([b] + [str(a) for a in args], timeout=timeout, env=env, ok=ok)
    return rc, out


# ----------------------------------------------------------------------------------------------
# TLC

TLC_CP = "/opt/veriftools/tla/tla2tools.jar:/opt/veriftools/tla/CommunityModules-deps.jar"


def write_cfg(path, constants=None, spec="Spec", invariants=(), properties=(), view=None,
              action_constraints=(), constraints=(), postcondition=None, deadlock=False, init=None, nxt=None,
              symmetry=None, raw=""):
    lines = []
    if constants:
        lines.append("CONSTANTS")
        for k, v in constants.items():
            if isinstance(v, bool):
                v = "TRUE" if v else "FALSE"
            lines.append("  %s = %s" % (k, v))
    if init:
        lines.append("INIT %s" % init)
        lines.append("NEXT %s" % nxt)
    else:
        lines.append("SPECIFICATION %s" % spec)
    if view:
        lines.append("VIEW %s" % view)
    if symmetry:
        lines.append("SYMMETRY %s" % symmetry)
    if invariants:
        lines.append("INVARIANTS " + " ".join(invariants))
    if properties:
        lines.append("PROPERTIES " + " ".join(properties))
    if constraints:
        lines.append("CONSTRAINTS " + " ".join(constraints))
    if action_constraints:
        lines.append("ACTION_CONSTRAINTS " + " ".join(action_constraints))
    if postcondition:
        lines.append("POSTCONDITION %s" % postcondition)
    lines.append("CHECK_DEADLOCK %s" % ("TRUE" if deadlock else "FALSE"))
    if raw:
        lines.append(raw)
    with open(path, "w") as f:
        f.write("\n".join(lines) + "\n")
    return path


class TlcResult:
    def __init__(self, rc, out, wall):
        self.rc = rc
        self.out = out
        self.wall = wall
        m = re.search(r"(\d+) states generated, (\d+) distinct states found", out)
        self.generated = int(m.group(1)) if m else 0
        self.distinct = int(m.group(2)) if m else 0
        m = re.search(r"depth of the complete state graph search is (\d+)", out)
        self.depth = int(m.group(1)) if m else 0
        self.no_error = "Model checking completed. No error has been found." in out
        self.invariant_violated = re.findall(r"Invariant (\w+) is violated", out)
        self.property_violated = ("Temporal properties were violated" in out) or bool(
            re.search(r"Action property \w+ is violated", out))
        self.postcondition_failed = "Evaluating postcondition" in out or "Postcondition" in out and "violated" in out
        self.printed = re.findall(r'^<<"(\w+)", (.*)>>$', out, flags=re.M)

    def coverage_zero_actions(self):
        """names of actions that TLC reports as never taken (needs -coverage)"""
        zero = []
        # TLC prints interim coverage every minute of a long run: only the last block is the final count
        pos = self.out.rfind("The coverage statistics at")
        text = self.out[pos:] if pos >= 0 else self.out
        for m in re.finditer(r"^<(\w+) line \d+, col \d+ to line \d+, col \d+ of module (\w+)>: (\d+):(\d+)", text, flags=re.M):
            if int(m.group(3)) == 0 and int(m.group(4)) == 0:
                zero.append(m.group(1))
        return zero

    def printed_json(self, tag):
        res = []
        for t, body in self.printed:
            if t == tag:
                body = body.strip()
                # body is a TLA+ string literal holding JSON
                if body.startswith('"'):
                    body = json.loads(body)
                res.append(json.loads(body))
        return res


def tlc(module, cfg, wd, workers=None, timeout=900, env=None, coverage=False, extra=(), xss=False, deque=False,
        xmx="8g", simulate=None, ok_rc=(0,)):
    """run TLC on spec/<module>.tla with config file cfg; raises ToolError on unexpected exit codes"""
    meta = os.path.join(wd, "meta_%s_%d" % (module, int(time.time() * 1000) % 10 ** 9))
    jopts = ["-XX:+UseParallelGC", "-Xmx" + xmx]
    if xss:
        jopts.append("-Xss1g")
    if deque:
        jopts.append("-Dtlc2.tool.queue.IStateQueue=StateDeque")
    cmd = ["java"] + jopts + ["-cp", TLC_CP, "tlc2.TLC"]
    if simulate:
        cmd += ["-simulate", simulate]
    cmd += ["-workers", str(workers or min(NCPU, 8)), "-metadir", meta, "-cleanup", "-noGenerateSpecTE"]
    if coverage:
        cmd += ["-coverage", "1"]
    cmd += list(extra)
    cmd += ["-config", cfg, os.path.join(SPEC, module + ".tla")]
    rc, out, dt = run(cmd, timeout=timeout, env=env, ok=None, cwd=SPEC)
    shutil.rmtree(meta, ignore_errors=True)
    res = TlcResult(rc, out, dt)
    if ok_rc is not None and rc not in ok_rc:
        raise ToolError("TLC failed on %s (%d):\n%s" % (module, rc, out[-4000:]))
    return res


def tlc_check(module, cfg, wd, expect_violation=None, **kw):
    """model-check; if expect_violation is a name, TLC must report that invariant/property violated
    (anti-vacuity); otherwise it must finish without error.  Anything else is a tool error."""
    res = tlc(module, cfg, wd, ok_rc=None, **kw)
    if expect_violation is None:
        if res.rc != 0 or not res.no_error:
            raise ToolError("specification %s does not satisfy its own properties (design error, not a code "
                            "violation):\n%s" % (module, res.out[-4000:]))
    else:
        hit = (expect_violation in res.invariant_violated) or (res.property_violated and res.rc != 0) or \
              (expect_violation in res.out and res.rc != 0)
        if res.rc == 0 or not hit:
            raise ToolError("anti-vacuity: %s with the deviation enabled should violate %s but TLC said rc=%d\n%s"
                            % (module, expect_violation, res.rc, res.out[-2000:]))
    return res


def validate_trace(module, tracefile, wd, timeout=900, constants=None, invariants=(), xmx="4g"):
    """trace validation: TLC must consume every line of the ndjson trace.
    returns dict(accepted, matched, total, out)"""
    cfg = os.path.join(wd, module + "_" + os.path.basename(tracefile) + ".cfg")
    write_cfg(cfg, constants=constants, spec="TraceSpec", invariants=invariants, postcondition="TraceAccepted")
    res = tlc(module, cfg, wd, workers=1, timeout=timeout, env={"TRACE": os.path.abspath(tracefile)},
              xss=True, deque=True, xmx=xmx, ok_rc=None)
    total = sum(1 for _ in open(tracefile))
    info = res.printed_json("TRACEINFO")
    m = re.search(r'<<"TRACE-REJECT", (\d+), (\d+)>>', res.out)
    accepted = (res.rc == 0 and res.no_error)
    matched = total
    if m:
        matched = int(m.group(1))
        accepted = False
    elif not accepted:
        if res.invariant_violated:
            # an invariant of the trace spec failed on a consumed prefix
            mm = re.findall(r"/\\ l = (\d+)", res.out)
            matched = int(mm[-1]) - 1 if mm else 0
        else:
            raise ToolError("trace validation of %s failed without a verdict:\n%s" % (tracefile, res.out[-4000:]))
    return dict(accepted=accepted, matched=matched, total=total, out=res.out, wall=res.wall,
                generated=res.generated, distinct=res.distinct, info=info,
                invariant=res.invariant_violated)


# ----------------------------------------------------------------------------------------------
# verdicts, evidence, known findings

def load_known():
    res = []
    p = os.path.join(ROOT, "known_findings.json")
    if os.path.exists(p):
        res += json.load(open(p)).get("findings", [])
    d = os.path.join(ROOT, "known_findings.d")
    if os.path.isdir(d):
        for fn in sorted(os.listdir(d)):
            if fn.endswith(".json"):
                res += json.load(open(os.path.join(d, fn))).get("findings", [])
    return res


def known_match(pid, tags):
    """a violation is identified by a dict of tags; a known finding matches when all of its `match` entries are
    equal to the violation's tags (entries whose status is not 'open' suppress nothing)"""
    for f in load_known():
        if f.get("property") != pid or f.get("status") != "open":
            continue
        mt = f.get("match", {})
        if all(tags.get(k) == v for k, v in mt.items()):
            return f
    return None


class Check:
    def __init__(self, pid, level, tier, seed):
        self.pid = pid
        self.level = level
        self.tier = tier
        self.seed = seed
        self.t0 = time.time()
        self.violations = []
        self.known = {}
        self.cov = dict(evaluations=0, distinct_nontrivial=0, rule="", samples=[], states=0, transitions=0,
                        traces_validated_against_impl=0, explanation="")
        self.assumptions = []
        self.wd = workdir(pid)
        self.notes = []

    def add(self, key, n):
        self.cov[key] = self.cov.get(key, 0) + n

    def sample(self, s, cap=6):
        if len(self.cov["samples"]) < cap:
            self.cov["samples"].append(s)

    def tlc_stats(self, res):
        self.cov["states"] += res.distinct
        self.cov["transitions"] += res.generated

    def violation(self, tags, replay):
        """tags: dict identifying the failing input; replay: json-serialisable scenario"""
        kf = known_match(self.pid, tags)
        if kf is not None:
            key = kf.get("id", json.dumps(kf.get("match"), sort_keys=True))
            if key not in self.known:
                self.known[key] = [kf, 0]
            self.known[key][1] += 1
            return False
        h = hashlib.sha1(json.dumps(replay, sort_keys=True, default=str).encode()).hexdigest()[:12]
        d = os.path.join(REPLAYS, self.pid)
        os.makedirs(d, exist_ok=True)
        path = os.path.join(d, "%s.json" % h)
        if len(self.violations) < 20:
            with open(path, "w") as f:
                json.dump(dict(property=self.pid, tags=tags, scenario=replay), f, indent=1, default=str)
            log("VIOLATION property=%s replay=%s" % (self.pid, path))
        self.violations.append((tags, path))
        return True

    def finish(self):
        for key, (kf, n) in self.known.items():
            log("KNOWN-FINDING: property=%s %s (%d occurrence(s) this run)" % (self.pid, kf.get("what", key), n))
        self.cov["known_findings_seen"] = {k: v[1] for k, v in self.known.items()}
        if self.notes:
            self.cov["notes"] = self.notes
        ev = dict(property_id=self.pid, tier=self.tier, seed=self.seed, level=self.level, coverage=self.cov,
                  assumptions=self.assumptions, wall_s=round(time.time() - self.t0, 2),
                  violations=len(self.violations))
        os.makedirs(EVID, exist_ok=True)
        with open(os.path.join(EVID, self.pid + ".json"), "w") as f:
            json.dump(ev, f, indent=1, default=str)
        log("[%s] tier=%s seed=%d wall=%.1fs evaluations=%d nontrivial=%d states=%d traces=%d violations=%d" % (
            self.pid, self.tier, self.seed, ev["wall_s"], self.cov["evaluations"], self.cov["distinct_nontrivial"],
            self.cov["states"], self.cov["traces_validated_against_impl"], len(self.violations)))
        return 1 if self.violations else 0


def read_ndjson(path):
    return [json.loads(l) for l in open(path) if l.strip()]


def write_ndjson(path, rows):
    with open(path, "w") as f:
        for r in rows:
            f.write(json.dumps(r) + "\n")
