"""ProbOrdMinHash2: shared by C10, C11, C13 (harness bin `om`, TraceOrd.tla, OrdMinHash.tla, OrdOracle.tla)"""
import itertools
import json
import os
import random
from common import *


def model_check(chk, quick):
    confs = [dict(M=2, L=1, N=3, B=2), dict(M=2, L=2, N=3, B=2)] if quick else \
        [dict(M=2, L=1, N=3, B=2), dict(M=2, L=2, N=3, B=2), dict(M=3, L=1, N=3, B=3), dict(M=2, L=1, N=4, B=2),
         dict(M=2, L=2, N=4, B=2)]
    tot = 0
    for n, c in enumerate(confs):
        cc = dict(c)
        cc["BreakOnReject"] = False
        cfg = write_cfg(os.path.join(chk.wd, "omh_%d.cfg" % n), constants=cc, invariants=["SelectionIsLSmallest", "StoreBounded"])
        res = tlc_check("OrdMinHash", cfg, chk.wd, workers=8, timeout=1500, xss=True)
        chk.tlc_stats(res)
        tot += res.distinct
    cc = dict(M=2, L=1, N=3, B=2, BreakOnReject=True)
    cfg = write_cfg(os.path.join(chk.wd, "omh_dev.cfg"), constants=cc, invariants=["SelectionIsLSmallest", "StoreBounded"])
    tlc_check("OrdMinHash", cfg, chk.wd, workers=4, timeout=600, xss=True, expect_violation="SelectionIsLSmallest")
    chk.cov.setdefault("layer_b", {})["OrdMinHash"] = dict(distinct_states=tot, deviations_refuted=["BreakOnReject"])
    log("[%s] OrdMinHash.tla: %d distinct states, selection = L smallest for every table and order; BreakOnReject refuted" % (chk.pid, tot))


def all_sequences(alphabet, length):
    """all sequences = all permutations of all multisets of that size"""
    return [list(s) for s in itertools.product(range(1, alphabet + 1), repeat=length)]


def record_and_validate(chk, cases, label, seed=None, max_rounds=8):
    """cases: list of dict(m, l, seqs); every seq of a case is hashed by the same instance, in order"""
    inp = os.path.join(chk.wd, "ord_%s_in.json" % label)
    json.dump(dict(cases=cases), open(inp, "w"))
    tf = os.path.join(chk.wd, "trace_ord_%s.ndjson" % label)
    harness("om", ["record", "in=" + inp, "out=" + tf, "seed=%d" % (chk.seed if seed is None else seed)], timeout=1500)
    rows = read_ndjson(tf)
    nruns = sum(1 for r in rows if r.get("op") == "new")
    nev = sum(1 for r in rows if r.get("op") == "hs")
    chk.add("traces_validated_against_impl", nruns)
    chk.add("trace_events", nev)
    chk.add("evaluations", nev)
    chk.add("distinct_nontrivial", sum(1 for r in rows if r.get("op") == "hs" and r.get("out") == "ok"
                                       and len(set(tuple(s) for s in r.get("sel", []))) >= 2))
    untabled = sum(1 for r in rows if r.get("op") == "untabled")
    if untabled:
        chk.notes.append("%s: %d runs skipped because a pair table could not be measured" % (label, untabled))
        bad_runs = set(r["run"] for r in rows if r.get("op") == "untabled")
        rows = [r for r in rows if r.get("run") not in bad_runs]
        write_ndjson(tf, rows)
    cur = tf
    rejected = 0
    wall = 0
    while True:
        v = validate_trace("TraceOrd", cur, chk.wd, timeout=1500)
        wall += v["wall"]
        if v["accepted"]:
            break
        rejected += 1
        rws = read_ndjson(cur)
        bad = rws[v["matched"]]
        run = bad.get("run")
        hd = [r for r in rws if r.get("op") == "new" and r.get("run") == run]
        evs = [r for r in rws if r.get("run") == run and r.get("op") != "new"]
        h = hd[0] if hd else {}
        what = "panic" if bad.get("out") == "panic" else ("unsorted" if bad.get("sorted") is False else (
            "signature" if bad.get("sigeq") and not all(bad["sigeq"]) else "selection"))
        reps = any(p[1] > 1 for p in h.get("pairs", []) if p[0] in set(h["pairs"][i - 1][0] for i in bad.get("order", [])))
        chk.violation(dict(kind="ord", what=what, l=h.get("l"), where=label),
                      dict(kind="ord-trace", label=label, header=h, events=evs, rejected_event=bad))
        if rejected >= max_rounds:
            chk.notes.append("%s: more than %d rejected runs, remainder not examined" % (label, max_rounds))
            break
        cur = os.path.join(chk.wd, "rest_%d_%s" % (rejected, os.path.basename(tf)))
        write_ndjson(cur, [r for r in rws if r.get("run") != run])
    for r in rows[1:]:
        if r.get("op") == "hs":
            chk.sample(dict(label=label, **r), cap=8)
            break
    log("[%s] %s: %d hash_set calls in %d runs, %d run(s) rejected (%.1fs TLC)" % (chk.pid, label, nev, nruns, rejected, wall))
    return rejected


def capped_sequence(rnd, n, alpha, maxmult=14):
    """n symbols out of 1..alpha, none more than maxmult times (the pair tables are measured with l' = multiplicity < 16)"""
    alpha = max(alpha, n // maxmult + 1)
    seq, cnt = [], {}
    while len(seq) < n:
        e = rnd.randint(1, alpha)
        if cnt.get(e, 0) < maxmult:
            cnt[e] = cnt.get(e, 0) + 1
            seq.append(e)
    return seq


def c11_cases(chk, quick):
    rnd = random.Random(chk.seed)
    cases = []
    # every permutation of every multiset over 3 symbols, length 3 (27 sequences) and length 4 (81)
    s3 = all_sequences(3, 3)
    s4 = all_sequences(3, 4)
    for m in ([1, 2, 3, 4] if quick else [1, 2, 3, 4, 5, 8]):
        for l in (1, 2, 3):
            cases.append(dict(m=m, l=l, seqs=s3))
    for m in ([1, 2, 3, 5, 8] if quick else [1, 2, 3, 4, 6, 8, 16]):
        for l in ([1, 2, 3] if quick else [1, 2, 3, 4]):
            cases.append(dict(m=m, l=l, seqs=s4))
    s5 = all_sequences(2, 5) + (all_sequences(3, 5) if not quick else all_sequences(3, 5)[::2])
    s6 = all_sequences(2, 6) + ([] if quick else all_sequences(3, 6)[::5])
    for m in ((2, 4) if quick else (2, 3, 4, 7)):
        for l in ((1, 2, 3) if quick else (1, 2, 3, 5)):
            cases.append(dict(m=m, l=l, seqs=s5))
            cases.append(dict(m=m, l=l, seqs=s6))
    # random larger sequences with all their rotations and a few shuffles (n <= 60, alphabet 2..30)
    for _ in range(150 if quick else 600):
        alpha = rnd.randint(2, 30)
        maxmult = 14
        n = rnd.randint(4, min(60, alpha * maxmult))
        seq = []
        cnt = {}
        while len(seq) < n:
            e = rnd.randint(1, alpha)
            if cnt.get(e, 0) < maxmult:
                seq.append(e)
                cnt[e] = cnt.get(e, 0) + 1
        seqs = [seq]
        for _ in range(6):
            s = list(seq)
            rnd.shuffle(s)
            seqs.append(s)
        seqs.append(list(reversed(seq)))
        # every block length the store accepts (l < 16), not only the small ones
        cases.append(dict(m=rnd.choice([1, 2, 3, 5, 16, 64]), l=rnd.choice([x for x in (1, 2, 3, 4, 5, 6, 7, 8, 11, 15) if x <= n]) if n >= 5 else 1,
                          seqs=seqs))
    # hasher / element-label variety: the crate's identity hasher with small consecutive integers
    for i, c in enumerate(cases):
        if i % 4 == 1:
            c["hasher"] = "nohash"
            c["elems"] = "small"
        elif i % 4 == 2:
            c["elems"] = "small"
        elif i % 4 == 3:
            c["hasher"] = "ident"          # a true identity hasher: hashes are neighbouring small integers
            c["elems"] = "small" if i % 8 == 3 else "sentinel"   # ... or the extreme 64-bit values (0, 2^64-1, 2^63, ...)
    # 4-byte elements behind the crate's identity hasher, labels in byte-structured pairs
    for i, c in enumerate(cases):
        if i % 16 == 5:
            c["hasher"] = "nohash32"
            c["elems"] = "paired32"
    # sketch sizes beyond one byte (and, thorough, beyond two bytes) on a few random sequences
    # sequences of a few thousand elements (buffers, block-wise processing) with a small sketch
    for k in range(2 if quick else 6):
        n = rnd.randint(4200, 5200) if k % 2 == 0 else rnd.randint(8300, 9000)   # beyond 2^12 and beyond 2^13 elements
        alpha = n // rnd.randint(2, 4)
        seq, cnt = [], {}
        while len(seq) < n:                       # multiplicities stay below 15 (the tables are measured with l' = multiplicity < 16)
            e = rnd.randint(1, alpha)
            if cnt.get(e, 0) < 14:
                cnt[e] = cnt.get(e, 0) + 1
                seq.append(e)
        s2 = list(seq)
        rnd.shuffle(s2)
        cases.append(dict(m=rnd.choice([2, 4]), l=rnd.choice([1, 2]), seqs=[seq, s2]))
    # (the recorded tables grow with m x pairs: the largest sizes get short sequences over 3 symbols)
    for mm in ([300, 1000] if quick else [257, 300, 1000, 5000, 70000]):
        for _ in range(2 if mm <= 1000 else 1):
            n = rnd.randint(20, 60) if mm <= 1000 else rnd.randint(5, 8)
            seq = capped_sequence(rnd, n, 12 if mm <= 1000 else 3)
            s2 = list(seq)
            rnd.shuffle(s2)
            cases.append(dict(m=mm, l=rnd.choice([1, 2]), seqs=[seq, s2, list(reversed(seq))]))
    return cases


def c13_part(chk, quick):
    """self-clearing hash_set: sequences of different lengths/multiplicities one after the other on one instance"""
    build_harness("om")
    rnd = random.Random(chk.seed + 13)
    cases = []
    for _ in range(20 if quick else 200):
        seqs = []
        for _ in range(rnd.randint(2, 4)):
            n = rnd.randint(3, 12)
            alpha = rnd.randint(1, 4)
            seqs.append([rnd.randint(1, alpha) for _ in range(n)])
        cases.append(dict(m=rnd.choice([1, 2, 3, 4, 8]), l=rnd.choice([1, 2, 3]), seqs=seqs))
    # a long sequence with many distinct elements first, then short ones that share elements with it (state sized by the
    # earlier call must not leak: counters, buffers, capacities)
    for _ in range(4 if quick else 30):
        big = list(range(1, rnd.randint(200, 600)))
        rnd.shuffle(big)
        seqs = [big]
        for _ in range(3):
            n = rnd.randint(3, 10)
            seqs.append([rnd.choice(big[:40]) for _ in range(n)])
        seqs.append(big[:50])
        cases.append(dict(m=rnd.choice([2, 4, 16]), l=rnd.choice([1, 2, 3]), seqs=seqs))
    return record_and_validate(chk, cases, "c13-selfclearing", seed=chk.seed + 13)


def replay_one(chk, path, pid):
    sc = json.load(open(path))["scenario"]
    if sc.get("kind") != "ord-trace":
        return None
    tf = os.path.join(chk.wd, "one.ndjson")
    write_ndjson(tf, [dict(kind="ord"), sc["header"]] + sc["events"])
    v = validate_trace("TraceOrd", tf, chk.wd)
    log("recorded run re-validated by TLC: accepted=%s (first unmatched event index %d)" % (v["accepted"], v["matched"]))
    if not v["accepted"]:
        log("VIOLATION property=%s replay=%s" % (pid, path))
    return 0 if v["accepted"] else 1
