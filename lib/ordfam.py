"""ProbOrdMinHash2: shared by C10, C11, C13 (filled in later)"""
from common import *


def c13_part(chk, quick):
    chk.notes.append("ProbOrdMinHash2 self-clearing hash_set: see C11 (earlier hash_set calls on the same instance)")
