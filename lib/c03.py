"""C03 - SuperMinHash and SuperMinHash2 estimate the Jaccard index without bias"""
import json
import math
import os
from common import *
import freqfam
import joinfam
import stats

LEVEL = "other"
MANIFEST = dict(
    category="other",
    text="L1: SuperMinHashCount.tla - TLC counts over the whole probability space of the ideal design (all permutations per "
         "item x all strict rankings of the fractional parts) for (m, n) in {(2,2), (2,3), (3,2)} and checks exactly, for "
         "every overlap pattern, unbiasedness and MSE <= J(1-J)/m. L2: SuperMinHash.tla / SuperMinHash2.tla show the "
         "implementation computes the position-wise minimum of single-item tables (model-checked), and recorded runs are "
         "validated by TLC against measured tables (sample here, full in C04/C05). L3 frequency validation: per cell (7 "
         "sketcher kinds f32/f64/u32/u64 x FNV/no-op/xxhash32 x m in {1,2,3,8,64} x shapes disjoint/nested/equal/1-vs-1000/"
         "m > n) mean within the empirical-Bernstein radius (delta=1e-9) of J and MSE below J(1-J)/m; primitive law of a "
         "single-item SuperMinHash sketch: integer parts always a permutation, each permutation equally frequent (m <= 4), "
         "fractional parts uniform (DKW) and pairwise independent (4x4 joint cells)."
         " Cells also run both sets through one sketcher object reused with reinit, and the primitive law is checked up to m = 4096 (integer parts of f32 sketches).",
    design_ref="DESIGN.md section 2.6 and section 4, C03",
    note="statistical test for L3: effects below the radii are invisible; false-alarm probability <= 1e-9 per cell; L1 is "
         "exact but only for the three tiny sizes",
    technique="TLC exact counting on the ideal-randomness specification + TLC trace validation + frequency validation (empirical Bernstein, Hoeffding, DKW)",
)

KINDS = ["smh_f64_fnv", "smh_f32_fnv", "smh_f64_no", "smh_f32_no", "smh2_u64_fnv", "smh2_u64_no", "smh2_u32_xx"]
FLOAT_KINDS = ["smh_f64_fnv", "smh_f32_fnv", "smh_f64_no", "smh_f32_no"]


def shapes():
    # groups [count, in A, in B]
    return [
        ("disjoint", [[5, 1, 0], [7, 0, 1]], 0.0),
        ("nested", [[10, 1, 1], [30, 0, 1]], 0.25),
        ("equal", [[9, 1, 1]], 1.0),
        ("overlap", [[3, 1, 0], [3, 0, 1], [4, 1, 1]], 0.4),
        ("1-vs-1000", [[1, 1, 1], [999, 0, 1]], 0.001),
        ("two-items", [[1, 1, 1], [1, 0, 1]], 0.5),
        ("repo-ranges", [[300, 1, 0], [700, 1, 1], [1000, 0, 1]], 0.35),
    ]


def trials_for(m, n, quick):
    base = {1: 300000, 2: 300000, 3: 300000, 8: 150000, 64: 20000}[m]
    if n > 500:
        base //= 20
    elif n > 30:
        base //= 3
    return base if quick else base * 6


def run(chk):
    build_harness("fq")
    quick = chk.tier == "quick"
    # ---- L1 exact counting
    sizes = [(2, 2), (2, 3)] if quick else [(2, 2), (2, 3), (3, 2)]
    npat = 0
    for (m, n) in sizes:
        cfg = write_cfg(os.path.join(chk.wd, "count_%d_%d.cfg" % (m, n)), constants=dict(M=m, N=n), init="Init", nxt="Next")
        res = tlc("SuperMinHashCount", cfg, chk.wd, workers=1, timeout=2400, xss=True, ok_rc=None)
        if res.rc != 0 or not res.no_error:
            raise ToolError("SuperMinHashCount M=%d N=%d: the counting identities do not hold on the ideal design:\n%s" % (m, n, res.out[-2000:]))
        rows = res.printed_json("COUNT")
        npat += len(rows)
        chk.tlc_stats(res)
        chk.sample(dict(kind="exact-count", m=m, n=n, **rows[len(rows) // 2]), cap=3)
    chk.cov["exact_count_patterns"] = npat
    log("[C03] SuperMinHashCount.tla: %d overlap patterns over %s counted exactly: unbiased, MSE <= J(1-J)/m" % (npat, sizes))
    # ---- L2 sample
    build_harness("sk")
    import layerb
    layerb.check_sketch_specs(chk, ["SuperMinHash", "SuperMinHash2"], True, with_mutants=False)
    joinfam.random_join(chk, KINDS, "L2-sample", runs=3 if quick else 10, length=60, nitems=40, ms=[1, 2, 3, 8])
    # ---- L3 pairs
    cells = []
    for name, groups, j in shapes():
        n = sum(g[0] for g in groups)
        for kind in KINDS:
            for m in (1, 2, 3, 8, 64):
                cells.append(dict(kind=kind, m=m, groups=groups, shape=name, oracle=j, trials=trials_for(m, n, quick)))
    # the same cells through ONE sketcher object reused with reinit between the two sets (as the crate's own tests do)
    for name, groups, j in shapes():
        if name in ("nested", "overlap", "two-items", "1-vs-1000"):
            n = sum(g[0] for g in groups)
            for kind in KINDS:
                for m in (3, 16, 64):
                    cells.append(dict(kind=kind, m=m, groups=groups, shape=name + "+reuse", oracle=j, reuse=True,
                                      trials=trials_for(8 if m < 64 else 64, n, quick)))
    # identity hashers (both private copies, 8-byte and 4-byte items): pairs of identifiers that differ by two swapped
    # bytes must still be two items
    for name, groups, j in shapes():
        if name in ("nested", "overlap", "two-items", "disjoint"):
            n = sum(g[0] for g in groups)
            for kind, ids in (("smh_f64_no", "paired"), ("smh2_u64_no", "paired"), ("smh_f64_no32", "paired32"), ("smh2_u64_no32", "paired32")):
                for m in (3, 16):
                    cells.append(dict(kind=kind, m=m, groups=groups, shape=name + "+idhash", oracle=j, ids=ids,
                                      trials=trials_for(8, n, quick)))
    res_ = freqfam.run_pairs(chk, cells, "pairs")
    freqfam.judge_pairs(chk, cells, res_, "pairs")
    chk.cov["pair_cells"] = len(cells)
    # ---- L3 primitive law of single-item sketches
    pcells = []
    for kind in FLOAT_KINDS:
        for m in (1, 2, 3, 4, 16):
            pcells.append(dict(kind=kind, m=m, trials=(240000 if quick else 1200000) // (4 if m >= 16 else 1)))
        # large sketches: in single precision r + j has few bits left for r (integer parts must stay a permutation)
        for m in (256, 1024, 4096):
            pcells.append(dict(kind=kind, m=m, trials=(3000000 if quick else 20000000) // m))
    cin = os.path.join(chk.wd, "prim.json")
    json.dump(dict(cells=pcells), open(cin, "w"))
    out = os.path.join(chk.wd, "prim_out.json")
    harness("fq", ["prim", "in=" + cin, "out=" + out, "seed=%d" % chk.seed], timeout=3000)
    pres = json.load(open(out))["cells"]
    worst = 0.0
    for c, r in zip(pcells, pres):
        m = c["m"]
        n = r["n"]
        chk.add("evaluations", n)
        tags = dict(kind="prim", sketcher=c["kind"], m=m)
        if r["notperm"]:
            chk.violation(dict(tags, what="not-a-permutation"), dict(kind="prim-cell", cell=c, notperm=r["notperm"], seed=chk.seed))
            continue
        rad = stats.dkw_radius(n, freqfam.DELTA / m)
        d = max(r["ks"])
        worst = max(worst, d / rad)
        # f32 fractions live on a 2^-24 grid: allow that resolution on top of the DKW radius
        if d > rad + (2.0 ** -23 if "f32" in c["kind"] else 0.0):
            chk.violation(dict(tags, what="fractions-not-uniform"), dict(kind="prim-cell", cell=c, sup_distance=d, radius=rad, seed=chk.seed))
        if m <= 4 and m >= 2:
            nperm = math.factorial(m)
            rp = stats.hoeffding_radius(n, freqfam.DELTA / nperm)
            seen = {tuple(p[0]): p[1] for p in r["perms"]}
            if len(seen) != nperm:
                chk.violation(dict(tags, what="permutation-missing"), dict(kind="prim-cell", cell=c, perms=r["perms"], seed=chk.seed))
            for p, cnt in seen.items():
                worst = max(worst, abs(cnt / n - 1.0 / nperm) / rp)
                if abs(cnt / n - 1.0 / nperm) > rp:
                    chk.violation(dict(tags, what="permutation-frequency"), dict(kind="prim-cell", cell=c, perm=list(p), freq=cnt / n, radius=rp, seed=chk.seed))
        if m >= 2:
            rj = stats.hoeffding_radius(n, freqfam.DELTA / 16)
            for i in range(4):
                for j in range(4):
                    f = r["joint"][i][j] / n
                    worst = max(worst, abs(f - 1 / 16) / rj)
                    if abs(f - 1 / 16) > rj:
                        chk.violation(dict(tags, what="fractions-dependent"), dict(kind="prim-cell", cell=c, joint=r["joint"], radius=rj, seed=chk.seed))
    log("[C03] primitive law: %d cells, worst deviation/radius = %.3f" % (len(pcells), worst))
    chk.cov["prim_cells"] = len(pcells)
    chk.cov["rule"] = ("pair cells = kind x m x shape with fresh random items per trial; primitive-law cells = float kind x m; "
                       "non-trivial pair cell = J strictly inside (0.02, 0.98)")
    chk.cov["explanation"] = ("exact counting on the ideal design (TLC) + frequency validation with distribution-free radii at "
                              "delta=1e-9 per cell; worst ratios: pairs %.3f, primitive %.3f" % (chk.cov["worst_dev_over_radius"]["pairs"], worst))
    chk.assumptions += ["trials are independent (fresh identifiers per trial)"]


def replay(chk, path):
    r = joinfam.replay_one(chk, path, "C03")
    if r is not None:
        return r
    return freqfam.replay_cell(chk, path)


def selftest(chk):
    build_harness("fq")
    cells = [dict(kind="smh_f64_fnv", m=3, groups=[[3, 1, 0], [3, 0, 1], [4, 1, 1]], shape="st", oracle=0.4, trials=100000)]
    r = freqfam.run_pairs(chk, cells, "st")
    n, mean, var = stats.hist_moments(r[0]["hist"], 3)
    eps = stats.bernstein_radius(n, var, freqfam.DELTA)
    ok = abs(mean - 0.4) <= eps and abs(mean - 0.42) > eps
    log("[C03 selftest] J=0.4 mean=%.4f radius=%.4f: accepted, 0.42 rejected: %s" % (mean, eps, ok))
    return 0 if ok else 2
