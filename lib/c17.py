"""C17 - the lazy shuffle yields uniform permutations and forgets history on reset"""
import itertools
import json
import math
import os
from fractions import Fraction
from common import *

LEVEL = "model_checking"
MANIFEST = dict(
        category="model_checking",
        text="TLC explores the complete state graph of the lazy Fisher-Yates shuffle (FYShuffle.tla: wrap, index = lastidx + "
             "floor(u*(m-lastidx)/R), swap, advance, reset; generator output u in 0..R-1, R = lcm(1..m)) for m = 1..5 (quick) / "
             "1..7 (thorough) and decides: v is always a permutation, every block of m draws after new/reset/wrap returns each "
             "value once, no index out of bounds, reset leads to the canonical initial state, the floor map is balanced and "
             "offset vectors -> draw orders is a bijection (so every order has the same number of tapes; counted directly for "
             "m <= 4), and in behaviour graphs with the history as a state variable the draws after a reset are a function of "
             "the generator outputs since the reset alone.  Binding: every transition of those graphs (m <= 5 quick / <= 6 "
             "thorough) and every behaviour 'history of 0..2m draws, reset, full block' is replayed on a real FYshuffle through "
             "a scripted generator that returns exactly TLC's choice; random and boundary-value runs (m up to 64, xi = 1-2^-52, "
             "xi next to every cell boundary c/(m-lastidx), m = 1) recorded from the real code are validated by TLC "
             "(TraceFYShuffle.tla, exact integer arithmetic on the 52-bit numerator); the same tape after different histories "
             "is compared on real objects; the pre-image measure of every draw order is measured through the real code on a "
             "240-cell grid (m <= 4)."
         " Added after the seeded-change campaign: balance of the offset map at m = 65537, 2^20 and 2^24 (low and high bits of the drawn offset, also of the first draw after a reset)."
             " At sizes up to 70001 every history of at most three draws with offsets in {0,1,2,3,last} followed by a reset, complete passes at sizes around 2^20, and one shuffle through 140000 (draws, reset) cycles are compared with a new shuffle.",
        design_ref="DESIGN.md section 4, C17",
        note="trusted: TLC; rand 0.9 Uniform<f64>::new(0,1) maps next_u64()>>12 to n*2^-52 (the harness counts calls that "
             "consume another number of words); uniformity is exact for the grid R = lcm(1..m) and, for the floating-point "
             "code, measured at grid resolution 1/240 per draw for m <= 4; exhaustive only for the listed m.  Violations are "
             "raised only for panics / out-of-range values, a value repeated in a block, get_values() not a permutation, "
             "draws depending on the history before a reset, or a draw order whose measure is off by more than the grid "
             "resolution; a different but balanced xi -> index map is reported as drift only.",
        technique="TLA+ spec + TLC complete state graphs and behaviour graphs, transition-by-transition and behaviour replay into "
                  "the Rust code with a scripted generator, TLC trace validation of recorded runs, grid measure of pre-images",
    )

GRAPH_INVS = ["InvPerm", "InvInBounds", "InvBlock", "InvReset", "InvCongr", "InvBalanced", "InvBijective", "InvUniform"]
BEHAV_INVS = ["InvPerm", "InvBlock", "InvReset", "InvHistIndep", "EmitBehaviour"]


def lcm_upto(m):
    r = 1
    for i in range(1, m + 1):
        r = r * i // math.gcd(r, i)
    return r


def consts(m, emit=True, mutant="none", hlen=0, direct=False):
    return dict(M=m, R=lcm_upto(m), Emit=emit, Mutant='"%s"' % mutant, HLen=hlen, Direct=direct)


def plan(tier):
    if tier == "quick":
        return dict(graphs=[(m, True, m <= 4) for m in range(1, 6)],
                    behav=[(1, 2), (2, 4), (3, 6), (4, 8)],
                    meta=(4000, 64),
                    record=[dict(runs=40, maxm=64, len=150, edgem=12, extra="")],
                    measure=[(1, 240), (2, 240), (3, 240), (4, 240)])
    return dict(graphs=[(m, True, m <= 4) for m in range(1, 7)] + [(7, False, False)],
                behav=[(1, 2), (2, 4), (3, 6), (4, 8), (5, 6)],
                meta=(100000, 64),
                record=[dict(runs=150, maxm=64, len=300, edgem=20, extra="33"),
                        dict(runs=150, maxm=64, len=300, edgem=2, extra="64"),
                        dict(runs=40, maxm=1024, len=1500, edgem=1, extra="")],
                measure=[(1, 240), (2, 240), (3, 240), (4, 240), (5, 60)])


def take_violations(chk, rep, part):
    listed = rep["violations"][:4]
    for v in listed:
        chk.violation(dict(kind=part, what=v["what"], m=v["m"]),
                      dict(kind="harness", part=part, what=v["what"], issues=v["issues"], scenario=v["scenario"]))
    if rep["nviol"] > len(listed):
        log("[C17] %s: %d further violating cases not listed" % (part, rep["nviol"] - len(listed)))
        chk.add("violating_cases_not_listed", rep["nviol"] - len(listed))
    chk.add("drift_map", rep["drift"])
    chk.add("drift_get_values_order", rep["order_drift"])
    chk.add("calls_with_irregular_generator_use", rep["tape_irregular"])
    for ex in rep["drift_examples"][:2]:
        if len(chk.cov.setdefault("drift_examples", [])) < 4:
            chk.cov["drift_examples"].append(ex)


def graph_nontrivial(t):
    m = t["m"]
    l0 = 0 if t["sl"] >= m else t["sl"]
    if t["a"][0] >= 0:
        return m - l0 >= 2
    return t["sv"] != list(range(m)) or t["sl"] not in (0, m)


def model_and_replay(chk, graphs):
    """complete state graph per m; every transition exported with the BFS path to its source and replayed"""
    for (m, emit, direct) in graphs:
        cfg = write_cfg(os.path.join(chk.wd, "FY_%d.cfg" % m), constants=consts(m, emit=emit, direct=direct),
                        view="view", invariants=GRAPH_INVS, action_constraints=["EmitTransition"])
        res = tlc_check("FYShuffle", cfg, chk.wd, workers=1 if emit else None, timeout=1500, xss=True, coverage=emit)
        if emit:
            zero = [a for a in res.coverage_zero_actions() if a in ("Draw", "Reset")]
            if zero:
                raise ToolError("FYShuffle: action never taken: %s" % zero)
        chk.tlc_stats(res)
        chk.cov.setdefault("graphs", []).append("m=%d,R=%d: %d states, %d transitions%s" % (
            m, lcm_upto(m), res.distinct, res.generated - 1, "" if emit else " (model checked, not replayed)"))
        if not emit:
            log("[C17] m=%d R=%d: %d states, %d transitions, invariants hold (%.1fs)" % (m, lcm_upto(m), res.distinct, res.generated - 1, res.wall))
            continue
        trs = res.printed_json("TR")
        if len(trs) != res.generated - 1:
            raise ToolError("FYShuffle m=%d: %d transitions exported, %d generated" % (m, len(trs), res.generated))
        tf = os.path.join(chk.wd, "tr_%d.ndjson" % m)
        write_ndjson(tf, trs)
        of = os.path.join(chk.wd, "rp_%d.json" % m)
        harness("c17", ["replay", "in=" + tf, "out=" + of, "seed=%d" % chk.seed])
        r = json.load(open(of))
        if r["evaluations"] != len(trs):
            raise ToolError("replay evaluated %d of %d transitions" % (r["evaluations"], len(trs)))
        chk.add("evaluations", r["evaluations"])
        chk.add("transitions_replayed", r["evaluations"])
        chk.add("distinct_nontrivial", sum(1 for t in trs if graph_nontrivial(t)))
        take_violations(chk, r, "transition")
        mid = [t for t in trs if graph_nontrivial(t)]
        if mid:
            chk.sample(dict(kind="transition", **mid[len(mid) // 2]), cap=3)
        log("[C17] m=%d R=%d: %d states, %d transitions replayed, %d property violations, map drift=%d (%.1fs)" % (
            m, lcm_upto(m), res.distinct, len(trs), r["nviol"], r["drift"], res.wall))
        os.remove(tf)


def behaviours(chk, plans):
    """history (0..hlen draws, one generator output per offset), reset, one full block: history is a state variable"""
    for (m, hlen) in plans:
        cfg = write_cfg(os.path.join(chk.wd, "FYH_%d.cfg" % m), constants=consts(m, emit=True, hlen=hlen),
                        spec="HSpec", invariants=BEHAV_INVS)
        res = tlc_check("FYShuffle", cfg, chk.wd, workers=1, timeout=1500, xss=True)
        chk.tlc_stats(res)
        bhs = res.printed_json("BH")
        if not bhs:
            raise ToolError("FYShuffle HSpec m=%d exported no behaviour" % m)
        bf = os.path.join(chk.wd, "bh_%d.ndjson" % m)
        write_ndjson(bf, bhs)
        of = os.path.join(chk.wd, "bh_%d.json" % m)
        harness("c17", ["behav", "in=" + bf, "out=" + of, "seed=%d" % chk.seed])
        r = json.load(open(of))
        if r["evaluations"] != len(bhs):
            raise ToolError("behav evaluated %d of %d behaviours" % (r["evaluations"], len(bhs)))
        chk.add("evaluations", r["evaluations"])
        chk.add("behaviours_replayed", r["evaluations"])
        chk.add("distinct_nontrivial", r["nontrivial"])
        take_violations(chk, r, "behaviour")
        chk.cov.setdefault("behaviour_graphs", []).append("m=%d, history<=%d: %d states, %d behaviours" % (m, hlen, res.distinct, len(bhs)))
        if m == 3:
            chk.sample(dict(kind="behaviour", **bhs[len(bhs) // 2]), cap=4)
        log("[C17] behaviours m=%d history<=%d: %d states, %d behaviours replayed (%d with a non-trivial history), "
            "%d property violations, map drift=%d (%.1fs)" % (m, hlen, res.distinct, len(bhs), r["nontrivial"], r["nviol"], r["drift"], res.wall))
        os.remove(bf)


def metamorphic(chk, cases, maxm):
    of = os.path.join(chk.wd, "meta.json")
    harness("c17", ["meta", "out=" + of, "seed=%d" % chk.seed, "cases=%d" % cases, "maxm=%d" % maxm])
    r = json.load(open(of))
    chk.add("evaluations", r["evaluations"])
    chk.add("metamorphic_cases", r["evaluations"])
    chk.add("distinct_nontrivial", r["nontrivial"])
    take_violations(chk, r, "metamorphic")
    if r.get("sample"):
        chk.sample(r["sample"], cap=5)
    log("[C17] same tape after different histories, m<=%d: %d cases (%d with a non-trivial history), %d violations" % (
        maxm, r["evaluations"], r["nontrivial"], r["nviol"]))


def set_free(src, dst):
    rows = read_ndjson(src)
    rows[0]["free"] = True
    write_ndjson(dst, rows)


def run_events(rows, bad):
    """the events of the run of the rejected event, up to and including it"""
    run = bad.get("run") if bad else None
    ev = []
    for r in rows:
        if r.get("run") == run:
            ev.append(r)
            if r is bad:
                break
    return ev


def record_and_validate(chk, idx, p, seed):
    tf = os.path.join(chk.wd, "trace_%d.ndjson" % idx)
    sf = os.path.join(chk.wd, "trace_%d.json" % idx)
    cmd = ["record", "out=" + tf, "sum=" + sf, "seed=%d" % seed, "runs=%d" % p["runs"], "maxm=%d" % p["maxm"],
           "len=%d" % p["len"], "edgem=%d" % p["edgem"], "extra=" + p["extra"]]
    harness("c17", cmd)
    s = json.load(open(sf))
    rows = read_ndjson(tf)
    v = validate_trace("TraceFYShuffle", tf, chk.wd, invariants=["TraceInvBlock"], timeout=1500)
    chk.add("trace_events", len(rows) - 1)
    chk.add("evaluations", len(rows) - 1)
    chk.add("trace_events_near_a_cell_boundary", s["near_boundary"])
    chk.add("drift_float_product_vs_exact_floor", s["rounding_disagreements"])
    if s["disagree_examples"] and "rounding_examples" not in chk.cov:
        chk.cov["rounding_examples"] = s["disagree_examples"][:3]
    strict = v["accepted"]
    free = None
    if strict:
        chk.add("traces_validated_against_impl", s["runs"])
    else:
        # the real xi -> index map is not the specification's, or worse: decide at the level of the property
        ff = os.path.join(chk.wd, "trace_%d_free.ndjson" % idx)
        set_free(tf, ff)
        free = validate_trace("TraceFYShuffle", ff, chk.wd, invariants=["TraceInvBlock"], timeout=1500)
        bad = rows[v["matched"]] if v["matched"] < len(rows) else None
        if free["accepted"]:
            chk.add("drift_map", 1)
            chk.add("traces_validated_against_impl", s["runs"])
            chk.notes.append("trace %d: strict validation stopped at line %d (%s); map-free validation accepted every event: "
                             "drift of the xi -> index map, decided by the measure of the pre-images" % (
                                 idx, v["matched"] + 1, json.dumps(bad)[:300]))
        else:
            badf = rows[free["matched"]] if free["matched"] < len(rows) else None
            hdr = dict(rows[0])
            hdr["free"] = True
            chk.violation(dict(kind="trace", op=(badf or {}).get("op")),
                          dict(kind="trace", header=hdr, rejected_event=badf, run_events=run_events(rows, badf),
                               cmd="c17 " + " ".join(cmd)))
    if s["panics"] and strict:
        raise ToolError("a panic event was accepted by the trace specification")
    ex = [r for r in rows if r.get("op") == "next"]
    if ex:
        chk.sample(dict(kind="trace-event", **ex[min(len(ex) - 1, 40)]), cap=6)
    log("[C17] trace %d: %d events in %d runs (m<=%d), %d next to a cell boundary, strict accepted=%s%s, "
        "float product differs from exact floor at %d events (%.1fs)" % (
            idx, len(rows) - 1, s["runs"], p["maxm"], s["near_boundary"], strict,
            "" if free is None else ", map-free accepted=%s" % free["accepted"], s["rounding_disagreements"], v["wall"]))
    return v, tf


def measure_verdict(r):
    """pre-image measure of every draw order against 1/m! at grid resolution (exact rationals)"""
    m, n, total = r["m"], r["n"], r["total"]
    up = Fraction(1)
    lo = Fraction(1)
    for k in range(2, m + 1):
        up *= Fraction(1, k) + Fraction(2, n)
        lo *= max(Fraction(0), Fraction(1, k) - Fraction(2, n))
    counts = {tuple(c[0]): c[1] for c in r["counts"]}
    issues = []
    if r["not_permutation"]:
        issues.append("%d of %d tapes did not produce a permutation, e.g. %s" % (r["not_permutation"], total, json.dumps(r["bad_examples"][:2])))
    fact = math.factorial(m)
    exact = True
    worst = None
    for perm in itertools.permutations(range(m)):
        c = counts.get(perm, 0)
        f = Fraction(c, total)
        if c * fact != total:
            exact = False
        dev = abs(f * fact - 1)
        if worst is None or dev > worst[0]:
            worst = (dev, perm, c)
        if not (lo <= f <= up):
            issues.append("draw order %s has measure %d/%d = %.5f, 1/%d! = %.5f, admissible [%.5f, %.5f]" % (
                list(perm), c, total, float(f), m, 1.0 / fact, float(lo), float(up)))
    return issues, exact, worst


def measures(chk, plans):
    for (m, n) in plans:
        of = os.path.join(chk.wd, "measure_%d.json" % m)
        harness("c17", ["measure", "m=%d" % m, "n=%d" % n, "out=" + of])
        r = json.load(open(of))
        issues, exact, worst = measure_verdict(r)
        chk.add("measure_tapes", r["total"])
        chk.cov.setdefault("measure", []).append("m=%d grid=%d: %d tapes, %d draw orders, every order exactly 1/m!: %s" % (
            m, n, r["total"], len(r["counts"]), exact))
        if issues:
            chk.violation(dict(kind="measure", m=m), dict(kind="measure", m=m, n=n, issues=issues[:10]))
        elif not exact:
            chk.notes.append("measure m=%d: within grid resolution but not exactly 1/m! (worst relative deviation %.4f at %s)" % (
                m, float(worst[0]), list(worst[1])))
        log("[C17] measure m=%d grid=%d: %d tapes through the real code, %d orders, exact=%s, issues=%d" % (
            m, n, r["total"], len(r["counts"]), exact, len(issues)))


def large_m_balance(chk):
    """sizes far above the grids (65537, 2^20, 2^24): low and high bits of the drawn offset must be uniform
    (Hoeffding radius at delta = 1e-9 over all buckets)"""
    import math
    out = os.path.join(chk.wd, "largem.json")
    harness("c17", ["largem", "out=" + out, "seed=%d" % chk.seed, "n=%d" % (200000 if chk.tier == "quick" else 1000000),
                    "first_trials=%d" % (400 if chk.tier == "quick" else 3000)], timeout=1500)
    r = json.load(open(out))
    worst = 0.0
    for c in r["cases"]:
        if c.get("panic"):
            chk.violation(dict(kind="large-m", what="panic", m=c["m"]), dict(kind="large-m", case=c, seed=chk.seed))
            continue
        if c["out_of_bounds"]:
            chk.violation(dict(kind="large-m", what="out-of-bounds", m=c["m"]), dict(kind="large-m", case=c, seed=chk.seed))
            continue
        n = c["used"]
        chk.add("evaluations", c["draws"])
        rad = math.sqrt(math.log(2.0 / (1e-9 / 400)) / (2.0 * n)) + 16.0 / c["m"]
        nf = c["first_trials"]
        radf = math.sqrt(math.log(2.0 / (1e-9 / 400)) / (2.0 * nf)) + 16.0 / c["m"]
        for name, nn, rr in (("low", n, rad), ("high", n, rad), ("first_low", nf, radf), ("first_high", nf, radf)):
            hist = c[name]
            bad = False
            # residues modulo 2, 4, 8, 16 (resp. the top 1..4 bits): a truncated index shows first in the coarsest split
            for k in (2, 4, 8, 16):
                if name.endswith("low"):
                    groups = [sum(hist[j] for j in range(16) if j % k == r) for r in range(k)]
                else:
                    groups = [sum(hist[r * (16 // k):(r + 1) * (16 // k)]) for r in range(k)]
                for cnt in groups:
                    dev = abs(cnt / nn - 1.0 / k)
                    worst = max(worst, dev / rr)
                    bad = bad or dev > rr
            if bad:
                chk.violation(dict(kind="large-m", what="%s-bits-not-uniform" % name, m=c["m"]),
                              dict(kind="large-m", case=c, radius=rr, seed=chk.seed))
    chk.cov["large_m_worst_dev_over_radius"] = worst
    log("[C17] large m (65537, 2^20, 2^24): offset low/high bits uniform, worst deviation/radius = %.3f" % worst)


def full_passes_and_long_life(chk):
    """complete passes at sizes around 2^20 that are not multiples of 2^16; one object through 140000 (draws, reset) cycles"""
    out = os.path.join(chk.wd, "fullperm.json")
    harness("c17", ["fullperm", "out=" + out, "seed=%d" % chk.seed], timeout=1500)
    for c in json.load(open(out))["cases"]:
        chk.add("evaluations", c["draws"])
        if c.get("panic"):
            chk.violation(dict(kind="full-pass", what="panic", m=c["m"]), dict(kind="full-pass", case=c, seed=chk.seed))
        elif c["bad"]:
            chk.violation(dict(kind="full-pass", what="not-a-permutation", m=c["m"]), dict(kind="full-pass", case=c, seed=chk.seed))
    out = os.path.join(chk.wd, "longlife.json")
    cycles = 140000 if chk.tier == "quick" else 400000
    harness("c17", ["longlife", "out=" + out, "seed=%d" % chk.seed, "cycles=%d" % cycles], timeout=1500)
    nchecks = 0
    for c in json.load(open(out))["cases"]:
        chk.add("evaluations", c["cycles"])
        nchecks += c["checks"]
        if c.get("panic"):
            chk.violation(dict(kind="long-life", what="panic", m=c["m"]), dict(kind="long-life", case=c, seed=chk.seed))
        elif c["bad"]:
            chk.violation(dict(kind="long-life", what="history-after-reset", m=c["m"]), dict(kind="long-life", case=c, seed=chk.seed))
    out = os.path.join(chk.wd, "shorthist.json")
    harness("c17", ["shorthist", "out=" + out, "seed=%d" % chk.seed], timeout=1500)
    nh = 0
    for c in json.load(open(out))["cases"]:
        chk.add("evaluations", c["histories"])
        nh += c["histories"]
        if c.get("panic"):
            chk.violation(dict(kind="short-history", what="panic", m=c["m"]), dict(kind="short-history", case=c, seed=chk.seed))
        elif c["bad"]:
            chk.violation(dict(kind="short-history", what="history-after-reset", m=c["m"]), dict(kind="short-history", case=c, seed=chk.seed))
    log("[C17] every history of <= 3 draws with offsets in {0,1,2,3,last} followed by a reset, m = 5..70001: %d histories, "
        "the pass after the reset equals a new object's" % nh)
    chk.cov["long_life_cycles"] = cycles
    log("[C17] complete passes at m = 2^20+1, 1500001, 2^21-7, 70001 are permutations; one object through %d (draws, reset) cycles: "
        "%d passes compared with a new object's" % (cycles, nchecks))


def run(chk):
    build_harness("c17")
    p = plan(chk.tier)
    chk.cov["rule"] = (
        "complete TLC state graphs of FYShuffle.tla (every generator output u in 0..R-1 and reset from every reachable "
        "state); every transition is replayed on a real FYshuffle (source state rebuilt through the BFS path exported "
        "with it, generator scripted to a point of TLC's cell) - non-trivial = a draw with at least 2 cells left or a "
        "reset from a state that differs from a new object; TLC behaviour graphs 'history, reset, block' with one output "
        "per offset - non-trivial = history leaves the object different from a new one; random metamorphic cases (same "
        "tape after different histories, m <= 64) - same rule; recorded runs validated by TLC count as evaluations only")
    chk.assumptions += ["rand 0.9 Uniform<f64>::new(0,1).sample consumes one next_u64() and returns (x >> 12) * 2^-52 "
                        "(calls that consume another number of words are counted in calls_with_irregular_generator_use)",
                        "uniformity: exact on the grid R = lcm(1..m) in the model; for the floating-point code measured on "
                        "cell mid-points (240 per draw, m <= 4) and probed next to every cell boundary (m <= 64)"]
    model_and_replay(chk, p["graphs"])
    behaviours(chk, p["behav"])
    metamorphic(chk, *p["meta"])
    for i, rp in enumerate(p["record"]):
        record_and_validate(chk, i, rp, chk.seed + i)
    measures(chk, p["measure"])
    large_m_balance(chk)
    full_passes_and_long_life(chk)
    chk.cov["exhaustive"] = True
    chk.cov["explanation"] = ("exhaustive for the listed state graphs and behaviour graphs; larger m (<= 64, one trace set up to "
                              "1024 in the thorough tier) sampled by recorded traces and metamorphic cases; a non-zero "
                              "drift_map means the real xi -> index map differs from the specification's and the verdict "
                              "rests on the map-free trace validation, history independence and the grid measure")


def replay(chk, path):
    sc = json.load(open(path))["scenario"]
    build_harness("c17")
    bad = False
    if sc["kind"] in ("full-pass", "long-life", "short-history"):
        out = os.path.join(chk.wd, "replay_%s.json" % sc["kind"])
        if sc["kind"] == "full-pass":
            harness("c17", ["fullperm", "out=" + out, "seed=%d" % sc["seed"]], timeout=1500)
        elif sc["kind"] == "short-history":
            harness("c17", ["shorthist", "out=" + out, "seed=%d" % sc["seed"]], timeout=1500)
        else:
            harness("c17", ["longlife", "out=" + out, "seed=%d" % sc["seed"], "cycles=%d" % sc["case"]["cycles"]], timeout=1500)
        for c in json.load(open(out))["cases"]:
            if c["m"] == sc["case"]["m"]:
                log(json.dumps(c)[:1500])
                bad = bool(c["bad"]) or bool(c.get("panic"))
    elif sc["kind"] == "harness":
        inf = os.path.join(chk.wd, "scenario.json")
        with open(inf, "w") as f:
            json.dump(sc["scenario"], f)
        of = os.path.join(chk.wd, "scenario_out.json")
        harness("c17", ["scenario", "in=" + inf, "out=" + of])
        r = json.load(open(of))
        for l in r["log"][:60]:
            log(json.dumps(l))
        for i in r["issues"]:
            log("issue: " + i)
        bad = bool(r["issues"])
    elif sc["kind"] == "trace":
        # the stored run is validated again (map-free) for information; the verdict re-executes its calls on the current code
        tf = os.path.join(chk.wd, "one.ndjson")
        write_ndjson(tf, [sc["header"]] + sc["run_events"])
        v = validate_trace("TraceFYShuffle", tf, chk.wd, invariants=["TraceInvBlock"])
        log("stored run re-validated (map-free): accepted=%s, first unmatched line %d" % (v["accepted"], v["matched"] + 1))
        ev = sc["run_events"]
        ops = []
        for e in ev[1:]:
            if e["op"] == "next" or (e["op"] == "panic" and e.get("call") == "next"):
                ops.append(e["n"])
            elif e["op"] == "reset" or (e["op"] == "panic" and e.get("call") == "reset"):
                ops.append(-1)
        inf = os.path.join(chk.wd, "scenario.json")
        with open(inf, "w") as f:
            json.dump(dict(kind="ops", m=ev[0]["m"], ops=ops), f)
        of = os.path.join(chk.wd, "scenario_out.json")
        harness("c17", ["scenario", "in=" + inf, "out=" + of])
        r = json.load(open(of))
        for i in r["issues"]:
            log("issue: " + i)
        log("the %d calls of the run re-executed on the current code: %d issue(s)" % (len(ops), len(r["issues"])))
        bad = bool(r["issues"])
    elif sc["kind"] == "measure":
        of = os.path.join(chk.wd, "measure_replay.json")
        harness("c17", ["measure", "m=%d" % sc["m"], "n=%d" % sc["n"], "out=" + of])
        issues, exact, worst = measure_verdict(json.load(open(of)))
        for i in issues[:30]:
            log("issue: " + i)
        bad = bool(issues)
    else:
        raise ToolError("unknown scenario kind %s" % sc["kind"])
    if bad:
        log("VIOLATION property=C17 replay=%s" % path)
    return 1 if bad else 0


def selftest(chk):
    """anti-vacuity: corrupted observation / removed event rejected; every mutant of the spec violates its invariant;
    the measure verdict flags a biased table"""
    build_harness("c17")
    ok = True
    v, tf = record_and_validate(chk, 0, dict(runs=12, maxm=12, len=60, edgem=5, extra=""), chk.seed)
    assert v["accepted"], "selftest trace not accepted"
    rows = read_ndjson(tf)
    # (1) corrupt a returned value: repeat the previous draw of the same block (rejected strictly and map-free)
    cand = [i for i, r in enumerate(rows) if i > 2 and r.get("op") == "next" and rows[i - 1].get("op") == "next"
            and rows[i - 1].get("run") == r.get("run") and len(r.get("v", [])) >= 5
            and 1 <= r["v"].index(r["ret"]) <= len(r["v"]) - 3 and rows[i - 1]["ret"] == r["v"][r["v"].index(r["ret"]) - 1]]
    idx = cand[len(cand) // 2]
    bad = [dict(r) for r in rows]
    bad[idx]["ret"] = rows[idx - 1]["ret"]
    f2 = os.path.join(chk.wd, "corrupt.ndjson")
    write_ndjson(f2, bad)
    v2 = validate_trace("TraceFYShuffle", f2, chk.wd, invariants=["TraceInvBlock"])
    f2f = os.path.join(chk.wd, "corrupt_free.ndjson")
    set_free(f2, f2f)
    v2f = validate_trace("TraceFYShuffle", f2f, chk.wd, invariants=["TraceInvBlock"])
    t1 = (not v2["accepted"]) and v2["matched"] == idx and (not v2f["accepted"]) and v2f["matched"] == idx
    log("[C17 selftest] repeated value at line %d: strict rejected at %d, map-free rejected at %d: %s" % (
        idx + 1, v2["matched"] + 1, v2f["matched"] + 1, t1))
    # (1b) corrupt one entry of get_values(): strict rejects it, map-free rejects a non-permutation
    # (the map-free rule constrains get_values() at the END of a block of m draws only: pick such an event)
    idxb, mcur, cnt = None, 0, 0
    for i, r in enumerate(rows):
        if r.get("op") == "new":
            mcur, cnt = r["m"], 0
        elif r.get("op") == "reset":
            cnt = 0
        elif r.get("op") == "next":
            cnt = 1 if cnt >= mcur else cnt + 1
            if cnt == mcur and mcur >= 3 and "v" in r and i > 20:
                idxb = i
                break
    bad = [dict(r) for r in rows]
    vv = list(bad[idxb]["v"])
    vv[0] = vv[-1]
    bad[idxb]["v"] = vv
    f2 = os.path.join(chk.wd, "corrupt_v.ndjson")
    write_ndjson(f2, bad)
    v2 = validate_trace("TraceFYShuffle", f2, chk.wd)
    set_free(f2, f2f)
    v2f = validate_trace("TraceFYShuffle", f2f, chk.wd)
    t1b = (not v2["accepted"]) and v2["matched"] == idxb and (not v2f["accepted"]) and v2f["matched"] == idxb
    log("[C17 selftest] corrupted get_values() at the end of a block (line %d) rejected (strict and map-free): %s" % (idxb + 1, t1b))
    # (2) remove one draw in the middle of a block (the next event logs v, so the rejection is certain)
    f3 = os.path.join(chk.wd, "removed.ndjson")
    write_ndjson(f3, rows[:idx - 1] + rows[idx:])
    v3 = validate_trace("TraceFYShuffle", f3, chk.wd)
    t2 = not v3["accepted"]
    log("[C17 selftest] removed event (line %d) rejected: %s (first unmatched line %d)" % (idx, t2, v3["matched"] + 1))
    # (2b) a shifted generator output (xi moved by one cell) is rejected
    bad = [dict(r) for r in rows]
    bad[idx]["n2"] = (bad[idx]["n2"] + (1 << 19)) % (1 << 20)
    f4 = os.path.join(chk.wd, "shifted.ndjson")
    write_ndjson(f4, bad)
    v4 = validate_trace("TraceFYShuffle", f4, chk.wd)
    t2b = not v4["accepted"]
    log("[C17 selftest] generator output shifted by 1/2 at line %d rejected: %s" % (idx + 1, not v4["accepted"]))
    # (3) mutants of the specification
    t3 = True
    for (mutant, spec, invs, expect, m, hlen) in [
            ("bias", "Spec", GRAPH_INVS, "InvBalanced", 4, 0),
            ("norefill", "Spec", GRAPH_INVS, "InvReset", 4, 0),
            ("norefill", "HSpec", ["InvHistIndep"], "InvHistIndep", 3, 6),
            ("swap", "Spec", GRAPH_INVS, "InvBlock", 4, 0),
            ("nowrap", "Spec", GRAPH_INVS, "InvInBounds", 3, 0)]:
        cfg = write_cfg(os.path.join(chk.wd, "mut_%s_%s.cfg" % (mutant, spec)),
                        constants=consts(m, emit=False, mutant=mutant, hlen=hlen), spec=spec,
                        view="view" if spec == "Spec" else None, invariants=invs)
        res = tlc_check("FYShuffle", cfg, chk.wd, workers=1, timeout=600, xss=True, expect_violation=expect)
        hit = expect in res.invariant_violated
        t3 = t3 and hit
        log("[C17 selftest] mutant %s (%s): TLC reports %s violated: %s" % (mutant, spec, expect, hit))
    # the unmutated spec passes the same configuration
    cfg = write_cfg(os.path.join(chk.wd, "mut_none.cfg"), constants=consts(4, emit=False), view="view", invariants=GRAPH_INVS)
    tlc_check("FYShuffle", cfg, chk.wd, workers=1, timeout=600, xss=True)
    # (4) the measure verdict flags a biased table and accepts the measured one
    of = os.path.join(chk.wd, "measure_st.json")
    harness("c17", ["measure", "m=3", "n=240", "out=" + of])
    r = json.load(open(of))
    good, exact, _ = measure_verdict(r)
    rb = json.loads(json.dumps(r))
    shift = rb["counts"][0][1] // 5
    rb["counts"][0][1] -= shift
    rb["counts"][1][1] += shift
    biased, _, _ = measure_verdict(rb)
    t4 = (not good) and exact and bool(biased)
    log("[C17 selftest] measure verdict: real table accepted and exact: %s, table with 20%% moved between two orders flagged: %s" % (
        (not good) and exact, bool(biased)))
    ok = t1 and t1b and t2 and t2b and t3 and t4
    return 0 if ok else 2
