"""C20 - SetSketch parameters survive a dump/reload and a torn file is reported"""
import collections
import json
import os
import re
from common import *

LEVEL = "fault_enumeration"
MANIFEST = dict(
        category="fault_enumeration",
        text="ParamsFile.tla models dump_json/reload_json as a dump/crash/reload machine over the file content "
             "(prefix length of the serialisation, stale tail, missing file/directory; open(truncate), a write in one or "
             "several pieces, a crash at every point) and TLC checks 'reload never aborts', 'Ok iff the file is complete, "
             "with the dumped parameters', 'no stale tail', round trip within the ulp rule; the deviation "
             "ReloadMapsParseError=FALSE (today's unwrap) is refuted by TLC.  Binding: every whole-dump / refused-dump / "
             "reload transition of the TLC state graph is replayed on the real code with concrete tuples of the abstract "
             "digit classes; for special and random parameter tuples (long decimal expansions, denormals, 1+2^-52, 1e+-300, "
             "m,q up to 2^64-1) the real dump and reload are run and EVERY byte prefix 0..N-1 of the written file is put "
             "on disk as a crash point and reloaded under catch_unwind (plus missing file, missing directory, re-dump over "
             "torn / longer / shorter files); the recorded events are validated by TLC against ParamsFile's operators "
             "(TraceParamsFile.tla).",
        design_ref="DESIGN.md section 4, C20",
        note="crashes are simulated by writing the prefix (no fault injection inside write(2)); crash points are exhaustive "
             "per written file, parameter tuples are sampled; non-finite a,b are outside the property and only recorded; "
             "trusted: TLC, std::fs, Rust's shortest-digits float formatting used to count significant digits",
        technique="TLA+ spec + TLC (invariants, deviation constants), replay of TLC transitions into the Rust code, exhaustive "
                  "crash-point enumeration on disk with TLC trace validation",
    )
INVS = ["InvType", "InvNeverAbort", "InvReload", "InvRoundTrip", "InvNoStale", "InvEmptyAfterOpen", "InvDumpMacro"]
REPAIRED = dict(ReloadMapsParseError=True, OpenTruncates=True, PrintLoss=0)
ACTIONS = ("OpenSome", "WriteSome", "Close", "Crash", "Remove", "Reload")


def consts(lens, emit=False, **dev):
    c = dict(Lens="{%s}" % ", ".join(str(x) for x in lens), Ids="{1}", Emit=emit)
    c.update(REPAIRED)
    c.update(dev)
    return c


# ---------------------------------------------------------------------------------------------
# tags of a non-conforming reload (the identity of a finding)

def _exp10(s):
    """decimal exponent of a `{:e}` formatted float"""
    try:
        return int(s.split("e")[1])
    except (IndexError, ValueError):
        return 0


def reload_tags(outcome, fclass, dist=None, tup=None, ca=None, cb=None):
    tags = dict(kind="reload", outcome=outcome, file="torn" if fclass in ("empty", "torn") else fclass)
    if fclass in ("empty", "torn"):
        tags["at"] = "empty" if fclass == "empty" else "inside"
    if outcome == "ok" and fclass == "complete" and dist:
        dm, dq, da, db = dist
        allowed = lambda c: 1 if c == "long" else 0
        over = [(n, tup[n] if tup else "0e0", d - allowed(c)) for n, d, c in (("a", da, ca), ("b", db, cb)) if d > allowed(c)]
        if dm or dq:
            tags["detail"] = "integer-differs"
        elif over:
            tags["detail"] = "float-exceeds-tolerance-by-1ulp" if max(x for _, _, x in over) == 1 else "float-exceeds-tolerance-by-more"
            # serde_json's default float parser (no float_roundtrip) rounds twice at most when the written digits and the
            # decimal exponent are moderate: every value with 1e-5 <= |x| < 1e15 stays within the tolerance of the statement
            # (<= 15 digits: exact, more: <= 1 ulp).  Values of ordinary magnitude must therefore never be reported as known.
            tags["magnitude"] = "extreme" if all(not (-5 <= _exp10(v) <= 14) for _, v, _ in over) else "ordinary"
    return tags


def mismatch_tags(mm):
    """tags of a mismatch reported by `c20 replay`"""
    tags = dict(mm["tags"])
    if tags["kind"] == "reload":
        d = mm["detail"].get("got", {})
        cl = mm.get("expect_classes") or {}
        fclass = tags["file"]
        if fclass == "torn" and mm["pre_offset"] == 0:
            fclass = "empty"
        tags = reload_tags(tags["outcome"], fclass, d.get("dist"), mm.get("expect_tuple"), cl.get("ca"), cl.get("cb"))
    return tags


_memo = {}


def report(chk, tags, scen):
    """chk.violation with the known-finding lookup done once per distinct tag set (thousands of identical crash points)"""
    key = json.dumps(tags, sort_keys=True)
    if key not in _memo:
        before = {k: v[1] for k, v in chk.known.items()}
        r = chk.violation(tags, scen)
        hit = [k for k, v in chk.known.items() if v[1] != before.get(k, 0)]
        _memo[key] = [hit[0] if hit else None, 1]
        return r
    kf, n = _memo[key]
    _memo[key][1] += 1
    if kf is not None:
        chk.known[kf][1] += 1
        return False
    if n < 25:
        return chk.violation(tags, scen)
    chk.violations.append((tags, None))
    return True


# ---------------------------------------------------------------------------------------------
def model_and_replay(chk, lens, reps):
    cfg = write_cfg(os.path.join(chk.wd, "PF_ok.cfg"), constants=consts(lens, emit=True), view="view", invariants=INVS,
                    action_constraints=["EmitTransition"])
    res = tlc_check("ParamsFile", cfg, chk.wd, workers=1, timeout=600, coverage=True)
    zero = [a for a in res.coverage_zero_actions() if a in ACTIONS]
    if zero:
        raise ToolError("ParamsFile: action never taken: %s" % zero)
    chk.tlc_stats(res)
    trs = res.printed_json("TR")
    # the ulp distance TLC picked inside the tolerance is not an input of the replay
    seen, uniq = set(), []
    for t in trs:
        t["ret"] = dict(kind=t["ret"]["kind"])
        key = json.dumps(t, sort_keys=True)
        if key not in seen:
            seen.add(key)
            uniq.append(t)
    if not any(t["a"] == "close" and t["pre"]["exists"] and t["pre"]["p"]["n"] > t["p"]["n"] for t in uniq):
        raise ToolError("ParamsFile: no dump over a longer file among the exported transitions")
    tf = os.path.join(chk.wd, "tr.ndjson")
    write_ndjson(tf, uniq)
    of = os.path.join(chk.wd, "rp.json")
    harness("c20", ["replay", "in=" + tf, "out=" + of, "seed=%d" % chk.seed, "reps=%d" % reps,
                    "wd=" + os.path.join(chk.wd, "fs_replay")], timeout=900)
    r = json.load(open(of))
    chk.add("evaluations", r["evaluations"])
    chk.add("transitions_replayed", len(uniq))
    chk.cov["replay_by_action"] = r["by_action"]
    chk.cov["replay_action_x_file_class"] = r["action_file_classes"]
    chk.cov["replay_mismatch_counts"] = r["mismatch_counts"]
    for mm in r["mismatches"]:
        tags = mismatch_tags(mm)
        report(chk, tags, dict(kind="transition", **mm))
    s = uniq[len(uniq) // 2]
    chk.sample(dict(kind="tlc-transition", **s))
    log("[C20] ParamsFile Lens=%s: %d states, %d transitions exported (%d distinct), %d replays on the real code, "
        "%d mismatching (%.1fs)" % (lens, res.distinct, len(trs), len(uniq), r["evaluations"], sum(r["mismatch_counts"].values()),
                                   res.wall))
    return res


def witness(chk, lens):
    """today's code as a deviation: TLC must refute 'reload never aborts' (regression witness, anti-vacuity)"""
    cfg = write_cfg(os.path.join(chk.wd, "PF_unwrap.cfg"), constants=consts(lens, ReloadMapsParseError=False), view="view",
                    invariants=["InvNeverAbort"])
    res = tlc_check("ParamsFile", cfg, chk.wd, expect_violation="InvNeverAbort", workers=1, timeout=1500)
    log("[C20] ParamsFile with ReloadMapsParseError=FALSE (an unwrap on the parse error): TLC refutes InvNeverAbort "
        "after %d states (expected)" % res.distinct)
    return res


def divergences(v):
    return [(int(a), b) for a, b in re.findall(r'<<"DIVERGE", (\d+), "(\w+)">>', v["out"])]


def validate(chk, tf):
    """TLC trace validation; returns (structurally accepted, [(line, file class)] of non-conforming reloads, result)"""
    v = validate_trace("TraceParamsFile", tf, chk.wd, timeout=900)
    return v["accepted"], divergences(v), v


def context(rows):
    """per line: the tuple and classes the reload speaks about (bookkeeping for tags / scenarios only)"""
    tup, par, ctx = {}, {}, [None] * len(rows)
    for i, r in enumerate(rows):
        op = r.get("op")
        if op == "new":
            tup = {1: r.get("t")}
            par = {}
        elif op == "param":
            par[r["pid"]] = r
            if "t" in r:
                tup[r["pid"]] = r["t"]
        ctx[i] = (dict(tup), dict(par))
    return ctx


def record_and_validate(chk, n, seed, tuples=None, tag="rec", raise_violations=True):
    tf = os.path.join(chk.wd, "%s_%d.ndjson" % (tag, seed))
    sf = os.path.join(chk.wd, "%s_%d.json" % (tag, seed))
    args = ["record", "out=" + tf, "sum=" + sf, "seed=%d" % seed, "n=%d" % n, "wd=" + os.path.join(chk.wd, "fs_record")]
    if tuples is not None:
        lf = os.path.join(chk.wd, "%s_tuples.json" % tag)
        json.dump(tuples, open(lf, "w"))
        args.append("tuples=" + lf)
    harness("c20", args, timeout=900)
    summ = json.load(open(sf))
    rows = read_ndjson(tf)
    nviol = 0
    wall = 0.0
    cur = tf
    cur_rows = rows
    for attempt in range(6):
        ok, div, v = validate(chk, cur)
        wall += v["wall"]
        ctx = context(cur_rows)
        for (line, fclass) in div:
            ev = cur_rows[line - 1]
            tup, par = ctx[line - 1]
            pid = ev.get("pid", -1)
            p = par.get(pid, {})
            tags = reload_tags(ev["outcome"], fclass, [ev["dm"], ev["dq"], ev["da"], ev["db"]], tup.get(pid), p.get("ca"), p.get("cb"))
            scen = dict(kind="crashpoint", tuples=[t for t in (tup.get(1), tup.get(2)) if t], event=ev, file_class=fclass,
                        text=par.get(1, {}).get("text"), expected="ok(the dumped parameters)" if fclass == "complete" else "err")
            if raise_violations and report(chk, tags, scen):
                nviol += 1
        if ok:
            break
        # a structural rejection (a dump that failed or left other bytes than its own text): report, drop the run, go on
        bad = cur_rows[v["matched"]] if v["matched"] < len(cur_rows) else {}
        run = bad.get("run")
        tup, par = ctx[v["matched"]] if v["matched"] < len(cur_rows) else ({}, {})
        if not raise_violations:
            raise ToolError("selftest: recorded trace structurally rejected at %s" % bad)
        chk.violation(dict(kind=bad.get("op", "?"), outcome=bad.get("res", bad.get("outcome", "?")),
                           file="size=%s" % bad.get("size", "?")),
                      dict(kind="crashpoint", tuples=[t for t in (tup.get(1), tup.get(2)) if t], event=bad, file_class="?",
                           expected="the event is not a step of ParamsFile (dump must return ok and leave exactly its text)",
                           run_events=[r for r in cur_rows if r.get("run") == run][:12]))
        nviol += 1
        cur_rows = [r for r in cur_rows if r.get("run") != run or "kind" in r]
        cur = os.path.join(chk.wd, "%s_%d_cut%d.ndjson" % (tag, seed, attempt))
        write_ndjson(cur, cur_rows)
    else:
        chk.notes.append("trace validation stopped after 6 structurally rejected runs")
    nruns = sum(1 for r in rows if r.get("op") == "new")
    chk.add("traces_validated_against_impl", nruns)
    chk.add("trace_events", len(rows) - 1)
    chk.add("evaluations", summ["reload_calls"] + summ["dump_calls"])
    chk.add("crash_points", summ["crash_points"])
    chk.add("distinct_nontrivial", summ["inside_points_distinct"])
    chk.add("tuples", summ["tuples"])
    chk.add("tuples_with_long_float", summ["tuples_with_long_float"])
    chk.add("redump_over_longer_file", summ["redump_over_longer_file"])
    oc = chk.cov.setdefault("reload_outcomes_by_file_class", {})
    for k, c in summ["outcomes"].items():
        oc[k] = oc.get(k, 0) + c
    chk.cov["max_ulp_after_round_trip"] = max(chk.cov.get("max_ulp_after_round_trip", 0), summ["max_ulp"])
    if summ["nonfinite"]:
        chk.cov["nonfinite_out_of_scope"] = summ["nonfinite"]
    for s in summ["samples"]:
        chk.sample(s, cap=8)
    log("[C20] %d tuples, %d crash points (every prefix), %d reloads, %d events validated by TLC in %.1fs: %d non-conforming "
        "reload(s) not covered by a known finding" % (summ["tuples"], summ["crash_points"], summ["reload_calls"], len(rows) - 1,
                                                      wall, nviol))
    return tf, rows, summ


def run(chk):
    build_harness("c20")
    quick = chk.tier == "quick"
    chk.cov["rule"] = ("tuples = fixed special values (default, 0.1+0.2, 1/3, 2-2^-52, 1+2^-52, denormals, 1e+-300, f64::MAX, "
                       "m,q in {0,1,2^53+1,2^63,2^64-1,..}) plus seeded random ones; for each tuple the real dump, the real "
                       "reload, then every prefix 0..N of the written text as file content (fresh directory), missing file, "
                       "missing directory, re-dump over torn/longer/shorter files.  evaluations = dump_json + reload_json calls "
                       "(+ replayed TLC transitions).  distinct_nontrivial = number of distinct (written text, k) pairs with "
                       "0 < k < N, i.e. crash points strictly inside a file, counted once per distinct text")
    chk.assumptions += ["a crash during the dump leaves a prefix of the bytes handed to write(2) (no reordering inside one file; "
                        "the open truncates before the first write)",
                        "crash points are simulated by writing the prefix with std::fs, not by killing the process",
                        "significant digits are counted on Rust's shortest round-trip formatting `{:e}`",
                        "non-finite a, b (serialised as null) are outside the property; outcome recorded in the evidence"]
    lens = [2, 3] if quick else [1, 2, 3, 4]
    model_and_replay(chk, lens, 3 if quick else 12)
    w = witness(chk, [2, 3])
    chk.tlc_stats(w)
    if quick:
        record_and_validate(chk, 160, chk.seed)
    else:
        for i in range(4):
            record_and_validate(chk, 560, chk.seed + i)
    chk.cov["exhaustive"] = False
    chk.cov["explanation"] = ("crash points are exhaustive for every file written (every byte offset), the ParamsFile state graph "
                              "is explored completely for the listed text lengths, parameter tuples are sampled")
    chk.cov["model_lens"] = lens


def replay(chk, path):
    sc = json.load(open(path))["scenario"]
    build_harness("c20")
    n0 = len(chk.violations)
    if sc["kind"] == "transition":
        tf = os.path.join(chk.wd, "one.ndjson")
        write_ndjson(tf, [sc["rec"]])
        of = os.path.join(chk.wd, "one.json")
        harness("c20", ["replay", "in=" + tf, "out=" + of, "seed=%d" % chk.seed, "reps=40", "wd=" + os.path.join(chk.wd, "fs_replay")])
        r = json.load(open(of))
        fresh = [mm for mm in r["mismatches"] if known_match("C20", mismatch_tags(mm)) is None]
        for mm in fresh[:3]:
            log(json.dumps(dict(tags=mismatch_tags(mm), tuple=mm["tuple"], detail=mm["detail"])))
        bad = len(fresh)
        log("transition replayed 40 times with fresh concrete tuples: %d run(s) not conforming, %d of them not a known finding"
            % (sum(r["mismatch_counts"].values()), bad))
    else:
        record_and_validate(chk, 0, chk.seed, tuples=sc["tuples"], tag="replay")
        bad = len(chk.violations) - n0
        log("tuple(s) re-run with every crash point: %d non-conforming event(s) that are not a known finding" % bad)
    if bad:
        log("VIOLATION property=C20 replay=%s" % path)
    return 1 if bad else 0


def selftest(chk):
    """anti-vacuity: deviations refuted by TLC; the trace specification binds"""
    build_harness("c20")
    ok = True
    # 1. deviation constants
    for name, dev, inv in (("unwrap", dict(ReloadMapsParseError=False), "InvNeverAbort"),
                           ("unwrap-reload", dict(ReloadMapsParseError=False), "InvReload"),
                           ("no-truncate", dict(OpenTruncates=False), "InvNoStale"),
                           ("no-truncate-roundtrip", dict(OpenTruncates=False), "InvRoundTrip"),
                           ("lossy-print", dict(PrintLoss=1), "InvRoundTrip")):
        cfg = write_cfg(os.path.join(chk.wd, "PF_%s.cfg" % name), constants=consts([2, 3], **dev), view="view", invariants=[inv])
        res = tlc_check("ParamsFile", cfg, chk.wd, expect_violation=inv, workers=1, timeout=1500)
        log("[C20 selftest] deviation %s: TLC refutes %s (%d states)" % (name, inv, res.distinct))
    cfg = write_cfg(os.path.join(chk.wd, "PF_ok.cfg"), constants=consts([2, 3]), view="view", invariants=INVS)
    tlc_check("ParamsFile", cfg, chk.wd, workers=1, timeout=1500)
    # 2. a recorded trace, brought to what the property demands (torn -> err) must be accepted without divergence ...
    tf, rows, summ = record_and_validate(chk, 4, chk.seed, tag="st", raise_violations=False)
    rows = [dict(r) for r in rows]
    for r in rows:
        if r.get("op") == "reload" and r["outcome"] == "panic" and 0 <= r["k"] < r["n"]:
            r["outcome"] = "err"
    base = os.path.join(chk.wd, "st_base.ndjson")
    write_ndjson(base, rows)
    acc, div, v = validate(chk, base)
    div = [d for d in div if d[1] != "complete"]        # known 1-ulp finding on complete files is not at stake here
    log("[C20 selftest] conforming trace accepted: %s, divergences on torn/missing files: %d" % (acc, len(div)))
    ok &= acc and not div

    def expect_div(name, rws, line, structural=False):
        f = os.path.join(chk.wd, "st_%s.ndjson" % name)
        write_ndjson(f, rws)
        a, d, vv = validate(chk, f)
        if structural:
            good = (not a) and vv["matched"] == line - 1
        else:
            good = any(l == line for l, _ in d)
        log("[C20 selftest] %s: rejected at line %d: %s" % (name, line, good))
        return good

    # ... an `err` at k < N turned into `ok` is rejected at that line
    idx = [i for i, r in enumerate(rows) if r.get("op") == "reload" and r["outcome"] == "err" and 0 < r["k"] < r["n"]][7]
    bad = [dict(r) for r in rows]
    bad[idx].update(outcome="ok", pid=1)
    ok &= expect_div("err-to-ok", bad, idx + 1)
    # ... and into `panic`
    bad = [dict(r) for r in rows]
    bad[idx].update(outcome="panic")
    ok &= expect_div("err-to-panic", bad, idx + 1)
    # ... an integer off by one after a complete round trip
    idx2 = [i for i, r in enumerate(rows) if r.get("op") == "reload" and r["outcome"] == "ok" and r["da"] == 0 and r["db"] == 0][0]
    bad = [dict(r) for r in rows]
    bad[idx2]["dq"] = 1
    ok &= expect_div("q-off-by-one", bad, idx2 + 1)
    # ... a removed dump event: the following reload says ok on a missing file
    idx3 = [i for i, r in enumerate(rows) if r.get("op") == "dump"][0]
    ok &= expect_div("dump-removed", rows[:idx3] + rows[idx3 + 1:], idx3 + 1)
    # ... a removed param event: the dump speaks about an unknown tuple
    idx4 = [i for i, r in enumerate(rows) if r.get("op") == "param"][0]
    ok &= expect_div("param-removed", rows[:idx4] + rows[idx4 + 1:], idx4 + 1, structural=True)
    # ... a stale tail: the size after a dump is larger than the text
    idx5 = [i for i, r in enumerate(rows) if r.get("op") == "dump" and r.get("size_before", 0) > r["size"] > 0][0]
    bad = [dict(r) for r in rows]
    bad[idx5]["size"] = bad[idx5]["size_before"]
    ok &= expect_div("stale-tail", bad, idx5 + 1, structural=True)
    return 0 if ok else 2
