"""C06 - SetSketch cardinality estimate is accurate and monotone"""
import json
import math
import os
import time
from common import *
import layerb

LEVEL = "other"
MANIFEST = dict(
    category="other",
    text="Exact part (TLA+/TLC): SetSketch.tla (implementation-shaped sketch/merge/reinit, b = 2) satisfies the action "
         "property EstimateMonotone over all schedules; Cardinality.tla checks over ALL register vectors that the exact "
         "rational estimate c / Sum 2^-K never decreases under a position-wise maximum, increases strictly iff a register "
         "changed and dominates both parts of a union, and models the parallel reduction: every order and association of "
         "the sum of 3-6 terms in a toy binary floating-point format (round to nearest even) stays within (N-1)/2 ulp of "
         "the exact sum, any two results within N-1 ulp (= 2(N-1) representable numbers), and the sequential fold is "
         "monotone in every term. Binding: histories of sketch / repeated sketch / merge (accepted and refused) over 2-3 "
         "real SetSketcher<u16|u32> instances, parameter tuples of C05 + the documented default, m from 1 to 4096 "
         "(20000 thorough), bulks of up to 10^4 identifiers (thorough: extra runs at m = 4096 with bulks up to 10^6), are recorded; the estimate after every call is "
         "rank-abstracted and TLC (TraceCardinality.tla, which tracks the set of atoms per instance) validates: never "
         "decreases on sketch/merge, bit-identical on a repeated atom, on a merged-in subset and on a refused merge; "
         "`par` events compare MleJaccard::get_cardinal_estimate(registers) with get_cardinal_stats().0 under "
         "RAYON_NUM_THREADS in {1,2,16}, 5 repetitions per event, distance in representable doubles <= "
         "2(m-1) + 4 + 2(2 ceil(Kmax ln b) + 2) (bound from the error analysis, see TraceCardinality.tla). "
         "Statistical part (L3, why the category is 'other'): cells n in {1,10,10^3,10^5,(10^6 thorough)} x m in "
         "{64,256,4096} x b in {1.001,1.2,2} in the documented regime (a = 20, q = 65534/300/62), T trials per cell with "
         "fresh random 64-bit identifiers (with repetitions in extra cells); e = est/n - 1; accepted iff "
         "|mean e| <= 2 rsd^2 + 6.5 sd/sqrt(T) and | sd/rsd - 1 | <= 0.15 + 6.5 sigma(sd/rsd), rsd = the value advertised "
         "by get_cardinal_stats().1, sigma from the measured fourth moment.",
    design_ref="DESIGN.md section 2.4 (point 3), 2.6 and section 4, C06",
    note="the frequency part is a statistical test, not model checking: CLT-based radii at 6.5 sigma (normal approximation "
         "8e-11 per test, < 1e-8 over the <= 110 tests of a run); effects below the radii are invisible: measured on "
         "mutants, a scale error of the estimate of 2 % is caught in every cell with m >= 256 and 0.5 % in the m = 4096 "
         "cells (not 2 % at m = 64, where 2 rsd^2 itself is 3 %); the spread test resolves 15 % + 5-8 % in the cheap cells "
         "and is weak (radius up to 0.4) in the few-trial cells n >= 10^5, m = 4096; exp/ln are outside TLA+: the exact "
         "model is b = 2 only, for other b monotonicity is established on recorded histories only; an error of the "
         "register law that only matters for b close to 1 with effect below 0.1 % (e.g. rounding instead of floor at "
         "b = 1.001) is invisible; trusted: TLC, Json/IOUtils, the rank abstraction of doubles",
    technique="TLA+ spec + TLC (all register vectors, all reduction trees in a toy float format) + TLC trace validation of "
              "recorded estimate histories + frequency validation of recorded trials",
)

Z = 6.5            # sigma multiplier of the two CLT-based tests (DESIGN 2.4 point 3 asks for >= 6)
SPREAD_TOL = 0.15
THREADS = (1, 2, 16)
REGIME = [(1.001, 20.0, 65534, "ss_u16"), (1.2, 20.0, 300, "ss_u32"), (2.0, 20.0, 62, "ss_u16")]
MONO_PROPS = ["NeverDecreases", "StrictIffChanged", "UnionAtLeastParts"]
RED_INVS = ["ErrBound", "Higham", "PairBound", "AllRepresentable"]


# ----------------------------------------------------------------------------------------------
# exact part: TLC on the design

def card_cfg(chk, name, spec, **kw):
    c = dict(M=2, Q=2, N=3, P=3, LMAX=8, KBound=2, Dev='"none"')
    inv = kw.pop("invariants", ())
    props = kw.pop("properties", ())
    c.update(kw)
    return write_cfg(os.path.join(chk.wd, "card_%s.cfg" % name), constants=c, spec=spec, invariants=inv, properties=props)


def model(chk, quick, deviations):
    layerb.check_module(chk, "SetSketch", quick, with_mutants=deviations)
    tot = 0
    for (m, q) in ([(3, 2), (2, 3)] if quick else [(3, 2), (2, 3), (4, 2), (3, 4)]):
        cfg = card_cfg(chk, "mono_%d_%d" % (m, q), "SpecMono", M=m, Q=q, invariants=["AllVectorsReached"], properties=MONO_PROPS)
        res = tlc_check("Cardinality", cfg, chk.wd, workers=4, timeout=900, xss=True, coverage=True)
        if "StepMono" in res.coverage_zero_actions():
            raise ToolError("Cardinality/SpecMono: action never taken")
        want = (q + 2) ** m
        if res.distinct < want:
            raise ToolError("Cardinality/SpecMono M=%d Q=%d: %d states, expected at least %d register vectors" % (m, q, res.distinct, want))
        chk.tlc_stats(res)
        tot += res.distinct
    reds = [(3, 3, 32, True), (4, 3, 16, False)] if quick else \
        [(3, 3, 32, True), (4, 3, 16, True), (3, 4, 64, True), (4, 4, 32, False), (5, 3, 16, False), (6, 3, 8, False)]
    for (n, p, lmax, fold) in reds:
        cfg = card_cfg(chk, "red_%d_%d_%d" % (n, p, lmax), "SpecRed", N=n, P=p, LMAX=lmax, KBound=n - 1,
                       invariants=RED_INVS + (["FoldMono"] if fold else []))
        res = tlc_check("Cardinality", cfg, chk.wd, workers=8, timeout=1500, xss=True, coverage=True)
        zero = [a for a in res.coverage_zero_actions() if a in ("Combine", "Again")]
        if zero:
            raise ToolError("Cardinality/SpecRed: action never taken: %s" % zero)
        chk.tlc_stats(res)
        tot += res.distinct
    refuted = []
    if deviations:
        refuted = deviations_refuted(chk)
    chk.cov.setdefault("layer_b", {})["Cardinality"] = dict(distinct_states=tot, deviations_refuted=refuted,
                                                             reduction_models=["N=%d,P=%d,LMAX=%d" % r[:3] for r in reds])
    log("[C06] Cardinality.tla: %d distinct states; %s and %s hold; deviations refuted: %s" % (
        tot, ",".join(MONO_PROPS), ",".join(RED_INVS + ["FoldMono"]), ",".join(refuted) or "-"))


def deviations_refuted(chk):
    """anti-vacuity of Cardinality.tla: each deviation must make TLC report the named property"""
    out = []
    cfg = card_cfg(chk, "dev_mergemin", "SpecMono", M=3, Q=2, Dev='"mergemin"', properties=MONO_PROPS)
    tlc_check("Cardinality", cfg, chk.wd, workers=4, timeout=600, xss=True, expect_violation="NeverDecreases")
    out.append("mergemin")
    cfg = card_cfg(chk, "dev_chop", "SpecRed", N=3, P=3, LMAX=32, KBound=2, Dev='"chop"', invariants=["ErrBound"])
    tlc_check("Cardinality", cfg, chk.wd, workers=4, timeout=600, xss=True, expect_violation="ErrBound")
    out.append("chop")
    # rounded addition is not associative (KBound = 0), and the bound has to grow with N (KBound = 1 fails for N = 4)
    cfg = card_cfg(chk, "dev_assoc", "SpecRed", N=3, P=3, LMAX=32, KBound=0, invariants=["PairBound"])
    tlc_check("Cardinality", cfg, chk.wd, workers=4, timeout=600, xss=True, expect_violation="PairBound")
    out.append("associative")
    cfg = card_cfg(chk, "dev_k1", "SpecRed", N=4, P=3, LMAX=16, KBound=1, invariants=["PairBound"])
    tlc_check("Cardinality", cfg, chk.wd, workers=4, timeout=600, xss=True, expect_violation="PairBound")
    out.append("bound-independent-of-N")
    return out


# ----------------------------------------------------------------------------------------------
# binding: recorded histories validated by TLC

def par_bound(m, kl):
    return 2 * (m - 1) + 4 + 2 * (2 * kl + 2)


def record_args(tier, seed, threads):
    if tier == "quick":
        return dict(seed=seed + threads, ms="1,2,3,8,64,256,4096", len=40, maxbulk=10000, parrep=5)
    if tier == "selftest":
        return dict(seed=seed + threads, ms="2,8,64", len=40, maxbulk=100, parrep=3)
    if tier == "long":       # cardinalities up to millions on the documented sketch size
        return dict(seed=seed + 100 + threads, ms="4096", len=16, maxbulk=1000000, parrep=5, kinds="ss_u16")
    return dict(seed=seed + threads, ms="1,2,3,5,8,64,256,1000,4096,20000", len=60, maxbulk=10000, parrep=5)


def record(chk, args, threads, name):
    tf = os.path.join(chk.wd, "trace_%s.ndjson" % name)
    sf = os.path.join(chk.wd, "trace_%s.stats.json" % name)
    harness("c06", ["record", "out=" + tf, "stats=" + sf] + ["%s=%s" % kv for kv in args.items()],
            env={"RAYON_NUM_THREADS": str(threads)}, timeout=3000)
    return tf, json.load(open(sf))


def run_events(rows, run):
    return [r for r in rows if r.get("run") == run]


def trace_tags(bad):
    op = (bad or {}).get("op")
    t = dict(kind="trace", op=op)
    if op == "panic":
        t["call"] = bad.get("call")
    return t


def record_all(chk, plans):
    """the harness processes (one per plan = (tier, RAYON_NUM_THREADS)) run side by side; validation is sequential"""
    from concurrent.futures import ThreadPoolExecutor
    with ThreadPoolExecutor(max_workers=len(plans)) as ex:
        futs = {p: ex.submit(record, chk, record_args(p[0], chk.seed, p[1]), p[1], "%s_t%d" % p) for p in plans}
        return {p: f.result() for p, f in futs.items()}


def record_and_validate(chk, tier, threads, recorded=None):
    args = record_args(tier, chk.seed, threads)
    tf, st = recorded if recorded else record(chk, args, threads, "%s_t%d" % (tier, threads))
    if st["threads"] != threads:
        raise ToolError("harness ran with %d rayon threads, %d requested" % (st["threads"], threads))
    v = validate_trace("TraceCardinality", tf, chk.wd, timeout=1500)
    rows = read_ndjson(tf)
    nruns = sum(1 for r in rows if r.get("op") == "new")
    chk.add("traces_validated_against_impl", nruns)
    chk.add("trace_events", len(rows) - 1)
    chk.add("evaluations", len(rows) - 1)
    chk.add("items_sketched_in_traces", st["items"])
    chk.add("par_calls", st["par_calls"])
    chk.cov["states"] += v["distinct"]
    chk.cov["transitions"] += v["generated"]
    # non-trivial events by the stated rule
    prev = {}
    empty = set()
    nt = dict(grow=0, same=0, par=0, refused=0)
    for r in rows[1:]:
        op = r.get("op")
        if op == "new":
            prev = {i + 1: e for i, e in enumerate(r["e0"])}
            empty = set(prev)
            continue
        i = r.get("i")
        if op in ("sk", "mg") and r.get("e", 0) > prev.get(i, 0) and r.get("out", "ok") == "ok":
            nt["grow"] += 1
        if op == "dup" or (op == "mg" and r.get("out") == "ok" and r.get("e") == prev.get(i)):
            if i not in empty:
                nt["same"] += 1
        if op == "mg" and r.get("out") == "refused":
            nt["refused"] += 1
        if op == "par" and r["m"] >= 64:
            nt["par"] += 1
        if op in ("sk", "mg", "dup") and "e" in r:
            prev[i] = r["e"]
            empty.discard(i)
    for k, n in nt.items():
        chk.add("trace_" + k, n)
    chk.add("distinct_nontrivial", nt["grow"] + nt["same"] + nt["par"])
    pm = chk.cov.setdefault("par_measured", {})
    pm["%s threads=%d" % (tier, threads)] = dict(max_ulp=st["par_max_ulp"], at_m=st["par_max_m"], max_over_m_minus_1=round(st["par_max_over_m1"], 4),
                                      events=st["par_events"], events_with_nonzero_distance=st["par_nonzero"])
    if not v["accepted"]:
        bad = rows[v["matched"]] if v["matched"] < len(rows) else None
        run = bad.get("run") if bad else None
        hdr = [r for r in rows if r.get("op") == "new" and r.get("run") == run]
        tags = trace_tags(bad)
        if bad and bad.get("op") == "par":
            tags["what"] = "par-vs-seq" if max(bad.get("ds", [0])) > par_bound(bad["m"], bad["kl"]) else "par-changed-estimate"
        chk.violation(tags, dict(kind="trace", header=rows[0], rejected_event=bad, run_events=run_events(rows, run),
                                 run_header=hdr[0] if hdr else None, threads=threads, args=args, tier=tier))
    chk.sample(dict(rows[min(len(rows) - 1, 6)], kind="trace-event", threads=threads), cap=3)
    pars = [r for r in rows if r.get("op") == "par" and r["m"] >= 256 and max(r["ds"]) > 0]
    if pars:
        chk.sample(dict(pars[0], kind="trace-event", threads=threads), cap=5)
    log("[C06] trace %s threads=%d: %d events in %d runs (%d items), accepted=%s; par: max distance %d doubles at m=%d (bound %d+), %d/%d events non-zero (%.1fs TLC)" % (
        tier, threads, len(rows) - 1, nruns, st["items"], v["accepted"], st["par_max_ulp"], st["par_max_m"],
        2 * (max(st["par_max_m"], 1) - 1) + 8, st["par_nonzero"], st["par_events"], v["wall"]))
    return v, tf


# ----------------------------------------------------------------------------------------------
# L3: frequency validation

def trials_for(tier, n, m):
    if tier == "quick":
        t = {1: {64: 10000, 256: 10000, 4096: 10000},
             10: {64: 10000, 256: 10000, 4096: 3000},
             1000: {64: 10000, 256: 6000, 4096: 1000},
             100000: {64: 1000, 256: 500, 4096: 150}}
    else:
        t = {1: {64: 20000, 256: 20000, 4096: 20000},
             10: {64: 20000, 256: 20000, 4096: 10000},
             1000: {64: 20000, 256: 20000, 4096: 4000},
             100000: {64: 10000, 256: 4000, 4096: 800},
             1000000: {64: 1000, 256: 600, 4096: 150}}
    return t[n][m]


def make_cells(tier):
    ns = [1, 10, 1000, 100000] + ([1000000] if tier != "quick" else [])
    cells = []
    for n in ns:
        for m in (64, 256, 4096):
            for (b, a, q, kind) in REGIME:
                cells.append(dict(n=n, m=m, b=b, a=a, q=q, kind=kind, rep=1, trials=trials_for(tier, n, m)))
    # streams with repeated items (every identifier 2 or 3 times, other orders), other register type
    for (n, m, rep) in ((10, 64, 3), (1000, 64, 2), (1000, 256, 2)):
        for (b, a, q, kind) in REGIME:
            k2 = "ss_u32" if kind == "ss_u16" else ("ss_u16" if q + 1 <= 65535 else kind)
            cells.append(dict(n=n, m=m, b=b, a=a, q=q, kind=k2, rep=rep, trials=trials_for(tier, n, m) // 2))
    # 32-bit registers whose values exceed the 16-bit range (fine base: registers around ln(a n)/ln(b) > 65535)
    for (n, m) in ((100000, 64), (100000, 256)) + (((1000000, 256),) if tier != "quick" else ()):
        cells.append(dict(n=n, m=m, b=1.0002, a=20.0, q=2 ** 24 - 2, kind="ss_u32", rep=1, trials=trials_for(tier, n, m) // 4))
    for i, c in enumerate(cells):
        c["id"] = i
    return cells


def judge(c, f, scale=1.0, stretch=1.0):
    """the two acceptance inequalities of a cell.  scale/stretch transform the sample (e -> scale*(1+e)-1, deviations from
    the mean multiplied by stretch): used by the self-test only"""
    t = f["trials"]
    rsd = f["rsd"]
    mean = scale * (1.0 + f["mean"]) - 1.0
    k = scale * stretch
    m2 = f["m2"] * k * k
    m4 = f["m4"] * k ** 4
    var = m2 * t / (t - 1.0)
    sd = math.sqrt(var)
    kurt = m4 / (m2 * m2) if m2 > 0 else 3.0
    eps = Z * sd / math.sqrt(t)
    bound = 2.0 * rsd * rsd
    ratio = sd / rsd
    sig = ratio * math.sqrt(max(kurt - 1.0, 0.0) / (4.0 * t))
    res = dict(n=c["n"], m=c["m"], b=c["b"], a=c["a"], q=c["q"], regtype=c["kind"], rep=c["rep"], trials=t, rsd_advertised=rsd,
               mean_rel_err=mean, bound_2rsd2=bound, radius_mean=eps, sd_rel_err=sd, sd_over_rsd=ratio,
               radius_ratio=Z * sig, kurtosis=kurt, min=f["min"], max=f["max"],
               regs_zero=f["regs_zero"], regs_clipped=f["regs_clipped"])
    res["bias_ok"] = abs(mean) <= bound + eps
    res["spread_ok"] = abs(ratio - 1.0) <= SPREAD_TOL + Z * sig
    return res


def run_freq(chk, cells, name="freq"):
    cin = os.path.join(chk.wd, name + "_cells.json")
    json.dump(dict(cells=cells), open(cin, "w"))
    fout = os.path.join(chk.wd, name + ".json")
    harness("c06", ["freq", "in=" + cin, "out=" + fout, "seed=%d" % chk.seed], timeout=3000)
    return json.load(open(fout))["cells"]


def freq_tags(what, c):
    return dict(kind="freq", what=what, n=c["n"], m=c["m"], b=c["b"])


def frequency(chk, tier):
    cells = make_cells(tier)
    fr = run_freq(chk, cells)
    worst_b, worst_s = 0.0, 0.0
    table = []
    for c, f in zip(cells, fr):
        chk.add("evaluations", f["trials"] + f["panics"] + f["nonfinite"])
        chk.add("freq_trials", f["trials"])
        chk.add("items_sketched_in_trials", c["n"] * c["rep"] * c["trials"])
        scen = dict(kind="freq", cell=c, seed=chk.seed, tier=tier)
        if f["panics"] or f["nonfinite"]:
            chk.violation(freq_tags("panic" if f["panics"] else "nonfinite", c), dict(result=f, **scen))
            continue
        if not (isinstance(f["rsd"], float) and math.isfinite(f["rsd"]) and f["rsd"] > 0) or f["trials"] < 30:
            chk.violation(freq_tags("rsd", c), dict(result=f, **scen))
            continue
        r = judge(c, f)
        table.append(r)
        chk.add("distinct_nontrivial", 1)
        worst_b = max(worst_b, abs(r["mean_rel_err"]) / (r["bound_2rsd2"] + r["radius_mean"]))
        worst_s = max(worst_s, abs(r["sd_over_rsd"] - 1.0) / (SPREAD_TOL + r["radius_ratio"]))
        if c["m"] == 64 or c["n"] >= 100000:
            chk.sample(dict(r, kind="freq-cell"), cap=8)
        if not r["bias_ok"]:
            chk.violation(freq_tags("bias", c), dict(what="bias", result=r, **scen))
        if not r["spread_ok"]:
            chk.violation(freq_tags("spread", c), dict(what="spread", result=r, **scen))
    chk.cov["freq_cells"] = len(cells)
    chk.cov["freq_table"] = [dict(n=r["n"], m=r["m"], b=r["b"], rep=r["rep"], T=r["trials"], mean=round(r["mean_rel_err"], 6),
                                  bound=round(r["bound_2rsd2"], 6), eps=round(r["radius_mean"], 6), ratio=round(r["sd_over_rsd"], 4),
                                  ratio_radius=round(r["radius_ratio"], 4), clipped=r["regs_clipped"], zero=r["regs_zero"]) for r in table]
    chk.cov["worst_bias_over_allowance"] = round(worst_b, 4)
    chk.cov["worst_spread_over_allowance"] = round(worst_s, 4)
    log("[C06] frequency: %d cells, %d trials; worst |mean e|/(2 rsd^2 + eps) = %.3f, worst |sd/rsd - 1|/(0.15 + radius) = %.3f" % (
        len(cells), chk.cov.get("freq_trials", 0), worst_b, worst_s))
    return table


# ----------------------------------------------------------------------------------------------

def run(chk):
    build_harness("c06")
    quick = chk.tier == "quick"
    chk.cov["rule"] = ("traces: per rayon thread count one run per (register type x parameter tuple x m), random histories of "
                       "sketch / repeat / merge / par over 2-3 instances; non-trivial events = sketch or merge that strictly "
                       "raised the estimate + repeated atom or subset merge on a non-empty instance + par event with m >= 64; "
                       "frequency cells (n, m, b, repetitions) count 1 each")
    chk.assumptions += ["items of a trial are fresh uniformly random 64-bit identifiers (independent trials)",
                        "the two statistical tests use the normal approximation at %.1f sigma (relative error bounded below "
                        "by -1, light upper tail: measured kurtosis 2.9-3.7)" % Z,
                        "exp and ln are outside TLA+: the exact monotonicity model uses b = 2 and a toy floating-point format"]
    ph = chk.cov.setdefault("phase_wall_s", {})
    t0 = time.time()
    model(chk, quick, deviations=not quick)
    ph["tlc_design"] = round(time.time() - t0, 1)
    t0 = time.time()
    plans = [(chk.tier, t) for t in THREADS] + ([] if quick else [("long", 16)])
    rec = record_all(chk, plans)
    for p in plans:
        record_and_validate(chk, p[0], p[1], rec[p])
    ph["traces"] = round(time.time() - t0, 1)
    t0 = time.time()
    frequency(chk, chk.tier)
    ph["frequency"] = round(time.time() - t0, 1)
    chk.cov["explanation"] = (
        "design level: exhaustive for the listed small models (all register vectors, all reduction trees); code level: recorded "
        "estimate histories validated event by event by TLC (exact: monotone, bit-identical on repeats, par-vs-seq within the "
        "analysed rounding bound) and a statistical test of bias and spread per cell: |mean e| <= 2 rsd^2 + %.1f sd/sqrt(T), "
        "|sd/rsd - 1| <= 0.15 + %.1f sigma; normal-approximation false-alarm probability < 1e-8 per run; detectable effects are "
        "the radii listed in freq_table" % (Z, Z))


def replay(chk, path):
    sc = json.load(open(path))["scenario"]
    build_harness("c06")
    if sc["kind"] == "trace":
        tf = os.path.join(chk.wd, "one.ndjson")
        write_ndjson(tf, [sc["header"]] + sc["run_events"])      # run_events starts with the run's "new" event
        v = validate_trace("TraceCardinality", tf, chk.wd)
        log("recorded run re-validated: accepted=%s" % v["accepted"])
        # and the same history recorded again from the current tree
        tf2, st = record(chk, sc["args"], sc["threads"], "replay")
        v2 = validate_trace("TraceCardinality", tf2, chk.wd)
        log("history recorded again from the current tree (threads=%s): accepted=%s" % (sc["threads"], v2["accepted"]))
        if not v2["accepted"]:
            rows = read_ndjson(tf2)
            log("rejected event: %s" % json.dumps(rows[v2["matched"]] if v2["matched"] < len(rows) else None))
            log("VIOLATION property=C06 replay=%s" % path)
            return 1
        return 0
    c = sc["cell"]
    f = run_freq(chk, [c], "replay")[0]
    if f["panics"] or f["nonfinite"]:
        log("cell %s: %d panics, %d non-finite estimates" % (json.dumps(c), f["panics"], f["nonfinite"]))
        log("VIOLATION property=C06 replay=%s" % path)
        return 1
    r = judge(c, f)
    log("cell re-measured on the current tree: %s" % json.dumps(r))
    if not (r["bias_ok"] and r["spread_ok"]):
        log("VIOLATION property=C06 replay=%s" % path)
        return 1
    return 0


def selftest(chk):
    """anti-vacuity: corrupted observations are rejected at their line, spec deviations are refuted, the statistical
    acceptance rule rejects a 5 % scale error and a 30 % spread error"""
    build_harness("c06")
    ok = True
    refuted = deviations_refuted(chk)
    layerb.check_module(chk, "SetSketch", True, with_mutants=True)
    v, tf = record_and_validate(chk, "selftest", 2)
    if not v["accepted"]:
        log("[C06 selftest] the recorded trace is not accepted: run ./check C06")
        return 2
    rows = read_ndjson(tf)

    def reject_at(name, bad, idx):
        f = os.path.join(chk.wd, "st_%s.ndjson" % name)
        write_ndjson(f, bad)
        r = validate_trace("TraceCardinality", f, chk.wd)
        good = (not r["accepted"]) and (idx is None or r["matched"] == idx)
        log("[C06 selftest] %s: rejected=%s at line %d (expected %s)" % (name, not r["accepted"], r["matched"] + 1,
                                                                         "any" if idx is None else idx + 1))
        return good

    def clone():
        return [json.loads(json.dumps(r)) for r in rows]
    # 1. an estimate lowered in the middle of a run
    prev = {}
    cand = []
    for k, r in enumerate(rows):
        if r.get("op") == "new":
            prev = {i + 1: e for i, e in enumerate(r["e0"])}
        elif r.get("op") in ("sk", "mg", "dup"):
            if r.get("op") in ("sk", "mg") and r["e"] > prev[r["i"]] and prev[r["i"]] > 1:
                cand.append((k, prev[r["i"]]))
            prev[r["i"]] = r["e"]
    dups = [k for k, r in enumerate(rows) if r.get("op") == "dup"]
    pars = [k for k, r in enumerate(rows) if r.get("op") == "par"]
    if not (cand and dups and pars):
        log("[C06 selftest] the recorded trace has no suitable event to corrupt")
        return 2
    k, before = cand[len(cand) // 2]
    bad = clone()
    bad[k]["e"] = before - 1
    ok &= reject_at("estimate-lowered", bad, k)
    # 2. a repeated atom that changes the estimate
    k = dups[len(dups) // 2]
    bad = clone()
    bad[k]["e"] += 1
    ok &= reject_at("dup-changes-estimate", bad, k)
    # 3. par estimate beyond the bound
    k = pars[len(pars) // 2]
    bad = clone()
    bad[k]["ds"][-1] = par_bound(bad[k]["m"], bad[k]["kl"]) + 1
    ok &= reject_at("par-beyond-bound", bad, k)
    good = clone()
    good[k]["ds"][-1] = par_bound(good[k]["m"], good[k]["kl"])
    f = os.path.join(chk.wd, "st_par_at_bound.ndjson")
    write_ndjson(f, good)
    r = validate_trace("TraceCardinality", f, chk.wd)
    log("[C06 selftest] par-at-bound: accepted=%s" % r["accepted"])
    ok &= r["accepted"]
    # 4. a removed event: the first sketch of an atom that is repeated later on the same instance
    rm = None
    for k, r in enumerate(rows):
        if r.get("op") == "sk":
            later = [j for j in range(k + 1, len(rows)) if rows[j].get("run") == r["run"]]
            hit = None
            for j in later:
                q = rows[j]
                if q.get("op") == "mg" and q["i"] == r["i"]:
                    break  # the atom may come back through the merge
                if q.get("op") == "dup" and q["i"] == r["i"] and q["x"] == r["x"]:
                    hit = j
                    break
            if hit is not None:
                rm = (k, hit)
                break
    if rm is None:
        log("[C06 selftest] no removable event found")
        return 2
    ok &= reject_at("event-removed", rows[:rm[0]] + rows[rm[0] + 1:], None)
    # 5. the statistical acceptance rule
    cells = [dict(id=0, n=10, m=256, b=1.2, a=20.0, q=300, kind="ss_u32", rep=1, trials=6000)]
    f0 = run_freq(chk, cells, "st_freq")[0]
    r0 = judge(cells[0], f0)
    r1 = judge(cells[0], f0, scale=1.05)
    r2 = judge(cells[0], f0, stretch=1.3)
    r3 = judge(cells[0], f0, stretch=0.7)
    s_ok = r0["bias_ok"] and r0["spread_ok"] and (not r1["bias_ok"]) and (not r2["spread_ok"]) and (not r3["spread_ok"])
    log("[C06 selftest] frequency rule on n=10 m=256 b=1.2: measured accepted=%s; estimate x1.05 rejected=%s; spread x1.3 rejected=%s; "
        "spread x0.7 rejected=%s" % (r0["bias_ok"] and r0["spread_ok"], not r1["bias_ok"], not r2["spread_ok"], not r3["spread_ok"]))
    ok &= s_ok
    log("[C06 selftest] spec deviations refuted: %s; result: %s" % (",".join(refuted), "ok" if ok else "FAILED"))
    return 0 if ok else 2
