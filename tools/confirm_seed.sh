#!/bin/bash
# usage: tools/confirm_seed.sh <dir with patch.diff demo.rs> <label> [skip-suite]
# Confirms a seeded change in a fresh scratch worktree of /repo: demo passes on the clean tree, fails with the patch,
# and the existing test suite (guard off) still passes its 34 stable tests with the patch.  Prints one JSON line.
set -u
SRC="$1"; LABEL="$2"; SKIP="${3:-}"
W=/tmp/cf_$LABEL
rm -rf "$W"; git -C /repo worktree prune; git -C /repo worktree add -q --detach "$W" HEAD || exit 2
mkdir -p "$W/tests"; cp "$SRC/demo.rs" "$W/tests/demo.rs"
FLAGS=""
if grep -q "verif" "$SRC/demo.rs"; then FLAGS="--cfg probminhash_verif"; fi
cd "$W"
RUSTFLAGS="$FLAGS" timeout 1500 cargo test --offline --test demo > "$W/demo_clean.log" 2>&1; RC_CLEAN=$?
if ! git apply "$SRC/patch.diff" 2> "$W/apply.log"; then echo "{\"label\":\"$LABEL\",\"error\":\"patch does not apply\"}"; cd /; git -C /repo worktree remove --force "$W"; exit 0; fi
RUSTFLAGS="$FLAGS" timeout 1500 cargo test --offline --test demo > "$W/demo_patched.log" 2>&1; RC_PATCH=$?
SUITE="skipped"; NEWFAIL=""
if [ -z "$SKIP" ]; then
  rm -f tests/demo.rs
  timeout 3000 cargo test --offline --lib --no-fail-fast ${SUITE_FLAGS:-} > "$W/suite.log" 2>&1
  python3 - "$W/suite.log" > "$W/suite.json" <<'PY'
import json,re,sys
stable=[t.split("::",1)[1] for t in json.load(open('/root/.vp/BASELINE.json'))['stable_pass']]
log=open(sys.argv[1]).read()
res=dict(re.findall(r"^test (\S+) \.\.\. (\w+)", log, flags=re.M))
bad=[t for t in stable if res.get(t)!="ok"]
print(json.dumps(dict(ran=len(res), stable_failing=bad)))
PY
  SUITE=$(cat "$W/suite.json")
fi
mkdir -p /verif/work/confirm; cp "$W"/demo_clean.log /verif/work/confirm/${LABEL}_demo_clean.log; cp "$W"/demo_patched.log /verif/work/confirm/${LABEL}_demo_patched.log; [ -f "$W/suite.log" ] && cp "$W/suite.log" /verif/work/confirm/${LABEL}_suite.log
echo "{\"label\":\"$LABEL\",\"demo_clean_rc\":$RC_CLEAN,\"demo_patched_rc\":$RC_PATCH,\"suite_flags\":\"${SUITE_FLAGS:-}\",\"suite\":$( [ "$SUITE" = skipped ] && echo '"skipped"' || echo "$SUITE")}"
cd /; git -C /repo worktree remove --force "$W"
