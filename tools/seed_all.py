#!/usr/bin/env python3
"""assembles /verif/seeded/<label>/ (patch.diff, demo.rs, notes.md, meta.json), seeded/RESULTS.json and the table of
DESIGN.md section 8.2 from work/seedin (deliverables of the mutant sub-agents), work/confirm/batch*.log (confirmations)
and work/confirm/<label>_<ID>.log (evaluations)."""
import json
import os
import re
import shutil
import sys

ROOT = os.path.dirname(os.path.dirname(os.path.abspath(__file__)))
sys.path.insert(0, os.path.join(ROOT, "tools"))
from seed_meta import META, BEFORE  # noqa: E402

conf = {}
cdir = os.path.join(ROOT, "work", "confirm")
for fn in sorted(os.listdir(cdir)):
    if fn.startswith("batch") and fn.endswith(".log"):
        for line in open(os.path.join(cdir, fn)):
            line = line.strip()
            if line.startswith("{"):
                d = json.loads(line)
                conf[d["label"]] = d

def reparse_suite(label, c):
    """the per-test lines of the suite log can be torn by log output of the tests themselves: the summary line and the
    `failures:` list of libtest are authoritative"""
    lp = os.path.join(cdir, "%s_suite.log" % label)
    if not (c and isinstance(c.get("suite"), dict) and c["suite"].get("stable_failing") and os.path.exists(lp)):
        return c
    log = open(lp, errors="replace").read()
    m = re.search(r"test result: (\w+)\. (\d+) passed; (\d+) failed", log)
    if not m:
        return c
    failed = re.findall(r"^    (\S+)$", log.split("failures:")[-1], flags=re.M) if int(m.group(3)) else []
    stable = [t.split("::", 1)[1] for t in json.load(open("/root/.vp/BASELINE.json"))["stable_pass"]]
    c = dict(c)
    c["suite"] = dict(ran=int(m.group(2)) + int(m.group(3)), stable_failing=[t for t in failed if t in stable],
                      note="re-derived from libtest's summary line (per-test lines were torn by log output)")
    return c


results = []
rows = []
for label in sorted(META):
    prop, checks, desc, needs = META[label]
    src = os.path.join(ROOT, "work", "seedin", label)
    c = reparse_suite(label, conf.get(label))
    confirmed = bool(c and c.get("demo_clean_rc") == 0 and c.get("demo_patched_rc") not in (0, None)
                     and isinstance(c.get("suite"), dict) and not c["suite"]["stable_failing"])
    res = {}
    for ck in checks.split(","):
        lp = os.path.join(cdir, "%s_%s.log" % (label, ck))
        if not os.path.exists(lp):
            continue
        log = open(lp).read()
        viol = len(re.findall(r"^VIOLATION", log, flags=re.M))
        res[ck] = dict(caught=viol > 0, violation_lines=viol, tool_error="TOOL-ERROR" in log)
    meta = dict(label=label, breaks_property=prop, description=desc, needs_to_manifest=needs, confirmation=c,
                confirmed=confirmed, checks_quick_tier=res, before_strengthening=BEFORE.get(label, "caught by the checks as first built"),
                ran=["%stools/confirm_seed.sh work/seedin/%s %s   # demo on clean tree, demo with patch, the crate's unit tests (34 stable baseline tests) with patch"
                     % (("SUITE_FLAGS=%s " % c["suite_flags"]) if c and c.get("suite_flags") else "", label, label)]
                + ["tools/eval_seed.sh seeded/%s/patch.diff %s %s   # quick tier against a patched scratch copy of /repo" % (label, label, ck)
                   for ck in checks.split(",")])
    results.append(meta)
    if confirmed and os.path.isdir(src):
        dst = os.path.join(ROOT, "seeded", label)
        os.makedirs(dst, exist_ok=True)
        for f in ("patch.diff", "demo.rs", "notes.md"):
            if os.path.exists(os.path.join(src, f)):
                shutil.copy(os.path.join(src, f), os.path.join(dst, f))
        json.dump(meta, open(os.path.join(dst, "meta.json"), "w"), indent=1)
    caught = [k for k, v in res.items() if v["caught"]]
    missed = [k for k, v in res.items() if not v["caught"]]
    rows.append("| %s | %s | %s | %s | %s | %s |" % (
        label, prop, desc, needs, ", ".join(caught) + ((" (not " + ", ".join(missed) + ")") if missed else "") if res else "not evaluated",
        BEFORE.get(label, "caught as first built") if confirmed else "NOT CONFIRMED"))
os.makedirs(os.path.join(ROOT, "seeded"), exist_ok=True)
json.dump(dict(results=results), open(os.path.join(ROOT, "seeded", "RESULTS.json"), "w"), indent=1)
table = "| id | property | change | needs | caught now by | as first built |\n|---|---|---|---|---|---|\n" + "\n".join(rows)
open(os.path.join(ROOT, "seeded", "TABLE.md"), "w").write(table + "\n")
dp = os.path.join(ROOT, "DESIGN.md")
ds = open(dp).read()
b, e = ds.find("<!-- SEEDED-TABLE-BEGIN -->"), ds.find("<!-- SEEDED-TABLE-END -->")
if b >= 0 and e > b:
    ds = ds[:b] + "<!-- SEEDED-TABLE-BEGIN -->\n" + table + "\n" + ds[e:]
    open(dp, "w").write(ds)
nconf = sum(1 for r in results if r["confirmed"])
ncaught = sum(1 for r in results if r["confirmed"] and any(v["caught"] for v in r["checks_quick_tier"].values()))
nown = sum(1 for r in results if r["confirmed"] and r["checks_quick_tier"].get(r["breaks_property"], {}).get("caught"))
print("%d seeded changes, %d confirmed, %d caught by some check, %d caught by the check of their own property, %d needed strengthening"
      % (len(results), nconf, ncaught, nown, sum(1 for r in results if r["label"] in BEFORE)))
