#!/usr/bin/env python3
"""usage: tools/seed_keep.py <label> <property> <checks run, comma separated> "<one-line description>" "<what it needs to manifest>"
Moves a confirmed seeded change from work/seedin/<label> to seeded/<label>/ and writes meta.json from the confirmation
(work/confirm/<label>.json, written by confirm_seed.sh output) and evaluation logs (work/confirm/<label>_<ID>.log)."""
import json
import os
import re
import shutil
import sys

ROOT = os.path.dirname(os.path.dirname(os.path.abspath(__file__)))
label, prop, checks, desc, needs = sys.argv[1:6]
src = os.path.join(ROOT, "work", "seedin", label)
dst = os.path.join(ROOT, "seeded", label)
os.makedirs(dst, exist_ok=True)
for f in ("patch.diff", "demo.rs", "notes.md"):
    if os.path.exists(os.path.join(src, f)):
        shutil.copy(os.path.join(src, f), os.path.join(dst, f))
conf = None
for fn in os.listdir(os.path.join(ROOT, "work", "confirm")):
    if fn.startswith("batch") and fn.endswith(".log"):
        for line in open(os.path.join(ROOT, "work", "confirm", fn)):
            line = line.strip()
            if line.startswith("{") and '"label":"%s"' % label in line:
                conf = json.loads(line)
results = {}
for c in checks.split(","):
    lp = os.path.join(ROOT, "work", "confirm", "%s_%s.log" % (label, c))
    if not os.path.exists(lp):
        continue
    log = open(lp).read()
    viol = len(re.findall(r"^VIOLATION", log, flags=re.M))
    tool = "TOOL-ERROR" in log
    parts = re.findall(r"^\[%s\] ([^:]+): .* (\d+) run\(s\) rejected" % c, log, flags=re.M)
    results[c] = dict(caught=viol > 0, violations_printed=viol, tool_error=tool,
                      rejecting_parts=[p for p, n in parts if int(n) > 0])
meta = dict(label=label, breaks_property=prop, description=desc, needs_to_manifest=needs,
            confirmation=conf, confirmed=bool(conf and conf.get("demo_clean_rc") == 0 and conf.get("demo_patched_rc") != 0
                                              and isinstance(conf.get("suite"), dict) and not conf["suite"]["stable_failing"]),
            ran=["tools/confirm_seed.sh work/seedin/%s %s" % (label, label)] + ["tools/eval_seed.sh seeded/%s/patch.diff %s %s" % (label, label, c) for c in checks.split(",")],
            checks=results)
json.dump(meta, open(os.path.join(dst, "meta.json"), "w"), indent=1)
print(json.dumps(meta, indent=1))
