#!/bin/bash
# usage: tools/seed_pipeline.sh <listfile: "label check check ..." per line> <worker index> <nworkers>
# confirms and evaluates the listed seeded changes (work/seedin/<label>) - one worker takes every n-th line
LIST="$1"; W="$2"; N="$3"; i=0
while read -r L CHECKS; do
  if [ $((i % N)) -eq "$W" ]; then
    /verif/tools/confirm_seed.sh /verif/work/seedin/$L $L >> /verif/work/confirm/batch_r2_$W.log 2>&1

  fi
  i=$((i+1))
done < "$LIST"
