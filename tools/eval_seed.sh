#!/bin/bash
# usage: tools/eval_seed.sh <patch.diff> <label> <ID> [<ID> ...]
# runs the quick tier of the given checks against a scratch copy of /repo with the patch applied; prints one line per check
PATCH="$1"; LABEL="$2"; shift 2
for ID in "$@"; do
  /verif/tools/mutant_run.sh "$PATCH" "ev_$LABEL" "$ID" > /verif/work/confirm/${LABEL}_$ID.log 2>&1
  RC=$?
  echo "$LABEL $ID rc=$RC violations=$(grep -c '^VIOLATION' /verif/work/confirm/${LABEL}_$ID.log) known=$(grep -c '^KNOWN-FINDING' /verif/work/confirm/${LABEL}_$ID.log)"
done
rm -rf /tmp/mut_ev_$LABEL
