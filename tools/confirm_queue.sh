#!/bin/bash
# usage: tools/confirm_queue.sh <file with labels> <worker> <nworkers> <batch tag>
# confirms the listed seeded changes; skips a label that is already confirmed or in progress
LIST="$1"; W="$2"; N="$3"; TAG="$4"; i=0
while read -r L; do
  if [ $((i % N)) -eq "$W" ]; then
    if grep -qs "\"label\":\"$L\"" /verif/work/confirm/batch_${TAG}_*.log || [ -d /tmp/cf_$L ]; then :; else
      /verif/tools/confirm_seed.sh /verif/work/seedin/$L $L >> /verif/work/confirm/batch_${TAG}_q$W.log 2>&1
    fi
  fi
  i=$((i+1))
done < "$LIST"
