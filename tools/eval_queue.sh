#!/bin/bash
# usage: tools/eval_queue.sh <listfile "label ID [ID..]" per line> <worker> <nworkers> <outfile>
LIST="$1"; W="$2"; N="$3"; OUT="$4"; i=0
while read -r L CHECKS; do
  if [ $((i % N)) -eq "$W" ]; then
    /verif/tools/eval_seed.sh /verif/work/seedin/$L/patch.diff $L $CHECKS >> "$OUT" 2>&1
  fi
  i=$((i+1))
done < "$LIST"
