#!/bin/bash
# usage: tools/eval_queue.sh <listfile "label ID [ID..]" per line> <worker> <nworkers> <outfile>
# every worker keeps one scratch copy (/tmp/mut_evw<worker>, with its cargo target directory) for all its runs;
# a run already present in <outfile> is skipped
LIST="$1"; W="$2"; N="$3"; OUT="$4"; i=0
while read -r L CHECKS; do
  if [ $((i % N)) -eq "$W" ]; then
    for ID in $CHECKS; do
      if grep -qs "^$L $ID rc=" "$OUT"; then continue; fi
      /verif/tools/mutant_run.sh /verif/work/seedin/$L/patch.diff evw$W "$ID" > /verif/work/confirm/${L}_$ID.log 2>&1
      RC=$?
      echo "$L $ID rc=$RC violations=$(grep -c '^VIOLATION' /verif/work/confirm/${L}_$ID.log) known=$(grep -c '^KNOWN-FINDING' /verif/work/confirm/${L}_$ID.log)" >> "$OUT"
    done
  fi
  i=$((i+1))
done < "$LIST"
