#!/bin/bash
# usage: tools/mutant_run.sh <patch.diff | -> <scratch-name> <check args...>
# Runs ./check against a scratch copy of /repo with the patch applied, without touching /repo or /verif.
# Scratch lives in /tmp/mut_<name>; remove it with: rm -rf /tmp/mut_<name>
set -e
PATCH="$1"; NAME="$2"; shift 2
D=/tmp/mut_$NAME
if [ ! -d "$D/repo" ]; then
  mkdir -p "$D"
  rsync -a --exclude target --exclude .git /repo/ "$D/repo/"
  ( cd "$D/repo" && git init -q . && git add -A >/dev/null && git -c user.email=a@b -c user.name=x commit -qm base )
fi
( cd "$D/repo" && git checkout -q -- . && git clean -fdq )
if [ "$PATCH" != "-" ]; then ( cd "$D/repo" && git apply "$PATCH" ); fi
mkdir -p "$D/verif"
rsync -a --delete --exclude harness/target --exclude work --exclude replays --exclude evidence --exclude .git /verif/ "$D/verif/"
sed -i "s#path = \"/repo\"#path = \"$D/repo\"#" "$D/verif/harness/Cargo.toml"
cd "$D/verif" && ./check "$@"
