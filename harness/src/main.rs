mod c15;
mod util;

fn main() {
    let argv: Vec<String> = std::env::args().collect();
    if argv.len() < 2 {
        util::tool_error("usage: pmh-verif <subcommand> key=value ...");
    }
    let a = util::Args::parse(&argv[2..]);
    match argv[1].as_str() {
        "c15-replay" => c15::replay(&a),
        "c15-record" => c15::record(&a),
        other => util::tool_error(&format!("unknown subcommand {}", other)),
    }
}
