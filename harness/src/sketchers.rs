//! uniform adapters over the sketchers of the crate, used by several harness binaries
#![allow(dead_code)]

use crate::util::*;
use fnv::{FnvBuildHasher, FnvHasher};
use indexmap::IndexMap;
use probminhash::probminhasher::{ProbMinHash2, ProbMinHash3, ProbMinHash3a, ProbMinHash3aSha};
use probminhash::setsketcher::{SetSketchParams, SetSketcher};
use probminhash::superminhasher::SuperMinHash;
use probminhash::superminhasher2::SuperMinHash2;
use probminhash::weightedset::WeightedSet;
use serde_json::{json, Value};
use std::any::Any;
use std::collections::HashMap;
use std::hash::BuildHasherDefault;
use twox_hash::XxHash32;

pub type NoHash0 = probminhash::nohasher::NoHashHasher;
pub type NoHash1 = probminhash::superminhasher::NoHashHasher;
pub type NoHash2 = probminhash::superminhasher2::NoHashHasher;

/// placeholder object of the ProbMinHash signatures (never used as an item)
pub const INITOBJ: u64 = 0xFFFF_FFFF_FFFF_FF01;

#[derive(Clone, Copy, Debug)]
pub struct Item {
    pub id: u64,
    pub w: f64,
}

/// entry points for a batch of items
pub const E_ITEMWISE: usize = 0;
pub const E_SLICE: usize = 1; // sketch_slice / hash_wset
pub const E_IDXMAP: usize = 2;
pub const E_HASHMAP: usize = 3;

pub struct WSet {
    items: Vec<Item>,
    pos: usize,
    weights: HashMap<u64, f64>,
}

impl WSet {
    pub fn new(items: &[Item]) -> WSet {
        WSet {
            items: items.to_vec(),
            pos: 0,
            weights: items.iter().map(|i| (i.id, i.w)).collect(),
        }
    }
}

impl Iterator for WSet {
    type Item = u64;
    fn next(&mut self) -> Option<u64> {
        if self.pos < self.items.len() {
            self.pos += 1;
            Some(self.items[self.pos - 1].id)
        } else {
            None
        }
    }
}

impl WeightedSet for WSet {
    type Object = u64;
    fn get_weight(&self, obj: &u64) -> f64 {
        self.weights[obj]
    }
}

pub fn idxmap(items: &[Item]) -> IndexMap<u64, f64, FnvBuildHasher> {
    let mut mp = IndexMap::with_hasher(FnvBuildHasher::default());
    for it in items {
        mp.insert(it.id, it.w);
    }
    mp
}

pub fn hashmap(items: &[Item]) -> HashMap<u64, f64> {
    items.iter().map(|i| (i.id, i.w)).collect()
}

pub const O_OK: &str = "ok";
pub const O_ERR: &str = "err";
pub const O_REFUSED: &str = "refused";
pub const O_UNSUPPORTED: &str = "unsupported";

/// A sketcher instance behind a uniform interface.  All methods call the public API of the crate
/// (plus the guarded read-only hooks where stated); panics are not caught here.
pub trait Sk: Any {
    fn m(&self) -> usize;
    /// stream one item (sketch / hash_item)
    fn sketch(&mut self, it: &Item) -> &'static str;
    /// stream a batch through the given entry point
    fn batch(&mut self, its: &[Item], entry: usize) -> &'static str;
    fn reinit(&mut self) -> &'static str {
        O_UNSUPPORTED
    }
    fn merge(&mut self, _other: &dyn Sk) -> &'static str {
        O_UNSUPPORTED
    }
    /// order keys of the per-position registers (public sketch for SuperMinHash/SetSketch, hook otherwise)
    fn regs(&self) -> Vec<u128>;
    /// true when `regs` is the public sketch
    fn regs_public(&self) -> bool;
    /// identity stored per position (hash or object), if the sketch stores one
    fn sig(&self) -> Option<Vec<u64>> {
        None
    }
    /// bit-exact digest of everything public, for purity / equality checks
    fn public_bits(&self) -> Vec<u64>;
    fn extras(&self) -> Value {
        json!({})
    }
    fn entries(&self) -> Vec<usize>;
    fn has_sketch1(&self) -> bool {
        true
    }
    fn as_any(&self) -> &dyn Any;
}

pub fn fkey(x: f64) -> u128 {
    let b = x.to_bits();
    (if b >> 63 == 0 { b | (1 << 63) } else { !b }) as u128
}

// ---------------------------------------------------------------- SuperMinHash
macro_rules! smh_impl {
    ($name:ident, $f:ty, $h:ty) => {
        smh_impl!($name, $f, $h, u64);
    };
    ($name:ident, $f:ty, $h:ty, $t:ty) => {
        pub struct $name(pub SuperMinHash<$f, $t, $h>, usize);
        impl $name {
            pub fn new(m: usize) -> Self {
                $name(SuperMinHash::new(m, BuildHasherDefault::<$h>::default()), m)
            }
        }
        impl Sk for $name {
            fn m(&self) -> usize {
                self.1
            }
            fn sketch(&mut self, it: &Item) -> &'static str {
                match self.0.sketch(&(it.id as $t)) {
                    Ok(()) => O_OK,
                    Err(_) => O_ERR,
                }
            }
            fn batch(&mut self, its: &[Item], entry: usize) -> &'static str {
                let ids: Vec<$t> = its.iter().map(|i| i.id as $t).collect();
                if entry == E_SLICE {
                    match self.0.sketch_slice(&ids) {
                        Ok(()) => O_OK,
                        Err(_) => O_ERR,
                    }
                } else {
                    for i in &ids {
                        if self.0.sketch(i).is_err() {
                            return O_ERR;
                        }
                    }
                    O_OK
                }
            }
            fn reinit(&mut self) -> &'static str {
                self.0.reinit();
                O_OK
            }
            fn regs(&self) -> Vec<u128> {
                self.0.get_hsketch().iter().map(|x| fkey(*x as f64)).collect()
            }
            fn regs_public(&self) -> bool {
                true
            }
            fn public_bits(&self) -> Vec<u64> {
                self.0.get_hsketch().iter().map(|x| (*x as f64).to_bits()).collect()
            }
            fn entries(&self) -> Vec<usize> {
                vec![E_ITEMWISE, E_SLICE]
            }
            fn as_any(&self) -> &dyn Any {
                self
            }
        }
    };
}
smh_impl!(SmhF64Fnv, f64, FnvHasher);
smh_impl!(SmhF32Fnv, f32, FnvHasher);
smh_impl!(SmhF64No, f64, NoHash1);
smh_impl!(SmhF32No, f32, NoHash1);
// 4-byte items through the identity hasher (the other arm of its `write`)
smh_impl!(SmhF64No32, f64, NoHash1, u32);

// ---------------------------------------------------------------- SuperMinHash2
macro_rules! smh2_impl {
    ($name:ident, $i:ty, $h:ty) => {
        smh2_impl!($name, $i, $h, u64);
    };
    ($name:ident, $i:ty, $h:ty, $t:ty) => {
        pub struct $name(pub SuperMinHash2<$i, $t, $h>, usize);
        impl $name {
            pub fn new(m: usize) -> Self {
                $name(SuperMinHash2::new(m, BuildHasherDefault::<$h>::default()), m)
            }
        }
        impl Sk for $name {
            fn m(&self) -> usize {
                self.1
            }
            fn sketch(&mut self, it: &Item) -> &'static str {
                match self.0.sketch(&(it.id as $t)) {
                    Ok(()) => O_OK,
                    Err(_) => O_ERR,
                }
            }
            fn batch(&mut self, its: &[Item], entry: usize) -> &'static str {
                let ids: Vec<$t> = its.iter().map(|i| i.id as $t).collect();
                if entry == E_SLICE {
                    match self.0.sketch_slice(&ids) {
                        Ok(()) => O_OK,
                        Err(_) => O_ERR,
                    }
                } else {
                    for i in &ids {
                        if self.0.sketch(i).is_err() {
                            return O_ERR;
                        }
                    }
                    O_OK
                }
            }
            fn reinit(&mut self) -> &'static str {
                self.0.reinit();
                O_OK
            }
            fn regs(&self) -> Vec<u128> {
                let (l, v) = self.0.verif_state();
                l.iter().zip(v.iter()).map(|(l, v)| ((*l as u128) << 64) | (*v as u128)).collect()
            }
            fn regs_public(&self) -> bool {
                false
            }
            fn sig(&self) -> Option<Vec<u64>> {
                Some(self.0.get_hsketch().iter().map(|x| *x as u64).collect())
            }
            fn public_bits(&self) -> Vec<u64> {
                self.0.get_hsketch().iter().map(|x| *x as u64).collect()
            }
            fn entries(&self) -> Vec<usize> {
                vec![E_ITEMWISE, E_SLICE]
            }
            fn as_any(&self) -> &dyn Any {
                self
            }
        }
    };
}
smh2_impl!(Smh2U64Fnv, u64, FnvHasher);
smh2_impl!(Smh2U64No, u64, NoHash2);
smh2_impl!(Smh2U32Xx, u32, XxHash32);
smh2_impl!(Smh2U64No32, u64, NoHash2, u32);

// ---------------------------------------------------------------- SetSketch
#[derive(Clone, Copy, Debug)]
pub struct SsParams {
    pub b: f64,
    pub m: u64,
    pub a: f64,
    pub q: u64,
}

macro_rules! ss_impl {
    ($name:ident, $i:ty) => {
        ss_impl!($name, $i, FnvHasher);
    };
    ($name:ident, $i:ty, $h:ty) => {
        pub struct $name(pub SetSketcher<$i, u64, $h>, pub SsParams);
        impl $name {
            pub fn new(p: SsParams) -> Self {
                let params = SetSketchParams::new(p.b, p.m, p.a, p.q);
                $name(SetSketcher::new(params, BuildHasherDefault::<$h>::default()), p)
            }
        }
        impl Sk for $name {
            fn m(&self) -> usize {
                self.1.m as usize
            }
            fn sketch(&mut self, it: &Item) -> &'static str {
                match self.0.sketch(&it.id) {
                    Ok(()) => O_OK,
                    Err(_) => O_ERR,
                }
            }
            fn batch(&mut self, its: &[Item], entry: usize) -> &'static str {
                let ids: Vec<u64> = its.iter().map(|i| i.id).collect();
                if entry == E_SLICE {
                    match self.0.sketch_slice(&ids) {
                        Ok(()) => O_OK,
                        Err(_) => O_ERR,
                    }
                } else {
                    for i in &ids {
                        if self.0.sketch(i).is_err() {
                            return O_ERR;
                        }
                    }
                    O_OK
                }
            }
            fn reinit(&mut self) -> &'static str {
                self.0.reinit();
                O_OK
            }
            fn merge(&mut self, other: &dyn Sk) -> &'static str {
                match other.as_any().downcast_ref::<$name>() {
                    Some(o) => match self.0.merge(&o.0) {
                        Ok(()) => O_OK,
                        Err(_) => O_REFUSED,
                    },
                    None => O_UNSUPPORTED,
                }
            }
            fn regs(&self) -> Vec<u128> {
                self.0.get_signature().iter().map(|x| *x as u128).collect()
            }
            fn regs_public(&self) -> bool {
                true
            }
            fn public_bits(&self) -> Vec<u64> {
                // the registers and what the sketcher's own estimator says about them (everything public)
                let mut v: Vec<u64> = self.0.get_signature().iter().map(|x| *x as u64).collect();
                let (card, rsd) = self.0.get_cardinal_stats();
                v.push(card.to_bits());
                v.push(rsd.to_bits());
                v
            }
            fn extras(&self) -> Value {
                json!({"low": self.0.get_low_sketch(), "ovf": self.0.get_nb_overflow()})
            }
            fn entries(&self) -> Vec<usize> {
                vec![E_ITEMWISE, E_SLICE]
            }
            fn as_any(&self) -> &dyn Any {
                self
            }
        }
    };
}
ss_impl!(SsU16, u16);
ss_impl!(SsU32, u32);
ss_impl!(SsI32, i32); // a signed register type (the trait bounds allow it)
ss_impl!(SsU16No, u16, NoHash0); // behind the crate's identity hasher (identifiers 0, 2^64-1, ... are hash values)

/// the sketcher built by `Default` (hard-wired m = 4096 and the default parameters)
pub fn ss_default_u16() -> SsU16 {
    let p = SetSketchParams::default();
    SsU16(SetSketcher::default(), SsParams { b: p.get_b(), m: p.get_m(), a: p.get_a(), q: p.get_q() })
}
pub fn ss_default_u32() -> SsU32 {
    let p = SetSketchParams::default();
    SsU32(SetSketcher::default(), SsParams { b: p.get_b(), m: p.get_m(), a: p.get_a(), q: p.get_q() })
}

// ---------------------------------------------------------------- ProbMinHash
pub struct Pmh2(pub ProbMinHash2<u64, FnvHasher>, usize);
impl Pmh2 {
    pub fn new(m: usize) -> Self {
        Pmh2(ProbMinHash2::new(m, INITOBJ), m)
    }
}
impl Sk for Pmh2 {
    fn m(&self) -> usize {
        self.1
    }
    fn sketch(&mut self, it: &Item) -> &'static str {
        self.0.hash_item(it.id, it.w);
        O_OK
    }
    fn batch(&mut self, its: &[Item], entry: usize) -> &'static str {
        match entry {
            E_SLICE => self.0.hash_wset(&mut WSet::new(its)),
            E_HASHMAP => self.0.hash_weigthed_hashmap::<FnvHasher>(&hashmap(its)),
            _ => {
                for it in its {
                    self.0.hash_item(it.id, it.w);
                }
            }
        }
        O_OK
    }
    fn reinit(&mut self) -> &'static str {
        self.0.reset();
        O_OK
    }
    fn regs(&self) -> Vec<u128> {
        self.0.verif_registers().iter().map(|x| fkey(*x)).collect()
    }
    fn regs_public(&self) -> bool {
        false
    }
    fn sig(&self) -> Option<Vec<u64>> {
        Some(self.0.get_signature().clone())
    }
    fn public_bits(&self) -> Vec<u64> {
        self.0.get_signature().clone()
    }
    fn entries(&self) -> Vec<usize> {
        vec![E_ITEMWISE, E_SLICE, E_HASHMAP]
    }
    fn as_any(&self) -> &dyn Any {
        self
    }
}

pub struct Pmh3(pub ProbMinHash3<u64, FnvHasher>, usize);
impl Pmh3 {
    pub fn new(m: usize) -> Self {
        Pmh3(ProbMinHash3::new(m, INITOBJ), m)
    }
}
impl Sk for Pmh3 {
    fn m(&self) -> usize {
        self.1
    }
    fn sketch(&mut self, it: &Item) -> &'static str {
        self.0.hash_item(it.id, &it.w);
        O_OK
    }
    fn batch(&mut self, its: &[Item], entry: usize) -> &'static str {
        match entry {
            E_SLICE => self.0.hash_wset(&mut WSet::new(its)),
            E_IDXMAP => self.0.hash_weigthed_idxmap(&idxmap(its)),
            E_HASHMAP => self.0.hash_weigthed_hashmap(&hashmap(its)),
            _ => {
                for it in its {
                    self.0.hash_item(it.id, &it.w);
                }
            }
        }
        O_OK
    }
    fn regs(&self) -> Vec<u128> {
        self.0.verif_registers().iter().map(|x| fkey(*x)).collect()
    }
    fn regs_public(&self) -> bool {
        false
    }
    fn sig(&self) -> Option<Vec<u64>> {
        Some(self.0.get_signature().clone())
    }
    fn public_bits(&self) -> Vec<u64> {
        self.0.get_signature().clone()
    }
    fn entries(&self) -> Vec<usize> {
        vec![E_ITEMWISE, E_SLICE, E_IDXMAP, E_HASHMAP]
    }
    fn as_any(&self) -> &dyn Any {
        self
    }
}

pub struct Pmh3a(pub ProbMinHash3a<u64, FnvHasher>, usize);
impl Pmh3a {
    pub fn new(m: usize) -> Self {
        Pmh3a(ProbMinHash3a::new(m, INITOBJ), m)
    }
}
impl Sk for Pmh3a {
    fn m(&self) -> usize {
        self.1
    }
    fn sketch(&mut self, it: &Item) -> &'static str {
        self.0.hash_weigthed_idxmap(&idxmap(&[*it]));
        O_OK
    }
    fn batch(&mut self, its: &[Item], entry: usize) -> &'static str {
        match entry {
            E_HASHMAP => self.0.hash_weigthed_hashmap(&hashmap(its)),
            _ => self.0.hash_weigthed_idxmap(&idxmap(its)),
        }
        O_OK
    }
    fn regs(&self) -> Vec<u128> {
        self.0.verif_registers().iter().map(|x| fkey(*x)).collect()
    }
    fn regs_public(&self) -> bool {
        false
    }
    fn sig(&self) -> Option<Vec<u64>> {
        Some(self.0.get_signature().clone())
    }
    fn public_bits(&self) -> Vec<u64> {
        self.0.get_signature().clone()
    }
    fn entries(&self) -> Vec<usize> {
        vec![E_IDXMAP, E_HASHMAP]
    }
    fn has_sketch1(&self) -> bool {
        false
    }
    fn as_any(&self) -> &dyn Any {
        self
    }
}

// the same three behind the crate's identity hasher (identifiers are "already hashed" 64-bit values)
pub struct Pmh2No(pub ProbMinHash2<u64, NoHash0>, usize);
impl Pmh2No {
    pub fn new(m: usize) -> Self {
        Pmh2No(ProbMinHash2::new(m, INITOBJ), m)
    }
}
impl Sk for Pmh2No {
    fn m(&self) -> usize {
        self.1
    }
    fn sketch(&mut self, it: &Item) -> &'static str {
        self.0.hash_item(it.id, it.w);
        O_OK
    }
    fn batch(&mut self, its: &[Item], entry: usize) -> &'static str {
        match entry {
            E_SLICE => self.0.hash_wset(&mut WSet::new(its)),
            E_HASHMAP => self.0.hash_weigthed_hashmap::<FnvHasher>(&hashmap(its)),
            _ => {
                for it in its {
                    self.0.hash_item(it.id, it.w);
                }
            }
        }
        O_OK
    }
    fn reinit(&mut self) -> &'static str {
        self.0.reset();
        O_OK
    }
    fn regs(&self) -> Vec<u128> {
        self.0.verif_registers().iter().map(|x| fkey(*x)).collect()
    }
    fn regs_public(&self) -> bool {
        false
    }
    fn sig(&self) -> Option<Vec<u64>> {
        Some(self.0.get_signature().clone())
    }
    fn public_bits(&self) -> Vec<u64> {
        self.0.get_signature().clone()
    }
    fn entries(&self) -> Vec<usize> {
        vec![E_ITEMWISE, E_SLICE, E_HASHMAP]
    }
    fn as_any(&self) -> &dyn Any {
        self
    }
}

pub struct Pmh3No(pub ProbMinHash3<u64, NoHash0>, usize);
impl Pmh3No {
    pub fn new(m: usize) -> Self {
        Pmh3No(ProbMinHash3::new(m, INITOBJ), m)
    }
}
impl Sk for Pmh3No {
    fn m(&self) -> usize {
        self.1
    }
    fn sketch(&mut self, it: &Item) -> &'static str {
        self.0.hash_item(it.id, &it.w);
        O_OK
    }
    fn batch(&mut self, its: &[Item], entry: usize) -> &'static str {
        match entry {
            E_SLICE => self.0.hash_wset(&mut WSet::new(its)),
            E_IDXMAP => self.0.hash_weigthed_idxmap(&idxmap(its)),
            E_HASHMAP => self.0.hash_weigthed_hashmap(&hashmap(its)),
            _ => {
                for it in its {
                    self.0.hash_item(it.id, &it.w);
                }
            }
        }
        O_OK
    }
    fn regs(&self) -> Vec<u128> {
        self.0.verif_registers().iter().map(|x| fkey(*x)).collect()
    }
    fn regs_public(&self) -> bool {
        false
    }
    fn sig(&self) -> Option<Vec<u64>> {
        Some(self.0.get_signature().clone())
    }
    fn public_bits(&self) -> Vec<u64> {
        self.0.get_signature().clone()
    }
    fn entries(&self) -> Vec<usize> {
        vec![E_ITEMWISE, E_SLICE, E_IDXMAP, E_HASHMAP]
    }
    fn as_any(&self) -> &dyn Any {
        self
    }
}

pub struct Pmh3aNo(pub ProbMinHash3a<u64, NoHash0>, usize);
impl Pmh3aNo {
    pub fn new(m: usize) -> Self {
        Pmh3aNo(ProbMinHash3a::new(m, INITOBJ), m)
    }
}
impl Sk for Pmh3aNo {
    fn m(&self) -> usize {
        self.1
    }
    fn sketch(&mut self, it: &Item) -> &'static str {
        self.0.hash_weigthed_idxmap(&idxmap(&[*it]));
        O_OK
    }
    fn batch(&mut self, its: &[Item], entry: usize) -> &'static str {
        match entry {
            E_HASHMAP => self.0.hash_weigthed_hashmap(&hashmap(its)),
            _ => self.0.hash_weigthed_idxmap(&idxmap(its)),
        }
        O_OK
    }
    fn regs(&self) -> Vec<u128> {
        self.0.verif_registers().iter().map(|x| fkey(*x)).collect()
    }
    fn regs_public(&self) -> bool {
        false
    }
    fn sig(&self) -> Option<Vec<u64>> {
        Some(self.0.get_signature().clone())
    }
    fn public_bits(&self) -> Vec<u64> {
        self.0.get_signature().clone()
    }
    fn entries(&self) -> Vec<usize> {
        vec![E_IDXMAP, E_HASHMAP]
    }
    fn has_sketch1(&self) -> bool {
        false
    }
    fn as_any(&self) -> &dyn Any {
        self
    }
}

pub struct Pmh3aSha(pub ProbMinHash3aSha<u64>, usize);
impl Pmh3aSha {
    pub fn new(m: usize) -> Self {
        Pmh3aSha(ProbMinHash3aSha::new(m, INITOBJ), m)
    }
}
impl Sk for Pmh3aSha {
    fn m(&self) -> usize {
        self.1
    }
    fn sketch(&mut self, it: &Item) -> &'static str {
        self.0.hash_weigthed_idxmap(&idxmap(&[*it]));
        O_OK
    }
    fn batch(&mut self, its: &[Item], entry: usize) -> &'static str {
        match entry {
            E_HASHMAP => self.0.hash_weigthed_hashmap(&hashmap(its)),
            _ => self.0.hash_weigthed_idxmap(&idxmap(its)),
        }
        O_OK
    }
    fn regs(&self) -> Vec<u128> {
        self.0.verif_registers().iter().map(|x| fkey(*x)).collect()
    }
    fn regs_public(&self) -> bool {
        false
    }
    fn sig(&self) -> Option<Vec<u64>> {
        Some(self.0.get_signature().clone())
    }
    fn public_bits(&self) -> Vec<u64> {
        self.0.get_signature().clone()
    }
    fn entries(&self) -> Vec<usize> {
        vec![E_IDXMAP, E_HASHMAP]
    }
    fn has_sketch1(&self) -> bool {
        false
    }
    fn as_any(&self) -> &dyn Any {
        self
    }
}

/// description of a sketcher configuration
#[derive(Clone, Debug)]
pub struct Cfg {
    pub kind: String,
    pub m: usize,
    pub ss: Option<SsParams>,
}

impl Cfg {
    pub fn json(&self) -> Value {
        match &self.ss {
            Some(p) => json!({"kind": self.kind, "m": self.m, "b": p.b, "a": p.a, "q": p.q}),
            None => json!({"kind": self.kind, "m": self.m}),
        }
    }
}

pub const KINDS_JOIN: [&str; 9] = [
    "smh_f64_fnv", "smh_f32_fnv", "smh_f64_no", "smh_f32_no", "smh2_u64_fnv", "smh2_u64_no", "smh2_u32_xx", "ss_u16", "ss_u32",
];
pub const KINDS_PMH: [&str; 4] = ["pmh2", "pmh3", "pmh3a", "pmh3asha"];

pub fn make(c: &Cfg) -> Box<dyn Sk> {
    let m = c.m;
    match c.kind.as_str() {
        "smh_f64_fnv" => Box::new(SmhF64Fnv::new(m)),
        "smh_f32_fnv" => Box::new(SmhF32Fnv::new(m)),
        "smh_f64_no" => Box::new(SmhF64No::new(m)),
        "smh_f32_no" => Box::new(SmhF32No::new(m)),
        "smh2_u64_fnv" => Box::new(Smh2U64Fnv::new(m)),
        "smh2_u64_no" => Box::new(Smh2U64No::new(m)),
        "smh2_u32_xx" => Box::new(Smh2U32Xx::new(m)),
        "ss_u16" => Box::new(SsU16::new(c.ss.unwrap())),
        "ss_u32" => Box::new(SsU32::new(c.ss.unwrap())),
        "ss_i32" => Box::new(SsI32::new(c.ss.unwrap())),
        "ss_u16_no" => Box::new(SsU16No::new(c.ss.unwrap())),
        "ss_def_u16" => Box::new(ss_default_u16()),
        "ss_def_u32" => Box::new(ss_default_u32()),
        "pmh2" => Box::new(Pmh2::new(m)),
        "pmh3" => Box::new(Pmh3::new(m)),
        "pmh3a" => Box::new(Pmh3a::new(m)),
        "pmh3asha" => Box::new(Pmh3aSha::new(m)),
        "pmh2_no" => Box::new(Pmh2No::new(m)),
        "pmh3_no" => Box::new(Pmh3No::new(m)),
        "pmh3a_no" => Box::new(Pmh3aNo::new(m)),
        "smh_f64_no32" => Box::new(SmhF64No32::new(m)),
        "smh2_u64_no32" => Box::new(Smh2U64No32::new(m)),
        k => tool_error(&format!("unknown sketcher kind {}", k)),
    }
}

/// direction of the join: true when smaller is better (min-join)
pub fn is_min(kind: &str) -> bool {
    !kind.starts_with("ss_")
}

/// order key of the initial register value
pub fn init_key(c: &Cfg) -> u128 {
    let k = c.kind.as_str();
    if k.starts_with("smh2_") {
        (((c.m - 1) as u128) << 64) | (usize::MAX as u128)
    } else if k.starts_with("smh_f32") {
        fkey((u32::MAX as f32) as f64)
    } else if k.starts_with("smh_") {
        fkey(u32::MAX as f64)
    } else if k.starts_with("ss_") {
        0
    } else {
        fkey(f64::MAX)
    }
}
