//! C06 - SetSketch cardinality estimate: accurate and monotone.
//!
//! `record`: random histories of sketch / re-sketch / merge over 2-3 SetSketcher instances (u16/u32, the
//!           parameter tuples of C05 plus the documented default); after every call the estimate
//!           `get_cardinal_stats().0` of the receiver is logged (rank-abstracted per run: an order isomorphism,
//!           equal floats get equal ranks); `par` events compare `MleJaccard::get_cardinal_estimate(&regs)`
//!           (rayon reduction, repeated in-process) with the sketcher's own estimate as an ulp distance.
//!           The trace is validated by TLC against spec/TraceCardinality.tla.
//! `freq`  : frequency validation (L3): per cell (n, m, b, a, q, register type) T trials with fresh random
//!           identifiers, relative error e = est/n - 1; moments of e are returned to the driver.
use pmh_verif::sketchers::*;
use pmh_verif::util::*;
use probminhash::setsketcher::MleJaccard;
use rand::Rng;
use rayon::prelude::*;
use serde_json::{json, Value};
use std::collections::HashSet;

/// the calls of the public API that C06 speaks about, uniform over the register type
trait Card: Sized {
    fn mk(p: SsParams) -> Self;
    fn params(&self) -> SsParams;
    fn sk1(&mut self, id: u64);
    fn merge_in(&mut self, o: &Self) -> bool;
    fn stats(&self) -> (f64, f64);
    fn par(&self) -> f64;
    fn kmax(&self) -> u64;
    /// (#registers equal to 0, #registers >= q+1): diagnostic of the parameter regime only
    fn clip(&self) -> (u64, u64);
}

macro_rules! card_impl {
    ($name:ident) => {
        impl Card for $name {
            fn mk(p: SsParams) -> Self {
                $name::new(p)
            }
            fn params(&self) -> SsParams {
                self.1
            }
            fn sk1(&mut self, id: u64) {
                self.0.sketch(&id).unwrap();
            }
            fn merge_in(&mut self, o: &Self) -> bool {
                self.0.merge(&o.0).is_ok()
            }
            fn stats(&self) -> (f64, f64) {
                self.0.get_cardinal_stats()
            }
            fn par(&self) -> f64 {
                let p = self.1;
                MleJaccard::new(p.b, p.m, p.a).get_cardinal_estimate(&self.0.get_signature()[..])
            }
            fn kmax(&self) -> u64 {
                self.0.get_signature().iter().map(|x| *x as u64).max().unwrap_or(0)
            }
            fn clip(&self) -> (u64, u64) {
                let q1 = self.1.q + 1;
                let s = self.0.get_signature();
                (s.iter().filter(|x| **x as u64 == 0).count() as u64, s.iter().filter(|x| **x as u64 >= q1).count() as u64)
            }
        }
    };
}
card_impl!(SsU16);
card_impl!(SsU32);

fn okey(x: f64) -> u64 {
    let b = x.to_bits();
    if b >> 63 == 0 {
        b | (1 << 63)
    } else {
        !b
    }
}

/// number of representable doubles between a and b (0 = bit-identical up to the sign of zero), capped for TLC
fn ulp_dist(a: f64, b: f64) -> i64 {
    if a.is_nan() || b.is_nan() {
        return 2_000_000_000;
    }
    let (x, y) = (okey(a), okey(b));
    let d = if x > y { x - y } else { y - x };
    d.min(2_000_000_000) as i64
}

/// a double as JSON: non-finite values as strings (JSON has no NaN / infinity)
fn jf(x: f64) -> Value {
    if x.is_finite() {
        json!(x)
    } else {
        json!(format!("{}", x))
    }
}

fn tuples() -> Vec<(f64, f64, u64)> {
    // (b, a, q): the tuples of C05 (clipping at 0 and q+1, documented regime, u16 overflow) and the documented default
    vec![
        (2.0, 1.0, 2),
        (2.0, 20.0, 62),
        (1.2, 20.0, 62),
        (1.2, 20.0, 300),
        (1.001, 20.0, 65534), // SetSketchParams::default()
        (1.001, 1e31, 70000),
        (1.5, 0.001, 30),
    ]
}

struct Ev {
    v: Value,
    est: Option<f64>,
}

/// one recorded run; atoms are either single identifiers or bulks of fresh identifiers (never reused one by one)
fn one_run<S: Card>(run: u64, kind: &str, t: (f64, f64, u64), m: usize, len: usize, maxbulk: usize, par_rep: usize,
                    rng: &mut rand_xoshiro::Xoshiro256PlusPlus, out: &mut Out, stats: &mut RecStats) {
    let p = SsParams { b: t.0, m: m as u64, a: t.1, q: t.2 };
    let ninst = rng.random_range(2..=3usize);
    // with probability 1/4 the last instance has different parameters: merges with it must be refused
    let mut pc = vec![1usize; ninst];
    let mut p2 = p;
    if rng.random_range(0..4) == 0 {
        match rng.random_range(0..3) {
            0 => p2.q += 1,
            1 => p2.a *= 1.5,
            _ => p2.b = 1.0 + (p.b - 1.0) * 0.5,
        }
        pc[ninst - 1] = 2;
    }
    let mut insts: Vec<S> = pc.iter().map(|c| S::mk(if *c == 1 { p } else { p2 })).collect();
    // atoms
    let idstyle = rng.random_range(0..4);
    let mut used_ids: HashSet<u64> = HashSet::new();
    let mut atoms: Vec<Vec<u64>> = Vec::new();
    let fresh = |rng: &mut rand_xoshiro::Xoshiro256PlusPlus, used: &mut HashSet<u64>, n: usize| -> Vec<u64> {
        let mut v = Vec::with_capacity(n);
        while v.len() < n {
            let k = used.len() + 1;
            let mut id = match idstyle {
                0 => rng.random::<u64>(),
                1 => k as u64,
                2 => u64::MAX - k as u64,
                _ => (rng.random::<u32>() as u64) << 32,
            };
            while !used.insert(id) {
                id = rng.random::<u64>();
            }
            v.push(id);
        }
        v
    };
    let bulk_sizes: Vec<usize> = [1usize, 1, 1, 2, 10, 100, 1000, 10_000, 100_000, 1_000_000].iter().cloned().filter(|s| *s <= maxbulk.max(1)).collect();
    let mut sets: Vec<HashSet<usize>> = vec![HashSet::new(); ninst];
    let mut evs: Vec<Ev> = Vec::new();
    let est0: Vec<f64> = insts.iter().map(|s| s.stats().0).collect();
    let rsd = insts[0].stats().1;
    let mut panicked = false;
    for step in 0..len {
        let i = rng.random_range(0..ninst);
        let c = rng.random_range(0..100);
        let mut ev;
        let res: Result<Option<f64>, String>;
        if c < 55 || step == 0 {
            // new atom with probability 0.6, else a repeat of any atom of the run (dup iff this instance has it)
            let x = if atoms.is_empty() || rng.random_bool(0.6) {
                let sz = if m < 8 { 1 } else { bulk_sizes[rng.random_range(0..bulk_sizes.len())] };
                atoms.push(fresh(rng, &mut used_ids, sz));
                atoms.len()
            } else {
                rng.random_range(1..=atoms.len())
            };
            let dup = sets[i].contains(&x);
            ev = json!({"op": if dup {"dup"} else {"sk"}, "run": run, "i": i + 1, "x": x, "cnt": atoms[x - 1].len()});
            let ids = &atoms[x - 1];
            let inst = &mut insts[i];
            res = catch(|| {
                for id in ids {
                    inst.sk1(*id);
                }
                Some(inst.stats().0)
            });
            sets[i].insert(x);
            stats.items += ids.len() as u64;
        } else if c < 80 {
            let mut j = rng.random_range(0..ninst);
            if j == i {
                j = (i + 1) % ninst;
            }
            ev = json!({"op": "mg", "run": run, "i": i + 1, "j": j + 1});
            let (aa, bb) = if i < j {
                let (l, r) = insts.split_at_mut(j);
                (&mut l[i], &r[0])
            } else {
                let (l, r) = insts.split_at_mut(i);
                (&mut r[0], &l[j])
            };
            let mut okm = false;
            res = catch(|| {
                okm = aa.merge_in(bb);
                Some(aa.stats().0)
            });
            ev["out"] = json!(if okm { "ok" } else { "refused" });
            if okm {
                let sj = sets[j].clone();
                sets[i].extend(sj);
            }
        } else {
            // parallel estimator on the raw register slice against the sketcher's own estimate, repeated in-process
            ev = json!({"op": "par", "run": run, "i": i + 1, "m": m});
            let inst = &insts[i];
            let mut ds: Vec<i64> = Vec::new();
            let mut worst_pair = (0.0f64, 0.0f64);
            res = catch(|| {
                let seq = inst.stats().0;
                for _ in 0..par_rep {
                    let pv = inst.par();
                    let d = ulp_dist(seq, pv);
                    if ds.iter().all(|x| *x <= d) {
                        worst_pair = (seq, pv);
                    }
                    ds.push(d);
                }
                Some(seq)
            });
            let kl = ((inst.kmax() as f64) * inst.params().b.ln()).ceil() as i64;
            let dmax = ds.iter().cloned().max().unwrap_or(0);
            ev["ds"] = json!(ds);
            ev["kl"] = json!(kl);
            ev["seq_bits"] = json!(format!("{:016x}", worst_pair.0.to_bits()));
            ev["par_bits"] = json!(format!("{:016x}", worst_pair.1.to_bits()));
            stats.par_calls += par_rep as u64;
            stats.par_events += 1;
            if dmax > 0 {
                stats.par_nonzero += 1;
            }
            if dmax > stats.par_max {
                stats.par_max = dmax;
                stats.par_max_m = m;
            }
            if m > 1 {
                let r = dmax as f64 / (m as f64 - 1.0);
                if r > stats.par_max_rel {
                    stats.par_max_rel = r;
                }
            }
        }
        match res {
            Ok(e) => evs.push(Ev { v: ev, est: e }),
            Err(msg) => {
                ev["call"] = ev["op"].clone();
                ev["op"] = json!("panic");
                ev["msg"] = json!(msg);
                evs.push(Ev { v: ev, est: None });
                panicked = true;
                break;
            }
        }
    }
    let _ = panicked;
    // rank abstraction of the estimates of this run (NaN gets rank -1: below everything, never accepted)
    let rk = Ranker::build(est0.iter().cloned().chain(evs.iter().filter_map(|e| e.est)).filter(|x| !x.is_nan()), 1);
    let r = |x: f64| -> i64 { if x.is_nan() { -1 } else { rk.rank(x) } };
    out.line(&json!({"op": "new", "run": run, "kind": kind, "m": m, "ninst": ninst, "pc": pc,
        "cfg": {"b": p.b, "a": p.a, "q": p.q}, "cfg2": {"b": p2.b, "a": p2.a, "q": p2.q},
        "rsd": jf(rsd), "e0": est0.iter().map(|x| r(*x)).collect::<Vec<_>>(), "natoms": atoms.len(),
        "threads": rayon::current_num_threads()}));
    for e in evs {
        let mut v = e.v;
        if let Some(x) = e.est {
            v["e"] = json!(r(x));
            v["est"] = jf(x);
        }
        out.line(&v);
    }
}

#[derive(Default)]
struct RecStats {
    items: u64,
    par_calls: u64,
    par_events: u64,
    par_nonzero: u64,
    par_max: i64,
    par_max_m: usize,
    par_max_rel: f64,
}

/// record out=<trace> stats=<json> seed=N ms=1,2,.. len=L maxbulk=K parrep=R [kinds=ss_u16,ss_u32]
fn record(a: &Args) {
    silence_panics();
    let seed = a.u64_or("seed", 1);
    let ms: Vec<usize> = a.str_or("ms", "1,2,3,8,64,256,4096").split(',').map(|s| s.parse().unwrap()).collect();
    let len = a.usize_or("len", 40);
    let maxbulk = a.usize_or("maxbulk", 10_000);
    let par_rep = a.usize_or("parrep", 5);
    let kinds: Vec<String> = a.str_or("kinds", "ss_u16,ss_u32").split(',').map(|s| s.to_string()).collect();
    let mut rng = rng_from(seed, 606);
    let mut out = Out::create(&a.str("out"));
    out.line(&json!({"kind": "cardinality", "threads": rayon::current_num_threads(), "seed": seed}));
    let mut st = RecStats::default();
    let mut run = 0u64;
    for kind in &kinds {
        for t in tuples() {
            for m in &ms {
                run += 1;
                // bulks are bounded so that a run stays cheap: large bulks only for large sketches
                let mb = if *m > 4096 { maxbulk.min(10_000) } else if *m >= 64 { maxbulk } else { maxbulk.min(1000) };
                match kind.as_str() {
                    "ss_u16" => one_run::<SsU16>(run, kind, t, *m, len, mb, par_rep, &mut rng, &mut out, &mut st),
                    "ss_u32" => one_run::<SsU32>(run, kind, t, *m, len, mb, par_rep, &mut rng, &mut out, &mut st),
                    k => tool_error(&format!("unknown kind {}", k)),
                }
            }
        }
    }
    out.finish();
    write_json(&a.str("stats"), &json!({"runs": run, "items": st.items, "par_calls": st.par_calls, "par_events": st.par_events,
        "par_nonzero": st.par_nonzero, "par_max_ulp": st.par_max, "par_max_m": st.par_max_m, "par_max_over_m1": st.par_max_rel,
        "threads": rayon::current_num_threads()}));
}

/// one trial: n fresh identifiers (each streamed `rep` times, second pass in another order), returns
/// (estimate, advertised rsd, #registers at 0, #registers >= q+1)
fn trial<S: Card>(p: SsParams, n: usize, rep: usize, seed: u64, cell: u64, t: u64) -> (f64, f64, u64, u64) {
    let mut rng = rng_from(seed, 0x0C06_0000_0000u64.wrapping_add(cell.wrapping_mul(0x1_0000_0001)).wrapping_add(t.wrapping_mul(0x9E37_79B9)));
    let mut s = S::mk(p);
    // fresh random 64-bit identifiers (a coincidence among 10^6 of them has probability < 3e-8 and would change n by 1)
    if rep <= 1 {
        for _ in 0..n {
            s.sk1(rng.random::<u64>());
        }
    } else {
        let ids: Vec<u64> = (0..n).map(|_| rng.random::<u64>()).collect();
        for id in &ids {
            s.sk1(*id);
        }
        for r in 1..rep {
            // repetitions: the same identifiers again, half of them in reverse order, then the rest
            for (k, id) in ids.iter().enumerate().rev() {
                if (k + r) % 2 == 0 {
                    s.sk1(*id);
                }
            }
            for (k, id) in ids.iter().enumerate() {
                if (k + r) % 2 == 1 {
                    s.sk1(*id);
                }
            }
        }
    }
    let (e, rsd) = s.stats();
    let (c0, cq) = s.clip();
    (e, rsd, c0, cq)
}

/// freq in=<cells json> out=<json> seed=N
fn freq(a: &Args) {
    silence_panics();
    let cells = read_json(&a.str("in"));
    let seed = a.u64_or("seed", 1);
    let mut res: Vec<Value> = Vec::new();
    for (ci, c) in cells["cells"].as_array().unwrap().iter().enumerate() {
        let n = c["n"].as_u64().unwrap() as usize;
        let p = SsParams { b: c["b"].as_f64().unwrap(), m: c["m"].as_u64().unwrap(), a: c["a"].as_f64().unwrap(), q: c["q"].as_u64().unwrap() };
        let trials = c["trials"].as_u64().unwrap();
        let rep = c["rep"].as_u64().unwrap_or(1) as usize;
        let kind = c["kind"].as_str().unwrap().to_string();
        let cid = c["id"].as_u64().unwrap_or(ci as u64);
        let t0 = std::time::Instant::now();
        let outs: Vec<Result<(f64, f64, u64, u64), String>> = (0..trials)
            .into_par_iter()
            .map(|t| {
                catch(|| match kind.as_str() {
                    "ss_u16" => trial::<SsU16>(p, n, rep, seed, cid, t),
                    "ss_u32" => trial::<SsU32>(p, n, rep, seed, cid, t),
                    _ => tool_error("unknown kind"),
                })
            })
            .collect();
        // moments of e = est/n - 1, accumulated in trial order (deterministic), centred on a first-pass mean
        let mut panics = 0u64;
        let mut nonfinite = 0u64;
        let mut es: Vec<f64> = Vec::with_capacity(outs.len());
        let mut rsd = f64::NAN;
        let (mut c0, mut cq) = (0u64, 0u64);
        for o in &outs {
            match o {
                Ok((e, r, z, q)) => {
                    rsd = *r;
                    c0 += z;
                    cq += q;
                    if e.is_finite() {
                        es.push(e / n as f64 - 1.0);
                    } else {
                        nonfinite += 1;
                    }
                }
                Err(_) => panics += 1,
            }
        }
        let nn = es.len() as f64;
        let mean = es.iter().sum::<f64>() / nn;
        let (mut m2, mut m3, mut m4) = (0.0f64, 0.0f64, 0.0f64);
        for e in &es {
            let d = e - mean;
            m2 += d * d;
            m3 += d * d * d;
            m4 += d * d * d * d;
        }
        let mn = es.iter().cloned().fold(f64::INFINITY, f64::min);
        let mx = es.iter().cloned().fold(f64::NEG_INFINITY, f64::max);
        res.push(json!({"id": cid, "trials": es.len(), "mean": mean, "m2": m2 / nn, "m3": m3 / nn, "m4": m4 / nn, "min": mn, "max": mx,
            "rsd": rsd, "panics": panics, "nonfinite": nonfinite, "regs_zero": c0, "regs_clipped": cq,
            "first": es.iter().take(3).cloned().collect::<Vec<_>>(), "secs": t0.elapsed().as_secs_f64()}));
    }
    write_json(&a.str("out"), &json!({"cells": res}));
}

fn main() {
    let argv: Vec<String> = std::env::args().collect();
    if argv.len() < 2 {
        tool_error("usage: c06 <record|freq> key=value ...");
    }
    let a = Args::parse(&argv[2..]);
    match argv[1].as_str() {
        "record" => record(&a),
        "freq" => freq(&a),
        other => tool_error(&format!("unknown subcommand {}", other)),
    }
}
