//! C18: byte identities (trait Sig) are faithful and memory safe.
//!
//! The binary installs a logging global allocator.  Inside an *observation window* (current thread
//! only) every alloc/dealloc is written to a static event buffer and every dealloc is QUARANTINED
//! (not forwarded to the system allocator), so that a double free or a read after free committed by
//! the code under test is recorded instead of corrupting the harness.  After the window every block
//! that was allocated inside it and freed at least once is released exactly once with its allocation
//! layout; a pointer freed inside the window that was not allocated inside it belongs to somebody
//! else and is never released by us.
//!
//! `cases in=<descriptors.ndjson> trace=<trace.ndjson> res=<results.ndjson>` interprets descriptors
//! written by lib/c18.py (sites get_sig / group / bulk / sketch), writes the allocator traces for
//! TraceSigHeap.tla and one result line per descriptor.
use pmh_verif::util::*;
use probminhash::probminhasher::sig::Sig;
use probminhash::probminhasher::ProbMinHash3aSha;
use rand::{Rng, RngCore};
use rand_xoshiro::Xoshiro256PlusPlus;
use serde_json::{json, Value};
use std::alloc::{GlobalAlloc, Layout, System};
use std::cell::{Cell, UnsafeCell};
use std::collections::{BTreeMap, HashMap, HashSet};
use std::hint::black_box;
use std::sync::atomic::{AtomicUsize, Ordering};

// ------------------------------------------------------------------------------------------
// logging allocator

const CAP: usize = 1 << 19;
const OP_ALLOC: u8 = 1;
const OP_FREE: u8 = 2;
const OP_READ: u8 = 3;

#[derive(Clone, Copy)]
struct Ev {
    op: u8,
    ptr: usize,
    size: usize,
    align: usize,
}

struct EvBuf(UnsafeCell<[Ev; CAP]>);
// written only by the single thread that is inside the window
unsafe impl Sync for EvBuf {}
static BUF: EvBuf = EvBuf(UnsafeCell::new([Ev { op: 0, ptr: 0, size: 0, align: 0 }; CAP]));
static IDX: AtomicUsize = AtomicUsize::new(0);
static LOST: AtomicUsize = AtomicUsize::new(0);

thread_local! {
    // const-initialised, no destructor: access never allocates
    static IN_WINDOW: Cell<bool> = const { Cell::new(false) };
}

#[inline]
fn in_window() -> bool {
    IN_WINDOW.try_with(|c| c.get()).unwrap_or(false)
}

#[inline]
fn push(op: u8, ptr: usize, size: usize, align: usize) {
    let i = IDX.fetch_add(1, Ordering::Relaxed);
    if i < CAP {
        unsafe {
            (*BUF.0.get())[i] = Ev { op, ptr, size, align };
        }
    } else {
        LOST.fetch_add(1, Ordering::Relaxed);
    }
}

struct LogAlloc;

unsafe impl GlobalAlloc for LogAlloc {
    unsafe fn alloc(&self, l: Layout) -> *mut u8 {
        let p = System.alloc(l);
        if in_window() && !p.is_null() {
            push(OP_ALLOC, p as usize, l.size(), l.align());
        }
        p
    }
    unsafe fn dealloc(&self, p: *mut u8, l: Layout) {
        if in_window() {
            // quarantined: recorded, not forwarded
            push(OP_FREE, p as usize, l.size(), l.align());
        } else {
            System.dealloc(p, l)
        }
    }
    unsafe fn alloc_zeroed(&self, l: Layout) -> *mut u8 {
        if in_window() {
            let p = self.alloc(l);
            if !p.is_null() {
                std::ptr::write_bytes(p, 0, l.size());
            }
            p
        } else {
            System.alloc_zeroed(l)
        }
    }
    unsafe fn realloc(&self, p: *mut u8, l: Layout, new_size: usize) -> *mut u8 {
        if in_window() {
            // alloc + copy + (quarantined) dealloc, all recorded
            let nl = Layout::from_size_align_unchecked(new_size, l.align());
            let np = self.alloc(nl);
            if !np.is_null() {
                std::ptr::copy_nonoverlapping(p, np, l.size().min(new_size));
                self.dealloc(p, l);
            }
            np
        } else {
            System.realloc(p, l, new_size)
        }
    }
}

#[global_allocator]
static GLOBAL: LogAlloc = LogAlloc;

/// the harness marks that it reads `len` bytes at `ptr`
fn mark_read(ptr: usize, len: usize) {
    push(OP_READ, ptr, len, 0);
}

/// run f inside an observation window; returns its result (Err = panic) and the events
fn window<R>(f: impl FnOnce() -> R) -> (Result<R, String>, Vec<Ev>) {
    IDX.store(0, Ordering::SeqCst);
    LOST.store(0, Ordering::SeqCst);
    IN_WINDOW.with(|c| c.set(true));
    let r = catch(f);
    IN_WINDOW.with(|c| c.set(false));
    if LOST.load(Ordering::SeqCst) > 0 {
        // frees beyond the buffer were neither recorded nor forwarded (leaked): give up
        tool_error("event buffer overflow inside an observation window");
    }
    let n = IDX.load(Ordering::SeqCst).min(CAP);
    let evs: Vec<Ev> = unsafe { (&(*BUF.0.get()))[..n].to_vec() };
    release(&evs);
    (r, evs)
}

/// release the quarantine: blocks allocated inside the window and freed there at least once are
/// given back exactly once with their allocation layout
fn release(evs: &[Ev]) {
    let mut allocd: HashMap<usize, (usize, usize)> = HashMap::new();
    for e in evs {
        if e.op == OP_ALLOC {
            allocd.insert(e.ptr, (e.size, e.align));
        }
    }
    let mut done: HashSet<usize> = HashSet::new();
    for e in evs {
        if e.op == OP_FREE {
            if let Some(&(size, align)) = allocd.get(&e.ptr) {
                if done.insert(e.ptr) {
                    unsafe {
                        System.dealloc(e.ptr as *mut u8, Layout::from_size_align_unchecked(size, align));
                    }
                }
            }
        }
    }
}

// ------------------------------------------------------------------------------------------
// events -> block numbers, Rust-side screen (bulk mode only decides what is shown to TLC)

struct Numbered {
    lines: Vec<Value>,
    ret: i64,
    screen: Vec<&'static str>,
}

fn number(evs: &[Ev], ret_ptr: Option<(usize, usize)>) -> Numbered {
    // base -> (id, size, align, frees)
    let mut blocks: BTreeMap<usize, (i64, usize, usize, u32)> = BTreeMap::new();
    let mut lines = Vec::with_capacity(evs.len());
    let mut screen: Vec<&'static str> = Vec::new();
    let mut next = 1i64;
    for e in evs {
        match e.op {
            OP_ALLOC => {
                blocks.insert(e.ptr, (next, e.size, e.align, 0));
                lines.push(json!({"op": "alloc", "b": next, "size": e.size, "align": e.align}));
                next += 1;
            }
            OP_FREE => {
                let b = match blocks.get_mut(&e.ptr) {
                    Some(bl) => {
                        if bl.3 > 0 {
                            screen.push("double_free");
                        } else if bl.1 != e.size || bl.2 != e.align {
                            screen.push("layout_mismatch");
                        }
                        bl.3 += 1;
                        bl.0
                    }
                    None => {
                        screen.push("free_foreign");
                        0
                    }
                };
                lines.push(json!({"op": "free", "b": b, "size": e.size, "align": e.align}));
            }
            OP_READ => {
                let hit = blocks.range(..=e.ptr).next_back().filter(|(base, bl)| e.ptr < **base + bl.1);
                match hit {
                    Some((base, bl)) => {
                        if bl.3 > 0 {
                            screen.push("read_after_free");
                        } else if e.ptr - base + e.size > bl.1 {
                            screen.push("read_out_of_bounds");
                        }
                        lines.push(json!({"op": "read", "b": bl.0, "off": e.ptr - base, "len": e.size}));
                    }
                    None => {
                        screen.push("read_foreign");
                        lines.push(json!({"op": "read", "b": 0, "off": 0, "len": e.size}));
                    }
                }
            }
            _ => {}
        }
    }
    let ret = match ret_ptr {
        None => -1,
        Some((_, 0)) => 0, // capacity 0: the result has no buffer
        Some((p, _)) => blocks.get(&p).map(|b| b.0).unwrap_or(0),
    };
    if ret > 0 {
        let fr = blocks.values().find(|b| b.0 == ret).unwrap().3;
        if fr == 0 {
            screen.push("result_not_freed");
        } else if fr > 1 {
            screen.push("result_freed_twice");
        }
    }
    Numbered { lines, ret, screen }
}

// ------------------------------------------------------------------------------------------
// observing one get_sig call

#[inline(never)]
fn call_sig<T: Sig>(x: &T) -> Vec<u8> {
    black_box(x).get_sig()
}

struct Obs {
    evs: Vec<Ev>,
    ret_ptr: usize,
    len: usize,
    cap: usize,
    eq: bool,
    bytes: Vec<u8>,
    panic: Option<String>,
}

/// let s = x.get_sig(); read all bytes of s; drop(s) -- inside a window
fn observe<T: Sig>(x: &T, expected: &[u8]) -> Obs {
    let mut copy: Vec<u8> = Vec::with_capacity(expected.len() * 2 + 64);
    let copy_ref = &mut copy;
    let (r, evs) = window(move || {
        let s = black_box(call_sig(x));
        let (p, len, cap) = (s.as_ptr() as usize, s.len(), s.capacity());
        if len > 0 {
            mark_read(p, len);
        }
        let mut acc = 0u64;
        for b in s.iter() {
            acc = acc.wrapping_add(*b as u64);
        }
        black_box(acc);
        let eq = s.as_slice() == expected;
        let room = copy_ref.capacity();
        copy_ref.extend_from_slice(&s[..len.min(room)]);
        drop(s);
        (p, len, cap, eq)
    });
    match r {
        Ok((p, len, cap, eq)) => Obs { evs, ret_ptr: p, len, cap, eq, bytes: copy, panic: None },
        Err(m) => Obs { evs, ret_ptr: 0, len: 0, cap: 0, eq: false, bytes: copy, panic: Some(m) },
    }
}

// ------------------------------------------------------------------------------------------
// element types

trait Elem: Copy + PartialEq + std::fmt::Debug + 'static {
    const W: usize;
    const SIGNED: bool;
    fn from_json(v: &Value) -> Self;
    fn as_i128(self) -> i128;
    fn ne_bytes(self, out: &mut Vec<u8>);
    fn rand(rng: &mut Xoshiro256PlusPlus) -> Self;
}

macro_rules! elem {
    ($t:ty, $signed:expr) => {
        impl Elem for $t {
            const W: usize = std::mem::size_of::<$t>();
            const SIGNED: bool = $signed;
            fn from_json(v: &Value) -> Self {
                let x: i128 = if let Some(u) = v.as_u64() {
                    u as i128
                } else if let Some(i) = v.as_i64() {
                    i as i128
                } else {
                    tool_error("descriptor value is not an integer")
                };
                if x < <$t>::MIN as i128 || x > <$t>::MAX as i128 {
                    tool_error("descriptor value out of range for its type");
                }
                x as $t
            }
            fn as_i128(self) -> i128 {
                self as i128
            }
            fn ne_bytes(self, out: &mut Vec<u8>) {
                out.extend_from_slice(&self.to_ne_bytes());
            }
            fn rand(rng: &mut Xoshiro256PlusPlus) -> Self {
                match rng.random_range(0..8) {
                    0 => 0 as $t,
                    1 => <$t>::MAX,
                    2 => <$t>::MIN,
                    3 => (1u64 << rng.random_range(0..(8 * Self::W as u32))) as $t,
                    4 => (rng.next_u64() & 0xff) as $t,
                    _ => rng.next_u64() as $t,
                }
            }
        }
    };
}
elem!(u8, false);
elem!(u16, false);
elem!(u32, false);
elem!(u64, false);
elem!(i16, true);
elem!(i32, true);

/// base-65536 digits (most significant first) of the two's complement value; one digit < 256 for u8.
/// computed by arithmetic on the mathematical value, not by to_*_bytes
fn chunks<E: Elem>(x: E) -> Vec<u64> {
    let bits = 8 * E::W as u32;
    let mut u: i128 = x.as_i128();
    if u < 0 {
        u += 1i128 << bits;
    }
    if E::W == 1 {
        return vec![u as u64];
    }
    let k = E::W / 2;
    (0..k).map(|i| ((u >> (16 * (k - 1 - i))) & 0xffff) as u64).collect()
}

fn expected_vec<E: Elem>(v: &[E]) -> Vec<u8> {
    let mut out = Vec::with_capacity(v.len() * E::W);
    for x in v {
        x.ne_bytes(&mut out);
    }
    out
}

const SMALL_BYTES: usize = 48;

/// FNV-1a, only used to count distinct cases in the evidence
fn fnv64(bytes: impl Iterator<Item = u8>) -> String {
    let mut h: u64 = 0xcbf29ce484222325;
    for b in bytes {
        h ^= b as u64;
        h = h.wrapping_mul(0x100000001b3);
    }
    format!("{:016x}", h)
}

// ------------------------------------------------------------------------------------------

struct Ctx {
    trace: Out,
    res: Out,
    next_id: u64,
}

impl Ctx {
    /// write one case to the trace; returns (id, screen)
    fn emit(&mut self, site: &str, ty: &str, evs: &[Ev], ret: Option<(usize, usize)>, mut end: Value) -> (u64, Vec<&'static str>, usize) {
        let id = self.next_id;
        self.next_id += 1;
        let nb = number(evs, ret);
        self.trace.line(&json!({"op": "case", "id": id, "site": site, "type": ty}));
        for l in &nb.lines {
            self.trace.line(l);
        }
        end["op"] = json!("end");
        end["id"] = json!(id);
        end["ret"] = json!(nb.ret);
        self.trace.line(&end);
        (id, nb.screen, nb.lines.len())
    }

    /// a get_sig case from an observation; `spec` = (k, w, val) for small values
    fn emit_sig(&mut self, d: usize, ty: &str, o: &Obs, expected: &[u8], spec: Option<Value>, nonempty: bool, quiet: bool) -> (u64, Vec<&'static str>, bool) {
        let mut end = json!({"eq": o.eq && o.panic.is_none(), "len": o.len, "explen": expected.len()});
        let small = spec.is_some() && o.len <= SMALL_BYTES && o.bytes.len() == o.len;
        if small {
            let s = spec.unwrap();
            end["k"] = s["k"].clone();
            end["w"] = s["w"].clone();
            end["val"] = s["val"].clone();
            end["bytes"] = json!(o.bytes);
        }
        let bytes_ok = o.eq && o.panic.is_none() && o.len == expected.len();
        let (id, screen, nev) = self.emit("get_sig", ty, &o.evs, Some((o.ret_ptr, o.cap)), end);
        if !quiet {
            let mut r = json!({"d": d, "site": "get_sig", "id": id, "type": ty, "len": o.len, "explen": expected.len(),
                               "eq": bytes_ok, "nonempty": nonempty, "screen": screen, "nevents": nev,
                               "h": fnv64(o.bytes.iter().cloned())});
            if o.len <= SMALL_BYTES {
                r["bytes"] = json!(o.bytes);
            }
            if let Some(m) = &o.panic {
                r["panic"] = json!(m);
            }
            self.res.line(&r);
        }
        (id, screen, bytes_ok)
    }
}

// ------------------------------------------------------------------------------------------
// value construction from descriptors

fn gen_vec<E: Elem>(d: &Value) -> Vec<E> {
    if let Some(a) = d.get("val").and_then(|v| v.as_array()) {
        let mut v: Vec<E> = Vec::with_capacity(a.len() + d["extra_cap"].as_u64().unwrap_or(0) as usize);
        for x in a {
            v.push(E::from_json(x));
        }
        v
    } else {
        let len = d["len"].as_u64().unwrap_or_else(|| tool_error("descriptor needs val or len")) as usize;
        let seed = d["seed"].as_u64().unwrap_or(1);
        let mut rng = rng_from(seed, 1801);
        let mut v: Vec<E> = Vec::with_capacity(len + d["extra_cap"].as_u64().unwrap_or(0) as usize);
        for _ in 0..len {
            v.push(E::rand(&mut rng));
        }
        v
    }
}

const POOL_MULTI: [char; 12] = ['a', 'Z', '0', ' ', '\u{e9}', '\u{df}', '\u{3a9}', '\u{20ac}', '\u{4e2d}', '\u{301}', '\u{1f600}', '\u{10ffff}'];

fn gen_string(d: &Value) -> String {
    if let Some(s) = d.get("val").and_then(|v| v.as_str()) {
        s.to_string()
    } else {
        let len = d["len"].as_u64().unwrap_or_else(|| tool_error("descriptor needs val or len")) as usize;
        let seed = d["seed"].as_u64().unwrap_or(1);
        let ascii = d["pool"].as_str() == Some("ascii");
        let mut rng = rng_from(seed, 1802);
        let mut s = String::with_capacity(4 * len + d["extra_cap"].as_u64().unwrap_or(0) as usize);
        for _ in 0..len {
            if ascii {
                s.push((32 + rng.random_range(0..95u8)) as char);
            } else {
                s.push(POOL_MULTI[rng.random_range(0..POOL_MULTI.len())]);
            }
        }
        s
    }
}

fn spec_vec<E: Elem>(v: &[E], scalar: bool) -> Option<Value> {
    if v.len() * E::W > SMALL_BYTES {
        return None;
    }
    if scalar && E::SIGNED {
        // the specification computes the two's complement itself
        return Some(json!({"k": "signed", "w": E::W, "val": [v[0].as_i128() as i64]}));
    }
    let val: Vec<Vec<u64>> = v.iter().map(|x| chunks(*x)).collect();
    Some(json!({"k": if scalar { "scalar" } else { "vec" }, "w": E::W, "val": val}))
}

fn spec_string(s: &str) -> Option<Value> {
    if s.len() > SMALL_BYTES {
        return None;
    }
    let cps: Vec<u32> = s.chars().map(|c| c as u32).collect();
    Some(json!({"k": "string", "w": 1, "val": cps}))
}

// ------------------------------------------------------------------------------------------
// sites

fn site_get_sig(ctx: &mut Ctx, d: usize, desc: &Value) {
    let ty = desc["type"].as_str().unwrap_or_else(|| tool_error("descriptor without type")).to_string();
    macro_rules! scalar {
        ($t:ty) => {{
            let x: $t = <$t as Elem>::from_json(&desc["val"][0]);
            let exp = expected_vec(&[x]);
            let o = observe(&x, &exp);
            ctx.emit_sig(d, &ty, &o, &exp, spec_vec(&[x], true), true, false);
        }};
    }
    macro_rules! vector {
        ($t:ty) => {{
            let v: Vec<$t> = gen_vec::<$t>(desc);
            let exp = expected_vec(&v);
            let o = observe(&v, &exp);
            ctx.emit_sig(d, &ty, &o, &exp, spec_vec(&v, false), !v.is_empty(), false);
        }};
    }
    match ty.as_str() {
        "u8" => scalar!(u8),
        "u16" => scalar!(u16),
        "u32" => scalar!(u32),
        "u64" => scalar!(u64),
        "i16" => scalar!(i16),
        "i32" => scalar!(i32),
        "Vec<u8>" => vector!(u8),
        "Vec<u16>" => vector!(u16),
        "Vec<u32>" => vector!(u32),
        "String" => {
            let s = gen_string(desc);
            let exp = s.as_bytes().to_vec();
            let o = observe(&s, &exp);
            ctx.emit_sig(d, &ty, &o, &exp, spec_string(&s), !s.is_empty(), false);
        }
        other => tool_error(&format!("unknown type {}", other)),
    }
}

/// all values of a small scalar type; only a sample and every failing case (by the Rust-side screen,
/// capped) is shown to TLC
fn site_bulk(ctx: &mut Ctx, d: usize, desc: &Value) {
    let ty = desc["type"].as_str().unwrap_or("").to_string();
    let stride = desc["stride"].as_u64().unwrap_or(4096) as i128;
    macro_rules! bulk {
        ($t:ty) => {{
            let (mut count, mut bad_bytes, mut bad_heap, mut bad_traced) = (0u64, 0u64, 0u64, 0u64);
            let mut traced: Vec<u64> = Vec::new();
            let mut distinct: HashSet<Vec<u8>> = HashSet::new();
            for xi in (<$t>::MIN as i128)..=(<$t>::MAX as i128) {
                let x = xi as $t;
                let exp = expected_vec(&[x]);
                let o = observe(&x, &exp);
                count += 1;
                let nb = number(&o.evs, Some((o.ret_ptr, o.cap)));
                let okb = o.eq && o.panic.is_none() && o.len == exp.len();
                let bad = !nb.screen.is_empty() || !okb;
                if !okb {
                    bad_bytes += 1;
                }
                if !nb.screen.is_empty() {
                    bad_heap += 1;
                }
                distinct.insert(o.bytes.clone());
                if (bad && bad_traced < 20) || (xi - <$t>::MIN as i128) % stride == 0 || xi == <$t>::MAX as i128 {
                    if bad {
                        bad_traced += 1;
                    }
                    let (id, _, _) = ctx.emit_sig(d, &ty, &o, &exp, spec_vec(&[x], true), true, true);
                    traced.push(id);
                }
            }
            ctx.res.line(&json!({"d": d, "site": "bulk", "type": ty, "count": count, "bad_bytes": bad_bytes, "bad_heap": bad_heap,
                                 "bad_traced": bad_traced, "distinct_sigs": distinct.len(), "traced": traced}));
        }};
    }
    match ty.as_str() {
        "u8" => bulk!(u8),
        "u16" => bulk!(u16),
        "i16" => bulk!(i16),
        other => tool_error(&format!("bulk: unsupported type {}", other)),
    }
}

/// equal values -> equal bytes, different values (of one type) -> different bytes, on the real code
fn site_group(ctx: &mut Ctx, d: usize, desc: &Value) {
    let ty = desc["type"].as_str().unwrap_or("").to_string();
    // members: (label, value as json for the report, sig, value key for equality)
    let mut sigs: Vec<Vec<u8>> = Vec::new();
    let mut keys: Vec<Vec<u8>> = Vec::new(); // canonical value encoding independent of get_sig (big-endian + length)
    let mut labels: Vec<Value> = Vec::new();
    let mut heap_bad = 0u64;

    fn canon<E: Elem>(v: &[E]) -> Vec<u8> {
        let mut k = (v.len() as u64).to_be_bytes().to_vec();
        for x in v {
            let mut u = x.as_i128();
            if u < 0 {
                u += 1i128 << (8 * E::W as u32);
            }
            k.extend_from_slice(&(u as u128).to_be_bytes());
        }
        k
    }
    fn variants<E: Elem>(base: &[E], rng: &mut Xoshiro256PlusPlus, k: usize) -> Vec<(String, Vec<E>)> {
        let mut out: Vec<(String, Vec<E>)> = vec![("base".into(), base.to_vec()), ("copy".into(), base.to_vec())];
        for j in 0..k {
            let mut v = base.to_vec();
            let what = j % 6;
            let label;
            match what {
                0 if !v.is_empty() => {
                    let i = rng.random_range(0..v.len());
                    let old = v[i];
                    let mut nv = E::rand(rng);
                    while nv == old {
                        nv = E::rand(rng);
                    }
                    v[i] = nv;
                    label = format!("elem {} changed", i);
                }
                1 => {
                    v.push(E::rand(rng));
                    label = "one appended".to_string();
                }
                2 if !v.is_empty() => {
                    v.pop();
                    label = "last removed".to_string();
                }
                3 if v.len() >= 2 => {
                    let i = rng.random_range(0..v.len() - 1);
                    v.swap(i, i + 1);
                    label = format!("swap {} {}", i, i + 1);
                }
                4 if !v.is_empty() => {
                    // byte swapped element (0x0100 vs 0x0001), by arithmetic on the value
                    let i = rng.random_range(0..v.len());
                    let bits = 8 * E::W as u32;
                    let mut u = v[i].as_i128();
                    if u < 0 {
                        u += 1i128 << bits;
                    }
                    let mut r: i128 = 0;
                    for j in 0..E::W {
                        r = (r << 8) | ((u >> (8 * j)) & 0xff);
                    }
                    if E::SIGNED && r >= 1i128 << (bits - 1) {
                        r -= 1i128 << bits;
                    }
                    v[i] = E::from_json(&if r < 0 { json!(r as i64) } else { json!(r as u64) });
                    label = format!("elem {} byte-swapped", i);
                }
                5 => {
                    v.insert(0, E::from_json(&json!(0)));
                    label = "zero prepended".to_string();
                }
                _ => {
                    v.push(E::from_json(&json!(0)));
                    label = "zero appended".to_string();
                }
            }
            out.push((label, v));
        }
        out
    }
    macro_rules! vecgroup {
        ($t:ty, $scalar:expr) => {{
            let members: Vec<(String, Vec<$t>)> = if let Some(vals) = desc.get("vals").and_then(|v| v.as_array()) {
                vals.iter().enumerate().map(|(i, v)| (format!("#{}", i), gen_vec::<$t>(&json!({"val": v})))).collect()
            } else {
                let base = gen_vec::<$t>(&desc["gen"]);
                let mut rng = rng_from(desc["gen"]["seed"].as_u64().unwrap_or(1), 1803);
                variants::<$t>(&base, &mut rng, desc["gen"]["variants"].as_u64().unwrap_or(6) as usize)
            };
            for (label, v) in members {
                let exp = expected_vec(&v);
                let o = if $scalar { observe(&v[0], &exp) } else { observe_vec_dyn::<$t>(&v, &exp) };
                let nb = number(&o.evs, Some((o.ret_ptr, o.cap)));
                if !nb.screen.is_empty() {
                    heap_bad += 1;
                }
                sigs.push(o.bytes);
                keys.push(canon(&v));
                labels.push(if v.len() <= 16 { json!({"label": label, "val": v.iter().map(|x| x.as_i128().to_string()).collect::<Vec<String>>()}) } else { json!({"label": label, "len": v.len()}) });
            }
        }};
    }
    match ty.as_str() {
        "u8" => vecgroup!(u8, true),
        "u16" => vecgroup!(u16, true),
        "u32" => vecgroup!(u32, true),
        "u64" => vecgroup!(u64, true),
        "i16" => vecgroup!(i16, true),
        "i32" => vecgroup!(i32, true),
        "Vec<u8>" => vecgroup!(u8, false),
        "Vec<u16>" => vecgroup!(u16, false),
        "Vec<u32>" => vecgroup!(u32, false),
        "String" => {
            let members: Vec<(String, String)> = if let Some(vals) = desc.get("vals").and_then(|v| v.as_array()) {
                vals.iter().enumerate().map(|(i, v)| (format!("#{}", i), v.as_str().unwrap_or("").to_string())).collect()
            } else {
                let base = gen_string(&desc["gen"]);
                let mut rng = rng_from(desc["gen"]["seed"].as_u64().unwrap_or(1), 1804);
                let chars: Vec<char> = base.chars().collect();
                let mut out = vec![("base".to_string(), base.clone()), ("copy".to_string(), base.clone())];
                for j in 0..desc["gen"]["variants"].as_u64().unwrap_or(6) as usize {
                    let mut c = chars.clone();
                    let label;
                    match j % 5 {
                        0 if !c.is_empty() => {
                            let i = rng.random_range(0..c.len());
                            let mut nc = POOL_MULTI[rng.random_range(0..POOL_MULTI.len())];
                            while nc == c[i] {
                                nc = POOL_MULTI[rng.random_range(0..POOL_MULTI.len())];
                            }
                            c[i] = nc;
                            label = format!("char {} changed", i);
                        }
                        1 => {
                            c.push('\u{e9}');
                            label = "e-acute appended".to_string();
                        }
                        2 if !c.is_empty() => {
                            c.pop();
                            label = "last removed".to_string();
                        }
                        3 if !c.is_empty() => {
                            // case change: Q vs q (a lowercasing identity would merge them)
                            let i = rng.random_range(0..c.len());
                            c[i] = 'Q';
                            out.push((format!("char {} = Q", i), c.iter().collect()));
                            c[i] = 'q';
                            label = format!("char {} = q", i);
                        }
                        _ => {
                            c.insert(0, '\u{0}');
                            label = "NUL prepended".to_string();
                        }
                    }
                    out.push((label, c.iter().collect()));
                }
                out
            };
            for (label, s) in members {
                let exp = s.as_bytes().to_vec();
                let o = observe(&s, &exp);
                let nb = number(&o.evs, Some((o.ret_ptr, o.cap)));
                if !nb.screen.is_empty() {
                    heap_bad += 1;
                }
                sigs.push(o.bytes);
                // canonical key: code points
                let mut k = Vec::new();
                for c in s.chars() {
                    k.extend_from_slice(&(c as u32).to_be_bytes());
                }
                keys.push(k);
                labels.push(if s.len() <= 48 { json!({"label": label, "val": s}) } else { json!({"label": label, "len": s.len()}) });
            }
        }
        other => tool_error(&format!("group: unknown type {}", other)),
    }
    let n = sigs.len();
    let (mut pairs, mut pairs_diff, mut pairs_eq) = (0u64, 0u64, 0u64);
    let mut bad: Vec<Value> = Vec::new();
    for i in 0..n {
        for j in (i + 1)..n {
            pairs += 1;
            let ve = keys[i] == keys[j];
            let se = sigs[i] == sigs[j];
            if ve {
                pairs_eq += 1;
            } else {
                pairs_diff += 1;
            }
            if ve != se && bad.len() < 10 {
                bad.push(json!({"a": labels[i], "b": labels[j], "values_equal": ve, "sigs_equal": se,
                                "sig_a": if sigs[i].len() <= 64 { json!(sigs[i]) } else { json!(sigs[i].len()) },
                                "sig_b": if sigs[j].len() <= 64 { json!(sigs[j]) } else { json!(sigs[j].len()) }}));
            }
        }
    }
    ctx.res.line(&json!({"d": d, "site": "group", "type": ty, "n": n, "pairs": pairs, "pairs_diff": pairs_diff, "pairs_eq": pairs_eq,
                         "bad": bad, "heap_bad": heap_bad}));
}

/// helper so that the group macro can be written once for scalars and vectors
fn observe_vec_dyn<E: Elem>(v: &Vec<E>, exp: &[u8]) -> Obs {
    use std::any::Any;
    let a = v as &dyn Any;
    if let Some(x) = a.downcast_ref::<Vec<u8>>() {
        observe(x, exp)
    } else if let Some(x) = a.downcast_ref::<Vec<u16>>() {
        observe(x, exp)
    } else if let Some(x) = a.downcast_ref::<Vec<u32>>() {
        observe(x, exp)
    } else {
        tool_error("no Sig implementation for this vector type")
    }
}

type FnvIndexMap<K, V> = indexmap::IndexMap<K, V, fnv::FnvBuildHasher>;

/// ProbMinHash3aSha over keys of type D inside a window (it calls key.get_sig() internally)
fn sketch_run<D>(keys: Vec<D>, init: &D, nbhash: usize, seed: u64, map: &str) -> (Result<usize, String>, Vec<Ev>)
where
    D: Clone + Eq + std::fmt::Debug + Sig + std::hash::Hash,
{
    let mut rng = rng_from(seed, 1805);
    if map == "hash" {
        let mut data: HashMap<D, f64, fnv::FnvBuildHasher> = HashMap::default();
        for k in keys {
            data.insert(k, 0.5 + 10.0 * rng.random::<f64>());
        }
        window(|| {
            let mut s = ProbMinHash3aSha::<D>::new(nbhash, init.clone());
            s.hash_weigthed_hashmap(&data);
            let n = black_box(s.get_signature()).len();
            drop(s);
            n
        })
    } else {
        let mut data: FnvIndexMap<D, u32> = FnvIndexMap::default();
        for k in keys {
            data.insert(k, rng.random_range(1..20u32));
        }
        window(|| {
            let mut s = ProbMinHash3aSha::<D>::new(nbhash, init.clone());
            s.hash_weigthed_idxmap(&data);
            let n = black_box(s.get_signature()).len();
            drop(s);
            n
        })
    }
}

fn site_sketch(ctx: &mut Ctx, d: usize, desc: &Value) {
    let ty = desc["type"].as_str().unwrap_or("").to_string();
    let nkeys = desc["nkeys"].as_u64().unwrap_or(8) as usize;
    let keylen = desc["keylen"].as_u64().unwrap_or(8) as usize;
    let nbhash = desc["nbhash"].as_u64().unwrap_or(8) as usize;
    let seed = desc["seed"].as_u64().unwrap_or(1);
    let map = desc["map"].as_str().unwrap_or("idx").to_string();
    let mut rng = rng_from(seed, 1806);
    let nonempty;
    macro_rules! veckeys {
        ($t:ty) => {{
            let mut keys: Vec<Vec<$t>> = Vec::new();
            for i in 0..nkeys {
                let len = if i == 0 { 0 } else if i == 1 { keylen } else { rng.random_range(0..=keylen) };
                keys.push(gen_vec::<$t>(&json!({"len": len, "seed": rng.next_u64() >> 12})));
            }
            nonempty = keys.iter().any(|k| !k.is_empty());
            sketch_run(keys, &Vec::<$t>::new(), nbhash, seed, &map)
        }};
    }
    macro_rules! scalarkeys {
        ($t:ty) => {{
            let keys: Vec<$t> = (0..nkeys).map(|_| <$t as Elem>::rand(&mut rng)).collect();
            nonempty = true;
            sketch_run(keys, &(0 as $t), nbhash, seed, &map)
        }};
    }
    let (r, evs) = match ty.as_str() {
        "Vec<u8>" => veckeys!(u8),
        "Vec<u16>" => veckeys!(u16),
        "Vec<u32>" => veckeys!(u32),
        "u32" => scalarkeys!(u32),
        "u64" => scalarkeys!(u64),
        "String" => {
            let mut keys: Vec<String> = Vec::new();
            for i in 0..nkeys {
                let len = if i == 0 { 0 } else if i == 1 { keylen } else { rng.random_range(0..=keylen) };
                keys.push(gen_string(&json!({"len": len, "seed": rng.next_u64() >> 12, "pool": if i % 2 == 0 { "multi" } else { "ascii" }})));
            }
            nonempty = keys.iter().any(|k| !k.is_empty());
            sketch_run(keys, &String::new(), nbhash, seed, &map)
        }
        other => tool_error(&format!("sketch: unsupported key type {}", other)),
    };
    let end = json!({"eq": true, "len": 0, "explen": 0});
    let (id, screen, nev) = ctx.emit("sketch", &ty, &evs, None, end);
    let mut rl = json!({"d": d, "site": "sketch", "id": id, "type": ty, "nonempty": nonempty, "screen": screen, "nevents": nev,
                        "ok": r.is_ok(), "h": fnv64(evs.iter().flat_map(|e| [e.op, e.size as u8, (e.size >> 8) as u8, e.align as u8]))});
    if let Err(m) = r {
        rl["panic"] = json!(m);
    }
    ctx.res.line(&rl);
}

fn cases(a: &Args) {
    silence_panics();
    let descs = read_ndjson(&a.str("in"));
    let mut ctx = Ctx { trace: Out::create(&a.str("trace")), res: Out::create(&a.str("res")), next_id: 0 };
    ctx.trace.line(&json!({"kind": "C18", "little": cfg!(target_endian = "little")}));
    for (d, desc) in descs.iter().enumerate() {
        match desc["site"].as_str().unwrap_or("") {
            "get_sig" => site_get_sig(&mut ctx, d, desc),
            "bulk" => site_bulk(&mut ctx, d, desc),
            "group" => site_group(&mut ctx, d, desc),
            "sketch" => site_sketch(&mut ctx, d, desc),
            other => tool_error(&format!("unknown site {}", other)),
        }
    }
    ctx.trace.finish();
    ctx.res.finish();
}

fn main() {
    let argv: Vec<String> = std::env::args().collect();
    if argv.len() < 2 {
        tool_error("usage: c18 cases in=<descriptors> trace=<ndjson> res=<ndjson>");
    }
    let a = Args::parse(&argv[2..]);
    match argv[1].as_str() {
        "cases" => cases(&a),
        other => tool_error(&format!("unknown subcommand {}", other)),
    }
}
