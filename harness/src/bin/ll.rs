//! C13 (long life): ONE sketcher object lives through many cycles of (a few items, reinit / reset); at check points -
//! dense around 2^8 and 2^16 cycles and their multiples, sparse elsewhere - it is given a fixed input and must produce
//! exactly what a newly constructed sketcher produces for that input.  Counters, stamps and caches that survive
//! reinit show here when they wrap or saturate.
use fnv::FnvHasher;
use pmh_verif::sketchers::*;
use pmh_verif::util::*;
use probminhash::densminhash::{OptDensMinHash, RevOptDensMinHash};
use probminhash::probminhasher::probordminhash2::ProbOrdMinHash2;
use rand::Rng;
use serde_json::{json, Value};
use std::hash::BuildHasherDefault;

fn is_check(c: u64) -> bool {
    // c is exactly the number of reinit / reset calls the object has gone through (a check point only adds items): every
    // count within 6 of a multiple of 2^16 (and of 2^8 early on) is followed by a comparison
    let near = |x: u64| (c % x) <= 6 || (c % x) >= x - 6;
    (near(256) && c < 2000) || near(65536) || c % 9973 == 0
}

fn join_kind(kind: &str, m: usize, cycles: u64, seed: u64) -> Value {
    let mut rng = rng_from(seed, 13_000);
    let ss = if kind.starts_with("ss_") { Some(SsParams { b: 1.2, m: m as u64, a: 20.0, q: 62 }) } else { None };
    let cfg = Cfg { kind: kind.to_string(), m, ss };
    let is_pmh = kind.starts_with("pmh");
    let r = catch(|| {
        let mut old = make(&cfg);
        let mut bad: Vec<Value> = Vec::new();
        let mut checks = 0u64;
        for c in 1..=cycles {
            for _ in 0..(1 + c % 2) {
                let it = Item { id: rng.random::<u64>() >> 1, w: if is_pmh { rng.random_range(0.5..4.0) } else { 1.0 } };
                old.sketch(&it);
            }
            if old.reinit() != O_OK {
                return (bad, checks, false);
            }
            if is_check(c) {
                checks += 1;
                let input: Vec<Item> = (0..5).map(|_| Item { id: rng.random::<u64>() >> 1, w: if is_pmh { rng.random_range(0.5..4.0) } else { 1.0 } }).collect();
                let mut fresh = make(&cfg);
                for it in &input {
                    old.sketch(it);
                    fresh.sketch(it);
                }
                if (old.public_bits() != fresh.public_bits() || old.regs() != fresh.regs()) && bad.len() < 5 {
                    bad.push(json!({"reinits_before": c, "input": input.iter().map(|i| json!([i.id.to_string(), i.w])).collect::<Vec<_>>(),
                                    "reused": old.public_bits().iter().map(|x| x.to_string()).collect::<Vec<_>>(),
                                    "new_object": fresh.public_bits().iter().map(|x| x.to_string()).collect::<Vec<_>>()}));
                }
            }
        }
        (bad, checks, true)
    });
    match r {
        Ok((bad, checks, supported)) => json!({"kind": kind, "m": m, "cycles": cycles, "checks": checks, "bad": bad, "supported": supported}),
        Err(msg) => json!({"kind": kind, "m": m, "cycles": cycles, "checks": 0, "bad": [], "panic": msg, "supported": true}),
    }
}

macro_rules! dens_kind {
    ($name:expr, $ty:ident, $f:ty, $m:expr, $cycles:expr, $seed:expr) => {{
        let mut rng = rng_from($seed, 13_100);
        let m: usize = $m;
        let r = catch(|| {
            let mut old = $ty::<$f, u64, FnvHasher>::new(m, BuildHasherDefault::<FnvHasher>::default());
            let mut bad: Vec<Value> = Vec::new();
            let mut checks = 0u64;
            for c in 1..=$cycles {
                let x = rng.random::<u64>();
                old.sketch(&x);
                if c % 3 == 0 {
                    old.end_sketch();
                }
                old.reinit();
                if is_check(c) {
                    checks += 1;
                    let input: Vec<u64> = (0..3).map(|_| rng.random::<u64>()).collect();
                    let mut fresh = $ty::<$f, u64, FnvHasher>::new(m, BuildHasherDefault::<FnvHasher>::default());
                    old.sketch_slice(&input).unwrap();
                    fresh.sketch_slice(&input).unwrap();
                    let same = old.get_hsketch_u64() == fresh.get_hsketch_u64()
                        && old.get_hsketch_u32() == fresh.get_hsketch_u32()
                        && old.get_hsketch().iter().zip(fresh.get_hsketch().iter()).all(|(p, q)| p.to_bits() == q.to_bits());
                    if !same && bad.len() < 5 {
                        bad.push(json!({"reinits_before": c, "input": input.iter().map(|i| i.to_string()).collect::<Vec<_>>(),
                                        "reused": old.get_hsketch_u64().iter().map(|x| x.to_string()).collect::<Vec<_>>(),
                                        "new_object": fresh.get_hsketch_u64().iter().map(|x| x.to_string()).collect::<Vec<_>>()}));
                    }
                }
            }
            (bad, checks)
        });
        match r {
            Ok((bad, checks)) => json!({"kind": $name, "m": m, "cycles": $cycles, "checks": checks, "bad": bad, "supported": true}),
            Err(msg) => json!({"kind": $name, "m": m, "cycles": $cycles, "checks": 0, "bad": [], "panic": msg, "supported": true}),
        }
    }};
}

fn ord_kind(m: usize, l: usize, cycles: u64, seed: u64) -> Value {
    let mut rng = rng_from(seed, 13_200);
    let r = catch(|| {
        let mut old = ProbOrdMinHash2::<FnvHasher>::new(m as u32, l);
        let mut bad: Vec<Value> = Vec::new();
        let mut checks = 0u64;
        for c in 1..=cycles {
            let n = l + (c % 3) as usize;
            let data: Vec<u64> = (0..n).map(|_| rng.random_range(1..6u64)).collect();
            let _ = old.hash_set(&data);
            if is_check(c) {
                checks += 1;
                let input: Vec<u64> = (0..(l + 4)).map(|_| rng.random_range(1..6u64)).collect();
                let mut fresh = ProbOrdMinHash2::<FnvHasher>::new(m as u32, l);
                let (x, y) = (old.hash_set(&input), fresh.hash_set(&input));
                if x != y && bad.len() < 5 {
                    bad.push(json!({"calls_before": c, "input": input, "reused": x.iter().map(|v| v.to_string()).collect::<Vec<_>>(),
                                    "new_object": y.iter().map(|v| v.to_string()).collect::<Vec<_>>()}));
                }
            }
        }
        (bad, checks)
    });
    match r {
        Ok((bad, checks)) => json!({"kind": "ord2_fnv", "m": m, "cycles": cycles, "checks": checks, "bad": bad, "supported": true}),
        Err(msg) => json!({"kind": "ord2_fnv", "m": m, "cycles": cycles, "checks": 0, "bad": [], "panic": msg, "supported": true}),
    }
}

/// run out=<json> seed=N cycles=C kinds=k1,k2,...
fn run(a: &Args) {
    silence_panics();
    let seed = a.u64_or("seed", 1);
    let cycles = a.u64_or("cycles", 140_000);
    let kinds: Vec<String> = a.str("kinds").split(',').map(|s| s.to_string()).collect();
    let mut cases: Vec<Value> = Vec::new();
    for k in &kinds {
        let v = match k.as_str() {
            "dens_f64" => dens_kind!("dens_f64", OptDensMinHash, f64, 4, cycles, seed),
            "dens_f32" => dens_kind!("dens_f32", OptDensMinHash, f32, 3, cycles, seed),
            "rev_f64" => dens_kind!("rev_f64", RevOptDensMinHash, f64, 4, cycles, seed),
            "rev_f32" => dens_kind!("rev_f32", RevOptDensMinHash, f32, 3, cycles, seed),
            "ord2_fnv" => ord_kind(4, 2, cycles, seed),
            other => join_kind(other, if other.starts_with("pmh") { 4 } else { 3 }, cycles, seed),
        };
        cases.push(v);
    }
    write_json(&a.str("out"), &json!({"cases": cases}));
}

fn main() {
    let argv: Vec<String> = std::env::args().collect();
    if argv.len() < 2 {
        tool_error("usage: ll run key=value ...");
    }
    let a = Args::parse(&argv[2..]);
    match argv[1].as_str() {
        "run" => run(&a),
        other => tool_error(&format!("unknown subcommand {}", other)),
    }
}
