//! XAPI (extra engine, not one of the listed properties): random histories of public calls on the crate's stateful
//! objects, recorded for spec/TraceApi.tla.  One event per call: name, abstract arguments, outcome (ok / err / panic),
//! length of a returned sketch, observed phase where a hook exposes it ("" otherwise).
use fnv::FnvHasher;
use indexmap::IndexMap;
use pmh_verif::util::*;
use probminhash::densminhash::{OptDensMinHash, RevOptDensMinHash};
use probminhash::fyshuffle::FYshuffle;
use probminhash::probminhasher::probminhash2::ProbMinHash2;
use probminhash::probminhasher::probminhash3::{ProbMinHash3, ProbMinHash3a};
use probminhash::probminhasher::probordminhash2::ProbOrdMinHash2;
use probminhash::setsketcher::{SetSketchParams, SetSketcher};
use probminhash::superminhasher::SuperMinHash;
use probminhash::superminhasher2::SuperMinHash2;
use rand::Rng;
use rand_xoshiro::Xoshiro256PlusPlus;
use serde_json::{json, Value};
use std::collections::HashMap;
use std::hash::BuildHasherDefault;

type Bh = BuildHasherDefault<FnvHasher>;
type R = Xoshiro256PlusPlus;

/// watchdog: the number of events written so far; a call that does not return within the limit ends the process with
/// exit code 3 after printing the last event written (the call in progress is the one after it)
static TICK: std::sync::atomic::AtomicU64 = std::sync::atomic::AtomicU64::new(0);
static LAST: std::sync::Mutex<String> = std::sync::Mutex::new(String::new());

fn start_watchdog(limit_ms: u64) {
    std::thread::spawn(move || {
        let mut seen = TICK.load(std::sync::atomic::Ordering::Relaxed);
        let mut since = std::time::Instant::now();
        loop {
            std::thread::sleep(std::time::Duration::from_millis(100));
            let now = TICK.load(std::sync::atomic::Ordering::Relaxed);
            if now != seen {
                seen = now;
                since = std::time::Instant::now();
            } else if since.elapsed() > std::time::Duration::from_millis(limit_ms) {
                println!("XAPI-HANG after event {}", LAST.lock().map(|s| s.clone()).unwrap_or_default());
                std::process::exit(3);
            }
        }
    });
}

fn emit(out: &mut Out, e: &Value) {
    out.line(e);
    if let Ok(mut l) = LAST.lock() {
        *l = e.to_string();
    }
    TICK.fetch_add(1, std::sync::atomic::Ordering::Relaxed);
}

fn ev(run: u64, op: &str) -> Value {
    json!({"run": run, "op": op, "k": "", "variant": "", "m": 0, "n": 0, "bad": 0, "flag": false, "flag2": false,
           "out": "ok", "len": 0, "ph": "", "val": 0})
}

fn outcome<T, E>(r: Result<Result<T, E>, String>) -> (&'static str, Option<T>) {
    match r {
        Ok(Ok(v)) => ("ok", Some(v)),
        Ok(Err(_)) => ("err", None),
        Err(_) => ("panic", None),
    }
}

fn items(n: usize, rng: &mut R) -> Vec<u64> {
    (0..n).map(|_| rng.random_range(0..40u64) * 0x9e37_79b9_7f4a_7c15).collect()
}

// ------------------------------------------------------------------------------------------- densified sketchers
trait Dens {
    fn sketch(&mut self, x: u64);
    fn slice(&mut self, xs: &[u64]) -> bool;
    fn end(&mut self);
    fn reinit(&mut self);
    fn get(&self, view: usize) -> usize;
    fn nb_empty(&self) -> i64;
}
macro_rules! dens_impl {
    ($name:ident, $ty:ident, $f:ty) => {
        struct $name($ty<$f, u64, FnvHasher>);
        impl Dens for $name {
            fn sketch(&mut self, x: u64) {
                self.0.sketch(&x)
            }
            fn slice(&mut self, xs: &[u64]) -> bool {
                self.0.sketch_slice(xs).is_ok()
            }
            fn end(&mut self) {
                self.0.end_sketch()
            }
            fn reinit(&mut self) {
                self.0.reinit()
            }
            fn get(&self, view: usize) -> usize {
                match view {
                    0 => self.0.get_hsketch().len(),
                    1 => self.0.get_hsketch_u64().len(),
                    _ => self.0.get_hsketch_u32().len(),
                }
            }
            fn nb_empty(&self) -> i64 {
                self.0.verif_raw().3
            }
        }
    };
}
dens_impl!(OptF64, OptDensMinHash, f64);
dens_impl!(OptF32, OptDensMinHash, f32);
dens_impl!(RevF64, RevOptDensMinHash, f64);
dens_impl!(RevF32, RevOptDensMinHash, f32);

fn dens_history(run: u64, variant: &str, m: usize, len: usize, rng: &mut R, out: &mut Out) {
    let mut e = ev(run, "new");
    e["k"] = json!("dens");
    e["variant"] = json!(variant);
    e["m"] = json!(m);
    let made: Result<Box<dyn Dens>, String> = catch(|| -> Box<dyn Dens> {
        match variant {
            "opt_f64" => Box::new(OptF64(OptDensMinHash::new(m, Bh::default()))),
            "opt_f32" => Box::new(OptF32(OptDensMinHash::new(m, Bh::default()))),
            "rev_f64" => Box::new(RevF64(RevOptDensMinHash::new(m, Bh::default()))),
            _ => Box::new(RevF32(RevOptDensMinHash::new(m, Bh::default()))),
        }
    });
    let mut s = match made {
        Ok(s) => s,
        Err(_) => {
            e["out"] = json!("panic");
            emit(out, &e);
            return;
        }
    };
    emit(out, &e);
    let phase = |s: &Box<dyn Dens>| -> &'static str {
        let n = s.nb_empty();
        if n == m as i64 {
            "empty"
        } else if n == 0 {
            "dense"
        } else {
            "partial"
        }
    };
    for _ in 0..len {
        let mut e;
        match rng.random_range(0..10) {
            0..=2 => {
                e = ev(run, "sketch");
                let x = items(1, rng)[0];
                let r = catch(|| s.sketch(x));
                e["out"] = json!(if r.is_ok() { "ok" } else { "panic" });
            }
            3 => {
                let n = rng.random_range(0..4usize);
                let n = if rng.random_range(0..3) == 0 { 0 } else { n };
                e = ev(run, "slice");
                e["n"] = json!(n);
                let xs = items(n, rng);
                let r = catch(|| s.slice(&xs));
                e["out"] = json!(match r {
                    Ok(true) => "ok",
                    Ok(false) => "err",
                    Err(_) => "panic",
                });
            }
            4 | 5 => {
                e = ev(run, "end");
                let r = catch(|| s.end());
                e["out"] = json!(if r.is_ok() { "ok" } else { "panic" });
            }
            6..=8 => {
                e = ev(run, "get");
                let view = rng.random_range(0..3usize);
                e["val"] = json!(view);
                match catch(|| s.get(view)) {
                    Ok(l) => e["len"] = json!(l),
                    Err(_) => e["out"] = json!("panic"),
                }
            }
            _ => {
                e = ev(run, "reinit");
                let r = catch(|| s.reinit());
                e["out"] = json!(if r.is_ok() { "ok" } else { "panic" });
            }
        }
        e["ph"] = json!(phase(&s));
        emit(out, &e);
    }
}

// ------------------------------------------------------------------------------------------- SuperMinHash(2)
enum Smh {
    F64(SuperMinHash<f64, u64, FnvHasher>),
    F32(SuperMinHash<f32, u64, FnvHasher>),
    Two(SuperMinHash2<u64, u64, FnvHasher>),
}
impl Smh {
    fn sketch(&mut self, x: u64) -> Result<(), ()> {
        match self {
            Smh::F64(s) => s.sketch(&x).map_err(|_| ()),
            Smh::F32(s) => s.sketch(&x).map_err(|_| ()),
            Smh::Two(s) => s.sketch(&x),
        }
    }
    fn slice(&mut self, xs: &[u64]) -> Result<(), ()> {
        match self {
            Smh::F64(s) => s.sketch_slice(xs).map_err(|_| ()),
            Smh::F32(s) => s.sketch_slice(xs).map_err(|_| ()),
            Smh::Two(s) => s.sketch_slice(xs),
        }
    }
    fn len(&self) -> usize {
        match self {
            Smh::F64(s) => s.get_hsketch().len(),
            Smh::F32(s) => s.get_hsketch().len(),
            Smh::Two(s) => s.get_hsketch().len(),
        }
    }
    /// the estimator method against a copy of the own sketch cut or extended to `n` positions
    fn estimate(&self, n: usize) -> Result<f64, ()> {
        match self {
            Smh::F64(s) => {
                let mut o = s.get_hsketch().clone();
                o.resize(n, 0.5);
                s.get_jaccard_index_estimate(&o).map_err(|_| ())
            }
            Smh::F32(s) => {
                let mut o = s.get_hsketch().clone();
                o.resize(n, 0.5);
                s.get_jaccard_index_estimate(&o).map_err(|_| ())
            }
            Smh::Two(s) => {
                let mut o = s.get_hsketch().clone();
                o.resize(n, 7);
                s.get_jaccard_index_estimate(&o)
            }
        }
    }
    fn reinit(&mut self) {
        match self {
            Smh::F64(s) => s.reinit(),
            Smh::F32(s) => s.reinit(),
            Smh::Two(s) => s.reinit(),
        }
    }
}

fn smh_history(run: u64, variant: &str, m: usize, len: usize, rng: &mut R, out: &mut Out) {
    let mut e = ev(run, "new");
    e["k"] = json!("smh");
    e["variant"] = json!(variant);
    e["m"] = json!(m);
    let made = catch(|| match variant {
        "smh_f64" => Smh::F64(SuperMinHash::new(m, Bh::default())),
        "smh_f32" => Smh::F32(SuperMinHash::new(m, Bh::default())),
        _ => Smh::Two(SuperMinHash2::new(m, Bh::default())),
    });
    let mut s = match made {
        Ok(s) => s,
        Err(_) => {
            e["out"] = json!("panic");
            emit(out, &e);
            return;
        }
    };
    emit(out, &e);
    for _ in 0..len {
        let mut e;
        match rng.random_range(0..10) {
            0..=2 => {
                e = ev(run, "sketch");
                let x = items(1, rng)[0];
                e["out"] = json!(outcome(catch(|| s.sketch(x))).0);
            }
            3 | 4 => {
                let n = if rng.random_range(0..3) == 0 { 0 } else { rng.random_range(1..4usize) };
                e = ev(run, "slice");
                e["n"] = json!(n);
                let xs = items(n, rng);
                e["out"] = json!(outcome(catch(|| s.slice(&xs))).0);
            }
            5 | 6 => {
                e = ev(run, "get");
                match catch(|| s.len()) {
                    Ok(l) => e["len"] = json!(l),
                    Err(_) => e["out"] = json!("panic"),
                }
            }
            7 | 8 => {
                e = ev(run, "estimate");
                // same length, one shorter, one longer, much longer
                let n = match rng.random_range(0..5) {
                    0 | 1 => m,
                    2 => m - 1,
                    3 => m + 1,
                    _ => 2 * m + 3,
                };
                e["flag"] = json!(n == m);
                e["n"] = json!(n);
                let (o, v) = outcome(catch(|| s.estimate(n)));
                e["out"] = json!(o);
                if let Some(j) = v {
                    if !(0.0..=1.0).contains(&j) {
                        e["out"] = json!("range"); // not an outcome the specification knows
                    }
                }
            }
            _ => {
                e = ev(run, "reinit");
                let r = catch(|| s.reinit());
                e["out"] = json!(if r.is_ok() { "ok" } else { "panic" });
            }
        }
        emit(out, &e);
    }
}

// ------------------------------------------------------------------------------------------- SetSketcher
enum Ss {
    U16(SetSketcher<u16, u64, FnvHasher>),
    U32(SetSketcher<u32, u64, FnvHasher>),
}
fn ss_make(variant: &str, b: f64, m: usize, a: f64, q: u64) -> Ss {
    let p = SetSketchParams::new(b, m as u64, a, q);
    if variant == "ss_u16" {
        Ss::U16(SetSketcher::new(p, Bh::default()))
    } else {
        Ss::U32(SetSketcher::new(p, Bh::default()))
    }
}
impl Ss {
    fn sketch(&mut self, x: u64) -> Result<(), ()> {
        match self {
            Ss::U16(s) => s.sketch(&x).map_err(|_| ()),
            Ss::U32(s) => s.sketch(&x).map_err(|_| ()),
        }
    }
    fn slice(&mut self, xs: &[u64]) -> Result<(), ()> {
        match self {
            Ss::U16(s) => s.sketch_slice(xs).map_err(|_| ()),
            Ss::U32(s) => s.sketch_slice(xs).map_err(|_| ()),
        }
    }
    fn len(&self) -> usize {
        match self {
            Ss::U16(s) => s.get_signature().len(),
            Ss::U32(s) => s.get_signature().len(),
        }
    }
    fn merge(&mut self, o: &Ss) -> Result<(), ()> {
        match (self, o) {
            (Ss::U16(s), Ss::U16(o)) => s.merge(o).map_err(|_| ()),
            (Ss::U32(s), Ss::U32(o)) => s.merge(o).map_err(|_| ()),
            _ => unreachable!(),
        }
    }
    fn reinit(&mut self) {
        match self {
            Ss::U16(s) => s.reinit(),
            Ss::U32(s) => s.reinit(),
        }
    }
}

fn ss_history(run: u64, variant: &str, m: usize, len: usize, rng: &mut R, out: &mut Out) {
    let (b, a, q) = (1.001f64, 20.0f64, if variant == "ss_u16" { 65534u64 } else { 1u64 << 20 });
    let mut e = ev(run, "new");
    e["k"] = json!("ss");
    e["variant"] = json!(variant);
    e["m"] = json!(m);
    let mut s = match catch(|| ss_make(variant, b, m, a, q)) {
        Ok(s) => s,
        Err(_) => {
            e["out"] = json!("panic");
            emit(out, &e);
            return;
        }
    };
    emit(out, &e);
    for _ in 0..len {
        let mut e;
        match rng.random_range(0..10) {
            0..=2 => {
                e = ev(run, "sketch");
                let x = items(1, rng)[0];
                e["out"] = json!(outcome(catch(|| s.sketch(x))).0);
            }
            3 | 4 => {
                let n = if rng.random_range(0..3) == 0 { 0 } else { rng.random_range(1..4usize) };
                e = ev(run, "slice");
                e["n"] = json!(n);
                let xs = items(n, rng);
                e["out"] = json!(outcome(catch(|| s.slice(&xs))).0);
            }
            5 | 6 => {
                e = ev(run, "get");
                match catch(|| s.len()) {
                    Ok(l) => e["len"] = json!(l),
                    Err(_) => e["out"] = json!("panic"),
                }
            }
            7 | 8 => {
                e = ev(run, "merge");
                let same = rng.random_range(0..2) == 0;
                let fed = rng.random_range(0..2) == 0;
                e["flag"] = json!(same);
                e["flag2"] = json!(fed);
                let other = catch(|| {
                    let mut o = if same {
                        ss_make(variant, b, m, a, q)
                    } else {
                        match rng.random_range(0..4) {
                            0 => ss_make(variant, b, m + 1, a, q),
                            1 => ss_make(variant, 1.002, m, a, q),
                            2 => ss_make(variant, b, m, 19.0, q),
                            _ => ss_make(variant, b, m, a, q - 1),
                        }
                    };
                    if fed {
                        let _ = o.sketch(items(1, rng)[0]);
                    }
                    o
                });
                match other {
                    Ok(o) => e["out"] = json!(outcome(catch(|| s.merge(&o))).0),
                    Err(_) => e["out"] = json!("panic"),
                }
            }
            _ => {
                e = ev(run, "reinit");
                let r = catch(|| s.reinit());
                e["out"] = json!(if r.is_ok() { "ok" } else { "panic" });
            }
        }
        emit(out, &e);
    }
}

// ------------------------------------------------------------------------------------------- ProbMinHash2 / 3 / 3a
enum Pmh {
    Two(ProbMinHash2<u64, FnvHasher>),
    Three(ProbMinHash3<u64, FnvHasher>),
    ThreeA(ProbMinHash3a<u64, FnvHasher>),
}
impl Pmh {
    fn fed(&self) -> bool {
        let regs = match self {
            Pmh::Two(s) => s.verif_registers(),
            Pmh::Three(s) => s.verif_registers(),
            Pmh::ThreeA(s) => s.verif_registers(),
        };
        regs.iter().any(|x| *x < f64::MAX)
    }
    fn len(&self) -> usize {
        match self {
            Pmh::Two(s) => s.get_signature().len(),
            Pmh::Three(s) => s.get_signature().len(),
            Pmh::ThreeA(s) => s.get_signature().len(),
        }
    }
}

fn bad_weight(kind: &str, rng: &mut R) -> f64 {
    // ProbMinHash2/3 refuse everything that is not > 0; ProbMinHash3a accepts 0 (and ignores the item)
    let c: [f64; 4] = if kind == "pmha" { [-1.0, f64::NAN, f64::INFINITY, -0.5] } else { [0.0, -1.0, f64::NAN, -0.0] };
    c[rng.random_range(0..4)]
}

fn pmh_history(run: u64, kind: &str, m: usize, len: usize, rng: &mut R, out: &mut Out) {
    let mut e = ev(run, "new");
    e["k"] = json!(kind);
    e["variant"] = json!(kind);
    e["m"] = json!(m);
    let made = catch(|| match kind {
        "pmh" => Pmh::Two(ProbMinHash2::new(m, u64::MAX)),
        "pmh3" => Pmh::Three(ProbMinHash3::new(m, u64::MAX)),
        _ => Pmh::ThreeA(ProbMinHash3a::new(m, u64::MAX)),
    });
    let mut s = match made {
        Ok(s) => s,
        Err(_) => {
            e["out"] = json!("panic");
            emit(out, &e);
            return;
        }
    };
    emit(out, &e);
    let mut next_id = 1u64;
    for _ in 0..len {
        let mut e;
        let choice = rng.random_range(0..10);
        if choice <= 2 && kind != "pmha" {
            e = ev(run, "item");
            let good = rng.random_range(0..4) != 0;
            e["flag"] = json!(good);
            let w = if good { rng.random_range(0.1..10.0) } else { bad_weight(kind, rng) };
            let id = next_id;
            next_id += 1;
            let r = catch(|| match &mut s {
                Pmh::Two(s) => s.hash_item(id, w),
                Pmh::Three(s) => s.hash_item(id, &w),
                Pmh::ThreeA(_) => unreachable!(),
            });
            e["out"] = json!(if r.is_ok() { "ok" } else { "panic" });
        } else if choice <= 6 {
            e = ev(run, "batch");
            let n = rng.random_range(0..4usize);
            let bad = if n > 0 && rng.random_range(0..3) == 0 { rng.random_range(1..=n) } else { 0 };
            let mut ws: Vec<(u64, f64)> = Vec::new();
            for i in 1..=n {
                let w = if i == bad {
                    bad_weight(kind, rng)
                } else if kind == "pmha" && rng.random_range(0..4) == 0 {
                    0.0 // accepted and ignored by ProbMinHash3a
                } else {
                    rng.random_range(0.1..10.0)
                };
                ws.push((next_id, w));
                next_id += 1;
            }
            // the entry point: IndexMap (insertion order) or HashMap (its own iteration order)
            let use_hashmap = rng.random_range(0..2) == 0 || matches!(s, Pmh::Two(_));
            let order: Vec<(u64, f64)>;
            let mut im: IndexMap<u64, f64, fnv::FnvBuildHasher> = IndexMap::default();
            let mut hm: HashMap<u64, f64> = HashMap::new();
            let mut hmf: HashMap<u64, f64, fnv::FnvBuildHasher> = HashMap::default();
            if use_hashmap {
                for (k, w) in &ws {
                    hm.insert(*k, *w);
                    hmf.insert(*k, *w);
                }
                order = if matches!(s, Pmh::Two(_)) { hm.iter().map(|(k, w)| (*k, *w)).collect() } else { hmf.iter().map(|(k, w)| (*k, *w)).collect() };
            } else {
                for (k, w) in &ws {
                    im.insert(*k, *w);
                }
                order = ws.clone();
            }
            let refused = |w: f64| if kind == "pmha" { !(w.is_finite() && w >= 0.0) } else { !(w > 0.0) };
            let badpos = order.iter().position(|(_, w)| refused(*w)).map(|p| p + 1).unwrap_or(0);
            let upto = if badpos == 0 { order.len() } else { badpos - 1 };
            let eff = order[..upto].iter().any(|(_, w)| *w > 0.0);
            e["n"] = json!(n);
            e["bad"] = json!(badpos);
            e["flag"] = json!(eff);
            e["flag2"] = json!(use_hashmap);
            let r = catch(|| match &mut s {
                Pmh::Two(s) => s.hash_weigthed_hashmap::<std::collections::hash_map::RandomState>(&hm),
                Pmh::Three(s) => {
                    if use_hashmap {
                        s.hash_weigthed_hashmap(&hmf)
                    } else {
                        s.hash_weigthed_idxmap(&im)
                    }
                }
                Pmh::ThreeA(s) => {
                    if use_hashmap {
                        s.hash_weigthed_hashmap(&hmf)
                    } else {
                        s.hash_weigthed_idxmap(&im)
                    }
                }
            });
            e["out"] = json!(if r.is_ok() { "ok" } else { "panic" });
        } else if choice <= 8 {
            e = ev(run, "get");
            match catch(|| s.len()) {
                Ok(l) => e["len"] = json!(l),
                Err(_) => e["out"] = json!("panic"),
            }
        } else if let Pmh::Two(p) = &mut s {
            e = ev(run, "reinit");
            let r = catch(|| p.reset());
            e["out"] = json!(if r.is_ok() { "ok" } else { "panic" });
        } else {
            continue;
        }
        e["ph"] = json!(if s.fed() { "fed" } else { "fresh" });
        emit(out, &e);
    }
}

// ------------------------------------------------------------------------------------------- ProbOrdMinHash2, FYshuffle
fn ord_history(run: u64, m: usize, len: usize, rng: &mut R, out: &mut Out) {
    let l = rng.random_range(1..4usize);
    let mut e = ev(run, "new");
    e["k"] = json!("ord");
    e["variant"] = json!(format!("l={}", l));
    e["m"] = json!(m);
    let mut s = match catch(|| ProbOrdMinHash2::<FnvHasher>::new(m as u32, l)) {
        Ok(s) => s,
        Err(_) => {
            e["out"] = json!("panic");
            emit(out, &e);
            return;
        }
    };
    emit(out, &e);
    for _ in 0..len {
        let mut e = ev(run, "hash_set");
        let n = if rng.random_range(0..3) == 0 { rng.random_range(0..l) } else { rng.random_range(l..l + 6) };
        let data: Vec<u64> = (0..n).map(|_| rng.random_range(1..5u64)).collect();
        e["n"] = json!(n);
        e["flag"] = json!(n >= l);
        match catch(|| s.hash_set(&data)) {
            Ok(sig) => e["len"] = json!(sig.len()),
            Err(_) => e["out"] = json!("panic"),
        }
        emit(out, &e);
    }
}

fn fy_history(run: u64, m: usize, len: usize, rng: &mut R, out: &mut Out) {
    let mut e = ev(run, "new");
    e["k"] = json!("fy");
    e["variant"] = json!("fy");
    e["m"] = json!(m);
    let mut s = match catch(|| FYshuffle::new(m)) {
        Ok(s) => s,
        Err(_) => {
            e["out"] = json!("panic");
            emit(out, &e);
            return;
        }
    };
    emit(out, &e);
    for _ in 0..len {
        let mut e;
        match rng.random_range(0..10) {
            0..=5 => {
                e = ev(run, "next");
                match catch(|| s.next(rng)) {
                    Ok(v) => e["val"] = json!(v),
                    Err(_) => e["out"] = json!("panic"),
                }
            }
            6 | 7 => {
                e = ev(run, "values");
                match catch(|| s.get_values().len()) {
                    Ok(l) => e["len"] = json!(l),
                    Err(_) => e["out"] = json!("panic"),
                }
            }
            _ => {
                e = ev(run, "reinit");
                let r = catch(|| s.reset());
                e["out"] = json!(if r.is_ok() { "ok" } else { "panic" });
            }
        }
        emit(out, &e);
    }
}

/// record out=<ndjson> seed=N runs=R len=L maxm=M : R histories per variant
fn record(a: &Args) {
    silence_panics();
    let seed = a.u64_or("seed", 1);
    let runs = a.u64_or("runs", 50);
    let len = a.usize_or("len", 30);
    let maxm = a.usize_or("maxm", 6);
    let mut rng = rng_from(seed, 4711);
    let mut out = Out::create(&a.str("out"));
    out.line(&json!({"kind": "XAPI"}));
    start_watchdog(a.u64_or("hang_ms", 120000));
    let mut run = 0u64;
    for r in 0..runs {
        // size 1 (and 2) first, then random sizes; ProbMinHash3/3a are also asked for the refused size 1
        let m = if r < 2 { 1 + r as usize } else { rng.random_range(1..=maxm) };
        for v in ["opt_f64", "opt_f32", "rev_f64", "rev_f32"] {
            run += 1;
            dens_history(run, v, m, len, &mut rng, &mut out);
        }
        for v in ["smh_f64", "smh_f32", "smh2_u64"] {
            run += 1;
            smh_history(run, v, m, len, &mut rng, &mut out);
        }
        for v in ["ss_u16", "ss_u32"] {
            run += 1;
            ss_history(run, v, m, len, &mut rng, &mut out);
        }
        for k in ["pmh", "pmh3", "pmha"] {
            run += 1;
            pmh_history(run, k, m, len, &mut rng, &mut out);
        }
        run += 1;
        ord_history(run, m, len / 2, &mut rng, &mut out);
        run += 1;
        fy_history(run, m, len, &mut rng, &mut out);
    }
    out.finish();
}

fn main() {
    let argv: Vec<String> = std::env::args().collect();
    if argv.len() < 2 {
        tool_error("usage: xapi record key=value ...");
    }
    let a = Args::parse(&argv[2..]);
    match argv[1].as_str() {
        "record" => record(&a),
        other => tool_error(&format!("unknown subcommand {}", other)),
    }
}
