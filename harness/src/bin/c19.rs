//! C19: invertible integer hashes.
//!   exh32   all 2^32 words through int32_hash / int32_hash_inverse, both directions
//!   rt64    round trips of int64_hash / int64_hash_inverse on random words, both directions
//!   record  (x, hash(x), inverse(x)) on structured + random words as bit arrays for TLC
//!           (spec/TraceInvHash.tla), plus the round trips on exactly those words
//!   one     one word, everything printed (replay)
//! A panic of the code under test on a word is recorded as a failed round trip of that word.
use pmh_verif::util::*;
use probminhash::invhash::{int32_hash, int32_hash_inverse, int64_hash, int64_hash_inverse};
use rand::RngCore;
use rayon::prelude::*;
use serde_json::{json, Value};

const KEEP: usize = 20;

#[derive(Default)]
struct Acc {
    n: u64,
    nontrivial: u64,
    fail_ih: u64, // inverse(hash(x)) != x
    fail_hi: u64, // hash(inverse(x)) != x
    panics: u64,
    first: Vec<Value>,
    kept_ih: usize, // failures written out by this accumulator (the counts above are always complete)
    kept_hi: usize,
}

impl Acc {
    fn merge(mut self, o: Acc) -> Acc {
        self.n += o.n;
        self.nontrivial += o.nontrivial;
        self.fail_ih += o.fail_ih;
        self.fail_hi += o.fail_hi;
        self.panics += o.panics;
        self.first.extend(o.first);
        if self.first.len() > 4 * KEEP {
            self.trim();
        }
        self
    }
    fn trim(&mut self) {
        // deterministic choice: smallest x first, per direction
        self.first
            .sort_by_key(|v| (v["dir"].as_str().unwrap().to_string(), v["x"].as_str().unwrap().parse::<u64>().unwrap()));
        let mut kept: Vec<Value> = Vec::new();
        for d in ["hash_then_inverse", "inverse_then_hash"] {
            kept.extend(self.first.iter().filter(|v| v["dir"] == d).take(KEEP).cloned());
        }
        self.first = kept;
    }
    fn to_json(mut self) -> Value {
        self.trim();
        json!({"n": self.n, "nontrivial": self.nontrivial, "fail_hash_then_inverse": self.fail_ih,
               "fail_inverse_then_hash": self.fail_hi, "panics": self.panics, "failures": self.first})
    }
}

fn fail(w: u32, dir: &str, x: u64, mid: Option<u64>, back: Option<u64>, panic: Option<String>) -> Value {
    json!({"w": w, "dir": dir, "x": x.to_string(), "x_hex": format!("{:#x}", x),
           "mid": mid.map(|v| format!("{:#x}", v)), "back": back.map(|v| format!("{:#x}", v)), "panic": panic})
}

fn h(w: u32, x: u64) -> u64 {
    if w == 64 {
        int64_hash(x)
    } else {
        int32_hash(x as u32) as u64
    }
}
fn ih(w: u32, x: u64) -> u64 {
    if w == 64 {
        int64_hash_inverse(x)
    } else {
        int32_hash_inverse(x as u32) as u64
    }
}

/// both round trips on one word, slow path (panics are caught per call)
fn check_slow(w: u32, x: u64, acc: &mut Acc) {
    acc.n += 1;
    match catch(|| {
        let a = h(w, x);
        (a, ih(w, a))
    }) {
        Ok((a, b)) => {
            if a != x {
                acc.nontrivial += 1;
            }
            if b != x {
                acc.fail_ih += 1;
                if acc.kept_ih < KEEP {
                    acc.kept_ih += 1;
                    acc.first.push(fail(w, "hash_then_inverse", x, Some(a), Some(b), None));
                }
            }
        }
        Err(m) => {
            acc.fail_ih += 1;
            acc.panics += 1;
            if acc.kept_ih < KEEP {
                acc.kept_ih += 1;
                acc.first.push(fail(w, "hash_then_inverse", x, None, None, Some(m)));
            }
        }
    }
    match catch(|| {
        let a = ih(w, x);
        (a, h(w, a))
    }) {
        Ok((a, b)) => {
            if b != x {
                acc.fail_hi += 1;
                if acc.kept_hi < KEEP {
                    acc.kept_hi += 1;
                    acc.first.push(fail(w, "inverse_then_hash", x, Some(a), Some(b), None));
                }
            }
        }
        Err(m) => {
            acc.fail_hi += 1;
            acc.panics += 1;
            if acc.kept_hi < KEEP {
                acc.kept_hi += 1;
                acc.first.push(fail(w, "inverse_then_hash", x, None, None, Some(m)));
            }
        }
    }
}

/// exh32 out=<json>
fn exh32(a: &Args) {
    silence_panics();
    let total = (0u32..(1 << 16))
        .into_par_iter()
        .map(|chunk| {
            let lo = (chunk as u64) << 16;
            // fast path: no bookkeeping unless something fails
            let fast = catch(|| {
                let mut nontrivial = 0u64;
                let mut bad = false;
                for i in 0..(1u64 << 16) {
                    let x = (lo + i) as u32;
                    let hx = int32_hash(x);
                    nontrivial += (hx != x) as u64;
                    bad |= int32_hash_inverse(hx) != x;
                    bad |= int32_hash(int32_hash_inverse(x)) != x;
                }
                (nontrivial, bad)
            });
            match fast {
                Ok((nontrivial, false)) => Acc { n: 1 << 16, nontrivial, ..Default::default() },
                _ => {
                    let mut acc = Acc::default();
                    for i in 0..(1u64 << 16) {
                        check_slow(32, lo + i, &mut acc);
                    }
                    acc
                }
            }
        })
        .reduce(Acc::default, Acc::merge);
    write_json(&a.str("out"), &total.to_json());
}

/// rt64 n=N seed=S out=<json>
fn rt64(a: &Args) {
    silence_panics();
    let n = a.u64_or("n", 10_000_000);
    let seed = a.u64_or("seed", 1);
    let per = 1u64 << 16;
    let chunks = n.div_ceil(per);
    let total = (0..chunks)
        .into_par_iter()
        .map(|c| {
            let cnt = per.min(n - c * per);
            let fast = catch(|| {
                let mut rng = rng_from(seed, 1_900_000 + c);
                let mut nontrivial = 0u64;
                let mut bad = false;
                for _ in 0..cnt {
                    let x = rng.next_u64();
                    let hx = int64_hash(x);
                    nontrivial += (hx != x) as u64;
                    bad |= int64_hash_inverse(hx) != x;
                    bad |= int64_hash(int64_hash_inverse(x)) != x;
                }
                (nontrivial, bad)
            });
            match fast {
                Ok((nontrivial, false)) => Acc { n: cnt, nontrivial, ..Default::default() },
                _ => {
                    let mut rng = rng_from(seed, 1_900_000 + c);
                    let mut acc = Acc::default();
                    for _ in 0..cnt {
                        check_slow(64, rng.next_u64(), &mut acc);
                    }
                    acc
                }
            }
        })
        .reduce(Acc::default, Acc::merge);
    write_json(&a.str("out"), &total.to_json());
}

/// structured words, most important first; `w` low bits are used
fn structured(w: u32) -> Vec<u64> {
    let mask: u64 = if w == 64 { !0 } else { (1u64 << w) - 1 };
    let mut v: Vec<u64> = vec![0, mask, 1, 2, 3];
    for k in 0..w {
        v.push(1u64 << k); // single bits
    }
    for k in 0..w {
        v.push(!(1u64 << k) & mask);
    }
    for k in 1..w {
        v.push((1u64 << k) - 1); // 2^k - 1
        v.push((1u64 << k) + 1); // 2^k + 1
    }
    for k in 1..w {
        v.push(!((1u64 << k) - 1) & mask); // 2^W - 2^k
    }
    // carry chains across the shifted adds / subtractions: runs of ones that meet their shifted copy
    let shifts: &[u32] = if w == 64 { &[21, 3, 8, 2, 4, 31] } else { &[15, 3, 11] };
    for &s in shifts {
        let run = (1u64 << s) - 1;
        v.push(run);
        v.push(run << s & mask);
        v.push((run << s | run) & mask);
        v.push(mask >> s);
        v.push(mask << s & mask);
        v.push((mask >> s) + 1 & mask);
        v.push((1u64 << (w - s)) - 1);
        v.push(((1u64 << (w - s)) - 1) ^ 1);
        v.push(mask / ((1u64 << s) + 1)); // (2^s+1) * this = all ones: maximal carry-free / borrow pattern
        v.push(mask / ((1u64 << s) - 1).max(1));
    }
    for p in [1u32, 2, 4, 8, 16, 32] {
        let mut x = 0u64;
        for i in 0..w {
            if (i / p) % 2 == 0 {
                x |= 1u64 << i;
            }
        }
        v.push(x);
        v.push(!x & mask);
    }
    // words whose images under the functions are structured
    let base: Vec<u64> = v.clone();
    for &x in base.iter().take(5 + 2 * w as usize) {
        if let Ok(y) = catch(|| ih(w, x)) {
            v.push(y);
        }
        if let Ok(y) = catch(|| h(w, x)) {
            v.push(y);
        }
    }
    let mut seen = std::collections::HashSet::new();
    v.into_iter().map(|x| x & mask).filter(|x| seen.insert(*x)).collect()
}

/// the forward 64-bit steps, transcribed for INPUT GENERATION only (never for a verdict): step j maps the value after
/// source statement j-1 to the value after statement j
fn fwd64_from(j: usize, mut key: u64) -> u64 {
    let steps: [fn(u64) -> u64; 7] = [
        |k| (!k).wrapping_add(k << 21),
        |k| k ^ k >> 24,
        |k| k.wrapping_add(k << 3).wrapping_add(k << 8),
        |k| k ^ k >> 14,
        |k| k.wrapping_add(k << 2).wrapping_add(k << 4),
        |k| k ^ k >> 28,
        |k| k.wrapping_add(k << 31),
    ];
    for st in steps.iter().skip(j) {
        key = st(key);
    }
    key
}

fn fwd32_from(j: usize, mut key: u32) -> u32 {
    let steps: [fn(u32) -> u32; 6] = [
        |k| k.wrapping_add(!(k << 15)),
        |k| k ^ (k >> 10),
        |k| k.wrapping_add(k << 3),
        |k| k ^ (k >> 6),
        |k| k.wrapping_add(!(k << 11)),
        |k| k ^ (k >> 16),
    ];
    for st in steps.iter().skip(j) {
        key = st(key);
    }
    key
}

/// boundary w=64|32 out=<json> : words whose INTERMEDIATE value at every statement boundary of the pipelines is a
/// structured word (a fast path or tie guarding one inverse block fires on such a value, not on a structured input):
/// for a structured s and a boundary j, y = (forward steps j+1..)(s) is the hash whose inversion passes through s, and
/// x = inverse(y) is the input whose hashing passes through s.  Round trips in both directions on all of them.
fn boundary(a: &Args) {
    silence_panics();
    let w = a.u64_or("w", 64) as u32;
    let nsteps = if w == 64 { 7 } else { 6 };
    let base = structured(w);
    let mut acc = Acc::default();
    let mut seen = std::collections::HashSet::new();
    for j in 0..=nsteps {
        for s in &base {
            let y = if w == 64 { fwd64_from(j, *s) } else { fwd32_from(j, *s as u32) as u64 };
            for v in [Some(y), catch(|| ih(w, y)).ok()].into_iter().flatten() {
                if seen.insert(v) {
                    check_slow(w, v, &mut acc);
                }
            }
        }
    }
    write_json(&a.str("out"), &acc.to_json());
}

/// history w=64|32 n=N seed=S out=<json> : the functions are pure - the result for b must not depend on the call made just
/// before.  Pairs (a, b) that agree in their low half, in their high half, or in all but one bit are evaluated back to
/// back (f(a) then f(b)) and the round trip of b is checked, in both directions.
fn history(a: &Args) {
    silence_panics();
    let w = a.u64_or("w", 64) as u32;
    let n = a.u64_or("n", 1_000_000);
    let seed = a.u64_or("seed", 1);
    let mask: u64 = if w == 64 { !0 } else { (1u64 << w) - 1 };
    let half = w / 2;
    let mut rng = rng_from(seed, 1_950_000);
    let mut acc = Acc::default();
    for i in 0..n {
        let x = rng.next_u64() & mask;
        let k = (rng.next_u64() & ((1u64 << half) - 1)).max(1);
        let b = match i % 3 {
            0 => x ^ (k << half),            // same low half
            1 => x ^ k,                      // same high half
            _ => x ^ (1u64 << (rng.next_u32() % w)), // one bit apart
        } & mask;
        let r = catch(|| {
            let _ = ih(w, x);
            let ib = ih(w, b);
            let back = h(w, ib);
            let _ = h(w, x);
            let hb = h(w, b);
            let back2 = ih(w, hb);
            (ib, back, hb, back2)
        });
        acc.n += 1;
        match r {
            Ok((ib, back, hb, back2)) => {
                if back != b {
                    acc.fail_hi += 1;
                    if acc.kept_hi < KEEP {
                        acc.kept_hi += 1;
                        let mut f = fail(w, "inverse_then_hash", b, Some(ib), Some(back), None);
                        f["called_just_before"] = json!(format!("{:#x}", x));
                        acc.first.push(f);
                    }
                }
                if back2 != b {
                    acc.fail_ih += 1;
                    if acc.kept_ih < KEEP {
                        acc.kept_ih += 1;
                        let mut f = fail(w, "hash_then_inverse", b, Some(hb), Some(back2), None);
                        f["called_just_before"] = json!(format!("{:#x}", x));
                        acc.first.push(f);
                    }
                }
            }
            Err(m) => {
                acc.fail_hi += 1;
                acc.panics += 1;
                if acc.kept_hi < KEEP {
                    acc.kept_hi += 1;
                    acc.first.push(fail(w, "inverse_then_hash", b, None, None, Some(m)));
                }
            }
        }
    }
    // the two widths are separate functions: a call of one width right before a call of the other width on the same
    // numeric word (forward then inverse, inverse then forward) must not change the latter's result
    for i in 0..(n / 4) {
        let x = rng.next_u64();
        let (ow, oword) = if w == 64 { (32u32, x & 0xffff_ffff) } else { (64u32, x) };
        let r = catch(|| {
            // forward hash of the OTHER width, then this width's inverse on the same word
            let hv = h(ow, oword) & mask;
            let inv = ih(w, hv);
            let back = h(w, inv);
            // inverse of the OTHER width, then this width's forward hash and inverse on the same word
            let iv = ih(ow, oword) & mask;
            let fwd = h(w, iv);
            let back2 = ih(w, fwd);
            (hv, inv, back, iv, fwd, back2)
        });
        acc.n += 1;
        match r {
            Ok((hv, inv, back, iv, fwd, back2)) => {
                if back != hv {
                    acc.fail_hi += 1;
                    if acc.kept_hi < KEEP {
                        acc.kept_hi += 1;
                        let mut f = fail(w, "inverse_then_hash", hv, Some(inv), Some(back), None);
                        f["called_just_before"] = json!(format!("other width, hash of {:#x}", oword));
                        acc.first.push(f);
                    }
                }
                if back2 != iv {
                    acc.fail_ih += 1;
                    if acc.kept_ih < KEEP {
                        acc.kept_ih += 1;
                        let mut f = fail(w, "hash_then_inverse", iv, Some(fwd), Some(back2), None);
                        f["called_just_before"] = json!(format!("other width, inverse of {:#x}", oword));
                        acc.first.push(f);
                    }
                }
            }
            Err(m) => {
                acc.fail_hi += 1;
                acc.panics += 1;
                if acc.kept_hi < KEEP {
                    acc.kept_hi += 1;
                    acc.first.push(fail(w, "inverse_then_hash", oword, None, None, Some(m)));
                }
            }
        }
        let _ = i;
    }
    write_json(&a.str("out"), &acc.to_json());
}

fn bits(w: u32, x: u64) -> Vec<u8> {
    (0..w).map(|i| ((x >> i) & 1) as u8).collect()
}

/// record w=64|32 n=N seed=S out=<ndjson> sum=<json>
fn record(a: &Args) {
    silence_panics();
    let w = a.u64_or("w", 64) as u32;
    if w != 32 && w != 64 {
        tool_error("w must be 32 or 64");
    }
    let mask: u64 = if w == 64 { !0 } else { (1u64 << w) - 1 };
    let n = a.usize_or("n", 300);
    let seed = a.u64_or("seed", 1);
    let mut rng = rng_from(seed, 1919 + w as u64);
    let mut xs = structured(w);
    // at least a quarter of the words are random
    let n_struct = xs.len().min(n - n / 4);
    xs.truncate(n_struct);
    let mut seen: std::collections::HashSet<u64> = xs.iter().cloned().collect();
    let mut style = 0u32;
    while xs.len() < n {
        // random: dense, sparse (few ones), co-sparse (few zeros)
        let x = match style % 4 {
            0 | 1 => rng.next_u64(),
            2 => (0..3).fold(0u64, |acc, _| acc | 1u64 << (rng.next_u32() % w)),
            _ => !(0..3).fold(0u64, |acc, _| acc | 1u64 << (rng.next_u32() % w)),
        } & mask;
        style += 1;
        if seen.insert(x) {
            xs.push(x);
        }
    }
    let mut acc = Acc::default();
    let mut lines: Vec<Value> = Vec::new();
    let mut skipped: Vec<Value> = Vec::new();
    for &x in &xs {
        check_slow(w, x, &mut acc);
        match catch(|| (h(w, x), ih(w, x))) {
            Ok((hx, ihx)) => {
                lines.push(json!({"x": bits(w, x), "h": bits(w, hx), "ih": bits(w, ihx),
                                  "hex": [format!("{:#x}", x), format!("{:#x}", hx), format!("{:#x}", ihx)]}));
            }
            Err(m) => skipped.push(json!({"x": format!("{:#x}", x), "panic": m})),
        }
    }
    let mut out = Out::create(&a.str("out"));
    out.line(&json!({"kind": "C19", "w": w, "n": lines.len()}));
    for l in &lines {
        out.line(l);
    }
    out.finish();
    let mut s = acc.to_json();
    s["recorded"] = json!(lines.len());
    s["structured"] = json!(n_struct);
    s["skipped_panics"] = json!(skipped);
    write_json(&a.str("sum"), &s);
}

/// one w=64|32 x=<decimal>
fn one(a: &Args) {
    silence_panics();
    let w = a.u64_or("w", 64) as u32;
    let x = a.u64_or("x", 0);
    let mut acc = Acc::default();
    if let Some(_) = a.get("before") {
        // a failure that was seen when the same function had just been called on another word: the same call sequence
        let p = a.u64_or("before", 0);
        acc.n += 1;
        match catch(|| {
            let _ = ih(w, p);
            let ib = ih(w, x);
            let back = h(w, ib);
            let _ = h(w, p);
            let hb = h(w, x);
            (ib, back, hb, ih(w, hb))
        }) {
            Ok((ib, back, hb, back2)) => {
                if back != x {
                    acc.fail_hi += 1;
                    acc.first.push(fail(w, "inverse_then_hash", x, Some(ib), Some(back), None));
                }
                if back2 != x {
                    acc.fail_ih += 1;
                    acc.first.push(fail(w, "hash_then_inverse", x, Some(hb), Some(back2), None));
                }
            }
            Err(m) => {
                acc.fail_hi += 1;
                acc.panics += 1;
                acc.first.push(fail(w, "inverse_then_hash", x, None, None, Some(m)));
            }
        }
    }
    check_slow(w, x, &mut acc);
    let r = catch(|| (h(w, x), ih(w, x)));
    let (hx, ihx) = match r {
        Ok((p, q)) => (Some(format!("{:#x}", p)), Some(format!("{:#x}", q))),
        Err(_) => (None, None),
    };
    let mut s = acc.to_json();
    s["x_hex"] = json!(format!("{:#x}", x));
    s["hash"] = json!(hx);
    s["inverse"] = json!(ihx);
    println!("{}", s);
}

fn main() {
    let argv: Vec<String> = std::env::args().collect();
    if argv.len() < 2 {
        tool_error("usage: c19 <exh32|rt64|record|one> key=value ...");
    }
    let a = Args::parse(&argv[2..]);
    match argv[1].as_str() {
        "exh32" => exh32(&a),
        "rt64" => rt64(&a),
        "boundary" => boundary(&a),
        "history" => history(&a),
        "record" => record(&a),
        "one" => one(&a),
        other => tool_error(&format!("unknown subcommand {}", other)),
    }
}
