//! Replay of TLC-generated API-call histories (spec/Schedule.tla) on the real sketchers of the
//! "join" family (SuperMinHash, SuperMinHash2, SetSketch, ProbMinHash 2/3/3a/3a-Sha) and recording
//! of what they did as an ndjson trace for validation by TLC (spec/TraceJoin.tla).
//! Serves C02, C04, C05, C13.
use pmh_verif::sketchers::*;
use pmh_verif::util::*;
use rand::Rng;
use serde_json::{json, Value};
use std::collections::{BTreeMap, HashMap};

struct RawEvent {
    v: Value,
    regs: Option<Vec<u128>>, // to be ranked
    hid: Option<Vec<u128>>,
}

fn ss_tuples() -> Vec<(f64, f64, u64)> {
    // (b, a, q): clipping at 0 and q+1 (b=2,q=2), documented regime, overflow of u16 (q=70000, huge a)
    vec![
        (2.0, 1.0, 2),
        (2.0, 20.0, 62),
        (1.2, 20.0, 62),
        (1.001, 20.0, 65534),
        (1.001, 1e31, 70000),
        (1.5, 0.001, 30),
    ]
}

fn weight(style: usize, rng: &mut impl Rng) -> f64 {
    match style {
        0 => 1.0,
        1 => (2.0f64).powi(rng.random_range(-8..8)),
        2 => 10f64.powf(rng.random_range(-3.0..3.0)),
        3 => 10f64.powf(rng.random_range(-200.0..200.0)),
        _ => rng.random_range(1..20) as f64,
    }
}

fn fresh_id(style: usize, n: usize, rng: &mut impl Rng) -> u64 {
    match style {
        // sentinel-like identifiers first (with the identity hashers the stored hash is 0 / u64::MAX / a single bit)
        4 => match n {
            1 => 0,
            2 => u64::MAX,
            3 => 1u64 << 63,
            _ => rng.random::<u64>(),
        },
        // byte-structured identifiers: items come in pairs that differ only by two swapped bytes (an identity hasher
        // that folds or reorders bytes wrongly makes them collide); odd n draws a new word, even n swaps two bytes of
        // the previous one - the caller passes the previous identifier through `prev`
        5 => rng.random::<u64>() | 0x0100_0000_0001_0000,
        0 => rng.random::<u64>(),
        1 => n as u64,                          // small consecutive integers
        2 => u64::MAX - n as u64,
        _ => (rng.random::<u32>() as u64) << 32,
    }
}

/// replay in=<ndjson of SCHED records> out=<trace> kinds=k1,k2 seed=N [stride=K] [ms=1,2,3]
fn replay(a: &Args) {
    silence_panics();
    let scheds = read_ndjson(&a.str("in"));
    let kinds: Vec<String> = a.str("kinds").split(',').map(|s| s.to_string()).collect();
    let seed = a.u64_or("seed", 1);
    let stride = a.usize_or("stride", 1);
    let ms: Vec<usize> = a.str_or("ms", "1,2,3,4,5,8,16").split(',').map(|s| s.parse().unwrap()).collect();
    let mut rng = rng_from(seed, 404);
    let mut out = Out::create(&a.str("out"));
    out.line(&json!({"kind": "join"}));
    let mut run = 0u64;
    let offset = (seed as usize) % stride.max(1);
    for (si, s) in scheds.iter().enumerate() {
        if si % stride != offset {
            continue;
        }
        for kind in &kinds {
            run += 1;
            one_run(run, si, s, kind, &ms, &mut rng, &mut out);
        }
    }
    out.finish();
}

fn one_run(run: u64, si: usize, s: &Value, kind: &str, ms: &[usize], rng: &mut impl Rng, out: &mut Out) {
    let ops = s["ops"].as_array().unwrap();
    let ninst = s["sets"].as_array().unwrap().len();
    // composite kinds: "pmh3+3a" (instances alternate between ProbMinHash3 and 3a, same tables),
    // "<kind>@scale" (odd instances get all weights multiplied by a power of two, same tables),
    // suffix "!tiny" / "!huge": weights near the ends of the f64 range
    let full_kind = kind;
    let (kind, wmode) = match full_kind.split_once('!') {
        Some((k, w)) => (k, w),
        None => (full_kind, ""),
    };
    let (kind, kind2, scaled) = if kind == "pmh3+3a" {
        ("pmh3", Some("pmh3a"), false)
    } else if let Some(k) = kind.strip_suffix("@scale") {
        (k, Some(k), true)
    } else {
        (kind, None, false)
    };
    let is_pmh = kind.starts_with("pmh");
    let mut m = ms[rng.random_range(0..ms.len())];
    if is_pmh && m < 2 {
        m = 2;
    }
    // number of abstract items
    let mut nitems = 0usize;
    for op in ops {
        match op[0].as_str().unwrap() {
            "sk" => nitems = nitems.max(op[2].as_u64().unwrap() as usize),
            "sl" => {
                for x in op[2].as_array().unwrap() {
                    nitems = nitems.max(x.as_u64().unwrap() as usize)
                }
            }
            _ => {}
        }
    }
    let has_merge = ops.iter().any(|o| o[0] == "mg");
    // parameter classes
    let tuples = ss_tuples();
    let t1 = tuples[rng.random_range(0..tuples.len())];
    let mut classes: Vec<Cfg> = Vec::new();
    let mk = |t: (f64, f64, u64)| Cfg {
        kind: kind.to_string(),
        m,
        ss: if kind.starts_with("ss_") { Some(SsParams { b: t.0, m: m as u64, a: t.1, q: t.2 }) } else { None },
    };
    classes.push(mk(t1));
    let mut pc: Vec<usize> = vec![1; ninst];
    let mut wscale = 1.0f64;
    if let Some(k2) = kind2 {
        let mut c2 = mk(t1);
        c2.kind = k2.to_string();
        classes.push(c2);
        for (i, c) in pc.iter_mut().enumerate() {
            *c = 1 + i % 2;
        }
        if scaled {
            wscale = (2.0f64).powi(rng.random_range(-60..=60));
        }
    }
    if kind.starts_with("ss_") && has_merge && ninst > 1 && rng.random_range(0..4) == 0 {
        let mut t2 = t1;
        let mut c2m = m;
        match rng.random_range(0..5) {
            0 => t2.2 += 1,
            1 => t2.1 *= 1.5,
            2 => t2.0 = 1.0 + (t1.0 - 1.0) * 0.5,
            3 => c2m = m + 1,
            _ => c2m = if m > 1 { m - 1 } else { m + 2 },
        }
        let mut c2 = mk(t2);
        c2.m = c2m;
        if let Some(p) = c2.ss.as_mut() {
            p.m = c2m as u64;
        }
        classes.push(c2);
        pc[ninst - 1] = 2;
    }
    // concrete items
    let nohash = kind.contains("_no");
    let narrow = kind.ends_with("_no32"); // 4-byte items
    let idstyle = if nohash && rng.random_range(0..3) != 0 { 4 + rng.random_range(0..2usize) } else { rng.random_range(0..4) };
    let wstyle = rng.random_range(0..5);
    let mut items: Vec<Item> = Vec::new();
    for n in 0..nitems {
        let w = match wmode {
            "tiny" => 10f64.powf(rng.random_range(-307.6..-290.0)),
            "huge" => 10f64.powf(rng.random_range(280.0..300.0)),
            _ => weight(wstyle, rng),
        };
        let mut it = Item { id: fresh_id(idstyle, n + 1, rng), w: if is_pmh { w } else { 1.0 } };
        if idstyle == 5 && n % 2 == 1 {
            // the previous identifier with two of its (distinct) bytes swapped, same weight
            let prev: &Item = &items[n - 1];
            let mut b = prev.id.to_le_bytes();
            let top = if narrow { 4 } else { 8 };
            // adjacent bytes half of the time (the likeliest slip in a byte-assembling hasher), any two otherwise
            let (i, j) = if rng.random_range(0..2) == 0 {
                let i = rng.random_range(0..top - 1);
                (i, i + 1)
            } else {
                (rng.random_range(0..top), rng.random_range(0..top))
            };
            if rng.random_range(0..3) == 0 {
                // ... or a single byte changed (a hasher that drops a byte)
                b[i] ^= rng.random_range(1..=255u8);
            } else {
                b.swap(i, j);
            }
            it.id = u64::from_le_bytes(b);
            it.w = prev.w;
        }
        if narrow {
            it.id &= 0xffff_ffff;
        }
        while it.id == INITOBJ || items.iter().any(|o: &Item| o.id == it.id) {
            it.id = rng.random::<u64>() & if narrow { 0xffff_ffff } else { u64::MAX };
        }
        items.push(it);
    }
    // ProbMinHash: in a quarter of the runs one item IS the object the constructor fills the signature with (a user may
    // well pick an initial object that also occurs in the data); `initx` is its index, 0 if there is none
    let mut initx = 0usize;
    if is_pmh && !items.is_empty() && rng.random_range(0..4) == 0 {
        initx = 1 + rng.random_range(0..items.len());
        items[initx - 1].id = INITOBJ;
    }
    // measured tables: fresh sketcher, one item, read the registers
    let mut tables: Vec<Vec<Vec<u128>>> = Vec::new(); // [class][item][pos]
    let mut stored: HashMap<u64, usize> = HashMap::new();
    let mut has_sig = false;
    let measured = catch(|| {
        let mut tb: Vec<Vec<Vec<u128>>> = Vec::new();
        let mut st: HashMap<u64, usize> = HashMap::new();
        let mut hs = false;
        let mut coll = false;
        for (ci, c) in classes.iter().enumerate() {
            let mut per: Vec<Vec<u128>> = Vec::new();
            for (n, it0) in items.iter().enumerate() {
                let it = &Item { id: it0.id, w: if ci == 1 { it0.w * wscale } else { it0.w } };
                let mut sk = make(c);
                sk.sketch(it);
                per.push(sk.regs());
                if let Some(sg) = sk.sig() {
                    hs = true;
                    // identity under which this item is stored: first non-placeholder entry
                    let ph = if is_pmh { INITOBJ } else { 0 };
                    if is_pmh && it0.id == INITOBJ {
                        // this item is stored under the initial object itself: reported as -2 by sig_of
                    } else if let Some(v) = sg.iter().find(|v| **v != ph) {
                        if st.insert(*v, n + 1).is_some() {
                            coll = true;
                        }
                    } else if !is_pmh {
                        // the item is stored under the very value the sketch is initialised with (hash 0):
                        // its identity is that value
                        if st.insert(ph, n + 1).is_some() {
                            coll = true;
                        }
                    }
                }
            }
            tb.push(per);
        }
        (tb, st, hs, coll)
    });
    match measured {
        Ok((mut tb, st, hs, coll)) => {
            if kind2.is_some() {
                tb[1] = tb[0].clone(); // the property: same signature as class 1, so class 1's tables are the reference
            }
            tables = tb;
            stored = st;
            has_sig = hs;
            if coll && classes.len() == 1 {
                return; // two items stored under the same identity (32-bit hash collision): skip this instantiation
            }
        }
        Err(msg) => {
            out.line(&json!({"op": "new", "run": run, "sched": si, "cfg": classes[0].json(), "m": m, "ninst": ninst, "pc": pc,
                "dir": if is_min(kind) {"min"} else {"max"}, "pub": false, "sig": false, "raw": false, "init": 0, "tables": [[]], "measure_panic": msg}));
            out.line(&json!({"op": "panic", "run": run, "msg": "while measuring single-item tables"}));
            return;
        }
    }
    let mut insts: Vec<Box<dyn Sk>> = pc.iter().map(|c| make(&classes[*c - 1])).collect();
    let citem = |it: &Item, c: usize| -> Item { Item { id: it.id, w: if c == 2 && kind2.is_some() { it.w * wscale } else { it.w } } };
    let public = insts[0].regs_public();
    let raw = kind.starts_with("ss_");
    let mut evs: Vec<RawEvent> = Vec::new();
    let sig_of = |sk: &Box<dyn Sk>| -> Option<Vec<i64>> {
        sk.sig().map(|v| {
            v.iter()
                .map(|h| {
                    if let Some(i) = stored.get(h) {
                        *i as i64
                    } else if is_pmh && *h == INITOBJ && initx > 0 {
                        -2 // the initial object, which is also item `initx` of this run
                    } else if (is_pmh && *h == INITOBJ) || (!is_pmh && *h == 0) {
                        0
                    } else {
                        -1
                    }
                })
                .collect()
        })
    };
    // items held by each instance (for the twin built at the end of the history)
    let mut held: Vec<std::collections::BTreeSet<usize>> = vec![Default::default(); ninst];
    let mut broken = false;
    for op in ops {
        let name = op[0].as_str().unwrap();
        let i = op[1].as_u64().unwrap() as usize;
        let mut ev = json!({"op": name, "run": run, "i": i});
        let res = catch(|| match name {
            "sk" => {
                let x = op[2].as_u64().unwrap() as usize;
                ev["x"] = json!(x);
                insts[i - 1].sketch(&citem(&items[x - 1], pc[i - 1]))
            }
            "sl" => {
                let xs: Vec<usize> = op[2].as_array().unwrap().iter().map(|x| x.as_u64().unwrap() as usize).collect();
                ev["xs"] = json!(xs);
                let ents = insts[i - 1].entries();
                let e = ents[rng.random_range(0..ents.len())];
                ev["entry"] = json!(e);
                let its: Vec<Item> = xs.iter().map(|x| citem(&items[*x - 1], pc[i - 1])).collect();
                insts[i - 1].batch(&its, e)
            }
            "mg" => {
                let j = op[2].as_u64().unwrap() as usize;
                ev["j"] = json!(j);
                let (aa, bb) = if i < j {
                    let (l, r) = insts.split_at_mut(j - 1);
                    (&mut l[i - 1], &r[0])
                } else {
                    let (l, r) = insts.split_at_mut(i - 1);
                    (&mut r[0], &l[j - 1])
                };
                aa.merge(bb.as_ref())
            }
            "re" => insts[i - 1].reinit(),
            _ => tool_error("unknown op in schedule"),
        });
        match res {
            Ok(o) => {
                if o == O_UNSUPPORTED {
                    continue; // the sketcher does not offer this call: not part of its history
                }
                ev["out"] = json!(o);
                match name {
                    "sk" => {
                        held[i - 1].insert(op[2].as_u64().unwrap() as usize);
                    }
                    "sl" => {
                        for x in op[2].as_array().unwrap() {
                            held[i - 1].insert(x.as_u64().unwrap() as usize);
                        }
                    }
                    "mg" if o == O_OK => {
                        let other = held[op[2].as_u64().unwrap() as usize - 1].clone();
                        held[i - 1].extend(other);
                    }
                    "re" => held[i - 1].clear(),
                    _ => {}
                }
                let sk = &insts[i - 1];
                let r = sk.regs();
                if let Some(sg) = sig_of(sk) {
                    ev["sig"] = json!(sg);
                }
                let ex = sk.extras();
                if let Some(o) = ex.as_object() {
                    for (k, v) in o {
                        ev[k] = v.clone();
                    }
                }
                evs.push(RawEvent { v: ev, regs: if public { Some(r.clone()) } else { None }, hid: if public { None } else { Some(r) } });
            }
            Err(msg) => {
                ev["op"] = json!("panic");
                ev["call"] = json!(name);
                ev["msg"] = json!(msg);
                evs.push(RawEvent { v: ev, regs: None, hid: None });
                broken = true;
                break;
            }
        }
    }
    // twins: for every instance a NEW sketcher of its class is fed the same set of items in the opposite order, in one
    // call or item by item - the sketch is a function of the set, stored identities included
    if !broken {
        for i in 1..=ninst {
            if held[i - 1].is_empty() {
                continue;
            }
            let its: Vec<Item> = held[i - 1].iter().rev().map(|x| citem(&items[*x - 1], pc[i - 1])).collect();
            let mut ev = json!({"op": "tw", "run": run, "i": i, "out": "ok"});
            let res = catch(|| {
                let mut t = make(&classes[pc[i - 1] - 1]);
                let ents = t.entries();
                let e = ents[rng.random_range(0..ents.len())];
                let o = t.batch(&its, e);
                (t, o)
            });
            match res {
                Ok((t, o)) if o == O_OK => {
                    let r = t.regs();
                    if let Some(sg) = sig_of(&t) {
                        ev["sig"] = json!(sg);
                    }
                    evs.push(RawEvent { v: ev, regs: if public { Some(r.clone()) } else { None }, hid: if public { None } else { Some(r) } });
                }
                Ok(_) => {}
                Err(msg) => {
                    ev["op"] = json!("panic");
                    ev["call"] = json!("twin");
                    ev["msg"] = json!(msg);
                    evs.push(RawEvent { v: ev, regs: None, hid: None });
                    break;
                }
            }
        }
    }
    // rank abstraction (an order isomorphism over all values of this run)
    let initk = init_key(&classes[0]);
    let mut keys: BTreeMap<u128, i64> = BTreeMap::new();
    keys.insert(initk, 0);
    for c in &tables {
        for t in c {
            for k in t {
                keys.insert(*k, 0);
            }
        }
    }
    for e in &evs {
        for v in [&e.regs, &e.hid].into_iter().flatten() {
            for k in v {
                keys.insert(*k, 0);
            }
        }
    }
    let mut n = 0i64;
    for (_, v) in keys.iter_mut() {
        *v = n;
        n += 1;
    }
    let rk = |k: &u128| -> i64 { if raw { *k as i64 } else { keys[k] } };
    let tb: Vec<Vec<Vec<i64>>> = tables.iter().map(|c| c.iter().map(|t| t.iter().map(&rk).collect()).collect()).collect();
    out.line(&json!({"op": "new", "run": run, "sched": si, "cfg": classes.iter().map(|c| c.json()).collect::<Vec<_>>(), "m": m, "ninst": ninst, "pc": pc,
        "dir": if is_min(kind) {"min"} else {"max"}, "pub": public, "sig": has_sig, "raw": raw, "init": rk(&initk), "tables": tb,
        "ms": pc.iter().map(|c| classes[*c - 1].m).collect::<Vec<usize>>(),
        // signature class per instance: instances of one class that hold the same set must show the same stored identities
        // (composite kinds - ProbMinHash3 with 3a, weights scaled by a power of two - form one class by the property)
        "sc": pc.iter().map(|c| if kind2.is_some() { 1 } else { *c }).collect::<Vec<usize>>(),
        "initx": initx,
        "fullkind": full_kind, "wscale_log2": wscale.log2(), "minw": if items.is_empty() { 1.0 } else { items.iter().map(|i| i.w).fold(f64::INFINITY, f64::min) },
        "items": items.iter().map(|i| json!([i.id.to_string(), i.w])).collect::<Vec<_>>()}));
    for e in evs {
        let mut v = e.v;
        if let Some(r) = &e.regs {
            v["obs"] = json!(r.iter().map(&rk).collect::<Vec<i64>>());
        }
        if let Some(r) = &e.hid {
            v["hid"] = json!(r.iter().map(&rk).collect::<Vec<i64>>());
        }
        out.line(&v);
    }
}

/// random out=<trace> kinds=.. seed=N runs=R len=L nitems=K ms=.. merge=0|1 reinit=0|1
/// long random histories generated by the harness (direction implementation -> specification)
fn random(a: &Args) {
    silence_panics();
    let kinds: Vec<String> = a.str("kinds").split(',').map(|s| s.to_string()).collect();
    let seed = a.u64_or("seed", 1);
    let runs = a.usize_or("runs", 10);
    let len = a.usize_or("len", 50);
    let nitems = a.usize_or("nitems", 40);
    let merge = a.u64_or("merge", 0) == 1;
    let reinit = a.u64_or("reinit", 0) == 1;
    let ms: Vec<usize> = a.str_or("ms", "1,2,3,4,8").split(',').map(|s| s.parse().unwrap()).collect();
    let mut rng = rng_from(seed, 505);
    let mut out = Out::create(&a.str("out"));
    out.line(&json!({"kind": "join"}));
    let mut run = 0u64;
    for r in 0..runs {
        let ninst = if merge { rng.random_range(2..=3) } else { 1 };
        let mut ops: Vec<Value> = Vec::new();
        let mut used = 0usize;
        let ni = if r % 3 == 0 { nitems.min(6) } else { nitems };
        let mut pick = |rng: &mut rand_xoshiro::Xoshiro256PlusPlus, used: &mut usize| -> usize {
            // new item with probability 0.6 while some are left, else a repeat
            if *used < ni && (*used == 0 || rng.random_bool(0.6)) {
                *used += 1;
                *used
            } else {
                rng.random_range(1..=*used)
            }
        };
        for _ in 0..len {
            let i = rng.random_range(1..=ninst);
            let c = rng.random_range(0..100);
            if c < 60 {
                let x = pick(&mut rng, &mut used);
                ops.push(json!(["sk", i, x]));
            } else if c < 85 {
                let n = rng.random_range(1..=8);
                let xs: Vec<usize> = (0..n).map(|_| pick(&mut rng, &mut used)).collect();
                ops.push(json!(["sl", i, xs]));
            } else if c < 95 && merge {
                let mut j = rng.random_range(1..=ninst);
                if j == i {
                    j = if i == ninst { 1 } else { i + 1 };
                }
                ops.push(json!(["mg", i, j]));
            } else if c >= 97 && reinit {
                ops.push(json!(["re", i]));
            }
        }
        let s = json!({"ops": ops, "sets": vec![0; ninst]});
        for kind in &kinds {
            run += 1;
            one_run(run, r, &s, kind, &ms, &mut rng, &mut out);
        }
    }
    out.finish();
}

/// big out=<json> seed=N thorough=0|1 : realistic sizes (m up to 4096, streams up to 1e5 / 1e6 items, with repeats,
/// chunking and - for SetSketch - a merge of two halves); the Layer-A function (join of measured single-item tables)
/// is evaluated harness-side because the traces are too large for TLC.  Same verdict level as the traces: public sketch.
fn big(a: &Args) {
    silence_panics();
    let seed = a.u64_or("seed", 1);
    let thorough = a.u64_or("thorough", 0) == 1;
    let mut plan: Vec<(&str, usize, usize)> = vec![
        ("ss_u16", 4096, 60000), ("ss_u32", 1024, 20000), ("ss_u16", 256, 100000), ("smh_f64_fnv", 1024, 5000), ("smh_f32_fnv", 4096, 50),
        ("smh2_u64_fnv", 1024, 5000), ("smh2_u32_xx", 256, 3000), ("pmh3", 1024, 3000), ("pmh2", 512, 2000), ("pmh3a", 1024, 3000),
        ("ss_u32", 4096, 7), ("smh_f64_no", 2048, 3), ("ss_def_u16", 4096, 9000), ("ss_def_u32", 4096, 40),
        // sketches far larger than the stream: singletons and sets dominated by one heavy entry
        ("pmh3", 10000, 1), ("pmh3", 20000, 5), ("pmh3a", 10000, 1), ("pmh3a", 30000, 4), ("pmh2", 10000, 2), ("pmh3asha", 8192, 1),
        ("smh2_u64_fnv", 20000, 2), ("smh_f64_fnv", 30000, 1), ("ss_u32", 30000, 2),
        // very large sketches (beyond 2^16 positions)
        ("pmh3", 100000, 5), ("pmh3a", 70001, 3), ("pmh3", 60000, 6), ("pmh3a", 100003, 6), ("smh_f64_fnv", 70000, 2), ("smh2_u64_fnv", 66000, 3), ("ss_u16", 70000, 2),
        // single precision at sizes where r + j is rounded in (almost) every item
        ("smh_f32_fnv", 30000, 4), ("smh_f32_no", 70001, 6), ("smh_f32_fnv", 100003, 12), ("smh_f32_fnv", 20000, 200),
    ];
    if thorough {
        plan.push(("ss_u16", 4096, 1000000));
        plan.push(("ss_u32", 4096, 300000));
        plan.push(("smh_f64_fnv", 4096, 100000));
        plan.push(("smh2_u64_fnv", 4096, 100000));
        plan.push(("pmh3", 4096, 50000));
        plan.push(("pmh3asha", 1024, 20000));
    }
    use rayon::prelude::*;
    let cases: Vec<Value> = plan
        .par_iter()
        .enumerate()
        .map(|(ci, (kind, m, n))| {
            let mut rng = rng_from(seed, 606 + ci as u64);
            let is_pmh = kind.starts_with("pmh");
            // sketchers built through `Default` have the size the crate gives them (4096 as documented today)
            let m_real: usize = if kind.starts_with("ss_def") {
                catch(|| make(&Cfg { kind: kind.to_string(), m: *m, ss: None }).regs().len()).unwrap_or(*m)
            } else {
                *m
            };
            let m = &m_real;
            let cfg = Cfg {
                kind: kind.to_string(),
                m: *m,
                ss: if kind.starts_with("ss_") { Some(SsParams { b: 1.001, m: *m as u64, a: 20.0, q: if *kind == "ss_u16" { 65534 } else { 100000 } }) } else { None },
            };
            // n = 6: comparable weights (every entry holds a share of a very large signature); otherwise one heavy entry
            let dominated = is_pmh && *n <= 8 && *n != 6 && *m >= 8000;
            let comparable = is_pmh && *n == 6;
            let items: Vec<Item> = (0..*n)
                .map(|k| Item { id: rng.random::<u64>() >> 1, w: if dominated { if k == 0 { 1e9 } else { 1.0 + k as f64 * 0.25 } } else if comparable { 1.0 + k as f64 } else if is_pmh { weight(2, &mut rng) } else { 1.0 } })
                .collect();
            let res = catch(|| {
                // expected: join of single-item tables
                let min = is_min(kind);
                let mut exp: Vec<u128> = vec![init_key(&cfg); *m];
                let mut who: Vec<u64> = vec![0; *m];
                for it in &items {
                    let mut one = make(&cfg);
                    one.sketch(it);
                    let r = one.regs();
                    let sg = one.sig();
                    for p in 0..*m {
                        let better = if min { r[p] < exp[p] } else { r[p] > exp[p] };
                        if better {
                            exp[p] = r[p];
                            if let Some(s) = &sg {
                                who[p] = s[p];
                            }
                        }
                    }
                }
                // actual: repeats, chunking, and a merge of two halves where the sketcher has one
                let mut sk = make(&cfg);
                let mut other = make(&cfg);
                let half = items.len() / 2;
                let mut i = 0;
                while i < items.len() {
                    let len = (1 + rng.random_range(0..50)).min(items.len() - i);
                    let chunk = &items[i..i + len];
                    let target: &mut Box<dyn Sk> = if kind.starts_with("ss_") && i >= half { &mut other } else { &mut sk };
                    let ents = target.entries();
                    target.batch(chunk, ents[rng.random_range(0..ents.len())]);
                    if rng.random_range(0..4) == 0 {
                        target.batch(&chunk[..1], ents[0]); // a repeat
                    }
                    i += len;
                }
                if kind.starts_with("ss_") {
                    sk.merge(other.as_ref());
                }
                let got = sk.regs();
                let gsig = sk.sig();
                let mut bad = 0usize;
                let mut first: Option<usize> = None;
                // identities under which the streamed items are stored: a position of a non-empty set must hold one of them
                let mut idents: std::collections::HashSet<u64> = std::collections::HashSet::new();
                if gsig.is_some() {
                    for it in &items {
                        if is_pmh {
                            idents.insert(it.id);
                        } else {
                            let mut one = make(&Cfg { kind: cfg.kind.clone(), m: 1, ss: None });
                            one.sketch(it);
                            idents.insert(one.sig().unwrap()[0]);
                        }
                    }
                }
                // ProbMinHash3 and 3a must give the same signature for the same set
                let twin: Option<Vec<u64>> = if *kind == "pmh3" || *kind == "pmh3a" {
                    let mut t = make(&Cfg { kind: if *kind == "pmh3" { "pmh3a".to_string() } else { "pmh3".to_string() }, m: *m, ss: None });
                    let ents = t.entries();
                    let mut rev: Vec<Item> = items.clone();
                    rev.reverse();
                    t.batch(&rev, ents[ents.len() - 1]);
                    t.sig()
                } else {
                    None
                };
                for p in 0..*m {
                    let mut ok = if sk.regs_public() { got[p] == exp[p] } else { gsig.as_ref().map(|g| g[p] == who[p]).unwrap_or(true) };
                    // a SuperMinHash item reaches every position, so no position of a non-empty set keeps the initial value
                    if kind.starts_with("smh_") && got[p] == init_key(&cfg) {
                        ok = false;
                    }
                    if let Some(g) = &gsig {
                        if !idents.contains(&g[p]) {
                            ok = false; // placeholder or foreign identity
                        }
                        if let Some(t) = &twin {
                            if t[p] != g[p] {
                                ok = false;
                            }
                        }
                    }
                    if !ok {
                        bad += 1;
                        if first.is_none() {
                            first = Some(p);
                        }
                    }
                }
                (bad, first)
            });
            match res {
                Ok((bad, first)) => json!({"kind": kind, "m": m, "n": n, "bad_positions": bad, "first": first, "panic": Value::Null}),
                Err(msg) => json!({"kind": kind, "m": m, "n": n, "bad_positions": 0, "first": Value::Null, "panic": msg}),
            }
        })
        .collect();
    write_json(&a.str("out"), &json!({"cases": cases}));
}

/// tinyprobe out=<json> : the clause "every position of a non-empty set's signature holds an item of that set" on fixed
/// one-entry sets with weights at the low end of the f64 range (a fixed input, so that a defect there is reported the same
/// way in every run)
fn tinyprobe(a: &Args) {
    silence_panics();
    let mut cases: Vec<Value> = Vec::new();
    for kind in KINDS_PMH {
        for (m, w) in [(16usize, 9.27380003068656e-308f64), (16, 3.0e-306), (64, 1.0e-305), (16, 1.0e-300), (16, 1.0e-200)] {
            let cfg = Cfg { kind: kind.to_string(), m, ss: None };
            let it = Item { id: 12345, w };
            let r = catch(|| {
                let mut sk = make(&cfg);
                let ents = sk.entries();
                sk.batch(&[it], ents[0]);
                sk.sig().unwrap_or_default()
            });
            match r {
                Ok(sig) => {
                    let left = sig.iter().filter(|v| **v == INITOBJ).count();
                    let foreign = sig.iter().filter(|v| **v != INITOBJ && **v != it.id).count();
                    cases.push(json!({"kind": kind, "m": m, "weight": format!("{:e}", w), "tiny": w < 1e-304, "placeholder_positions": left, "foreign_positions": foreign}));
                }
                Err(msg) => cases.push(json!({"kind": kind, "m": m, "weight": format!("{:e}", w), "tiny": w < 1e-304, "panic": msg})),
            }
        }
    }
    write_json(&a.str("out"), &json!({"cases": cases}));
}

fn main() {
    let argv: Vec<String> = std::env::args().collect();
    if argv.len() < 2 {
        tool_error("usage: sk <replay> key=value ...");
    }
    let a = Args::parse(&argv[2..]);
    match argv[1].as_str() {
        "replay" => replay(&a),
        "random" => random(&a),
        "big" => big(&a),
        "tinyprobe" => tinyprobe(&a),
        other => tool_error(&format!("unknown subcommand {}", other)),
    }
}
