//! C20: SetSketchParams::dump_json / reload_json.
//! (a) `record`: for many parameter tuples, the real dump, the real reload, then EVERY prefix of the
//!     written file as a crash point (plus missing file / missing directory / re-dump over an existing
//!     file), recorded as an ndjson trace for TraceParamsFile.tla;
//! (b) `replay`: every transition exported by TLC from ParamsFile.tla (whole dumps from every file
//!     content, refused dumps, reloads from every file content) replayed on the real code.
use pmh_verif::util::*;
use probminhash::setsketcher::SetSketchParams;
use rand::Rng;
use serde_json::{json, Value};
use std::collections::{BTreeMap, HashSet};
use std::fs;
use std::path::{Path, PathBuf};

const FNAME: &str = "parameters.json";
const CLAMP: u64 = 1000;

#[derive(Clone, Copy, Debug)]
struct Tup {
    b: f64,
    m: u64,
    a: f64,
    q: u64,
}

impl Tup {
    fn key(&self) -> (u64, u64, u64, u64) {
        (self.b.to_bits(), self.m, self.a.to_bits(), self.q)
    }
    fn finite(&self) -> bool {
        self.a.is_finite() && self.b.is_finite()
    }
    fn params(&self) -> SetSketchParams {
        SetSketchParams::new(self.b, self.m, self.a, self.q)
    }
    /// strings only: TLC has 32-bit integers
    fn to_json(&self) -> Value {
        json!({"b": format!("{:e}", self.b), "b_bits": format!("{:016x}", self.b.to_bits()), "m": self.m.to_string(),
               "a": format!("{:e}", self.a), "a_bits": format!("{:016x}", self.a.to_bits()), "q": self.q.to_string()})
    }
    fn from_json(v: &Value) -> Tup {
        let bits = |k: &str| u64::from_str_radix(v[k].as_str().unwrap_or_else(|| tool_error("tuple: bits")), 16)
            .unwrap_or_else(|_| tool_error("tuple: bad hex"));
        let int = |k: &str| v[k].as_str().unwrap_or_else(|| tool_error("tuple: int")).parse::<u64>()
            .unwrap_or_else(|_| tool_error("tuple: bad int"));
        Tup { b: f64::from_bits(bits("b_bits")), m: int("m"), a: f64::from_bits(bits("a_bits")), q: int("q") }
    }
}

/// number of significant decimal digits of the shortest decimal string that parses back to x
/// (Rust's `{:e}` prints the shortest round-trip digits; independent of serde_json / ryu)
fn sig_digits(x: f64) -> usize {
    let s = format!("{:e}", x.abs());
    let mant = s.split('e').next().unwrap();
    let digits: String = mant.chars().filter(|c| c.is_ascii_digit()).collect();
    let t = digits.trim_start_matches('0').trim_end_matches('0');
    t.len().max(1)
}

fn class_of(x: f64) -> &'static str {
    if sig_digits(x) <= 15 { "short" } else { "long" }
}

fn okey(x: f64) -> u64 {
    let b = x.to_bits();
    if b >> 63 == 0 { b | (1 << 63) } else { !b }
}

/// distance in units in the last place, clamped; bit-identical values are at distance 0
fn ulp(x: f64, y: f64) -> u64 {
    if x.to_bits() == y.to_bits() {
        return 0;
    }
    if x.is_nan() || y.is_nan() {
        return CLAMP;
    }
    let d = okey(x).abs_diff(okey(y));
    d.clamp(1, CLAMP)
}

fn idist(x: u64, y: u64) -> u64 {
    x.abs_diff(y).min(CLAMP)
}

// ------------------------------------------------------------------------------------------------
// observation of the two calls

#[derive(Clone, Debug)]
enum Reloaded {
    Ok(Tup),
    Err(String),
    Panic(String),
}

fn do_reload(dir: &Path) -> Reloaded {
    match catch(|| SetSketchParams::reload_json(dir)) {
        Ok(Ok(p)) => Reloaded::Ok(Tup { b: p.get_b(), m: p.get_m(), a: p.get_a(), q: p.get_q() }),
        Ok(Err(e)) => Reloaded::Err(e),
        Err(msg) => Reloaded::Panic(msg),
    }
}

/// "ok" | "err" | "panic"
fn do_dump(t: &Tup, dir: &Path) -> &'static str {
    let p = t.params();
    match catch(|| p.dump_json(dir)) {
        Ok(Ok(())) => "ok",
        Ok(Err(_)) => "err",
        Err(_) => "panic",
    }
}

fn file_size(dir: &Path) -> i64 {
    match fs::metadata(dir.join(FNAME)) {
        Ok(m) => m.len() as i64,
        Err(_) => -1,
    }
}

fn fresh_dir(p: &Path) {
    let _ = fs::remove_dir_all(p);
    fs::create_dir_all(p).unwrap_or_else(|e| tool_error(&format!("cannot create {:?}: {}", p, e)));
}

/// an existing directory without parameters.json (unlinking is much cheaper than re-creating the directory)
fn empty_dir(p: &Path) {
    if p.is_dir() {
        let _ = fs::remove_file(p.join(FNAME));
        if fs::read_dir(p).map(|mut d| d.next().is_none()).unwrap_or(false) {
            return;
        }
    }
    fresh_dir(p);
}

fn put_file(dir: &Path, bytes: &[u8]) {
    // the same sequence a dump performs: open with truncation, then write
    fs::write(dir.join(FNAME), bytes).unwrap_or_else(|e| tool_error(&format!("cannot write in {:?}: {}", dir, e)));
}

/// the text dump_json writes for t, measured by a real dump into a fresh directory
fn reference_text(t: &Tup, scratch: &Path) -> Result<Vec<u8>, String> {
    empty_dir(scratch);
    let r = do_dump(t, scratch);
    if r != "ok" {
        Err(format!("dump into an empty directory returned {}", r))
    } else {
        fs::read(scratch.join(FNAME)).map_err(|e| format!("dump returned ok but the file cannot be read: {}", e))
    }
}

fn reload_event(run: usize, r: &Reloaded, pid: i64, expect: Option<&Tup>, k: i64, n: i64) -> Value {
    let mut ev = json!({"op": "reload", "run": run, "pid": -1, "dm": 0, "dq": 0, "da": 0, "db": 0, "k": k, "n": n});
    match r {
        Reloaded::Ok(g) => {
            ev["outcome"] = json!("ok");
            ev["pid"] = json!(pid);
            ev["got"] = g.to_json();
            match expect {
                Some(e) => {
                    ev["dm"] = json!(idist(g.m, e.m));
                    ev["dq"] = json!(idist(g.q, e.q));
                    ev["da"] = json!(ulp(g.a, e.a));
                    ev["db"] = json!(ulp(g.b, e.b));
                }
                None => {
                    // Ok although no tuple is in the file: rejected whatever the distances
                    ev["dm"] = json!(CLAMP);
                }
            }
        }
        Reloaded::Err(_) => {
            ev["outcome"] = json!("err");
        }
        Reloaded::Panic(msg) => {
            ev["outcome"] = json!("panic");
            let mut m = msg.clone();
            m.truncate(120);
            ev["msg"] = json!(m);
        }
    }
    ev
}

// ------------------------------------------------------------------------------------------------
// parameter tuples

fn special_floats() -> Vec<f64> {
    vec![
        1.001, 20.0, 1.5, 2.0, 0.25, 0.1, 0.1 + 0.2, 1.0 / 3.0, 2.0 / 3.0, 1.0 + f64::EPSILON, 2.0 - f64::EPSILON,
        1e300, 1e-300, 1e300 / 3.0, 1e-300 / 3.0, f64::MAX, f64::MIN_POSITIVE, 5e-324, f64::from_bits(0x000f_ffff_ffff_ffff),
        f64::from_bits(0x0000_0000_0012_3456), 2.2250738585072011e-308, 0.0, -0.0, -1.5, -1.0 / 3.0, 1e15, 1e16, 1e21, 1e22, 1e23,
        123456789012345.0, 1234567890123456.0, 1.23456789012345, 1.234567890123456, 9007199254740993.0,
        std::f64::consts::PI, std::f64::consts::E, 1.0000000000000002, 0.30000000000000004, 4.35, 0.7 + 0.1, 1e-7, 123456.789e3,
    ]
}

fn special_ints() -> Vec<u64> {
    vec![0, 1, 9, 10, 4096, 65534, 65535, 65536, (1 << 31) - 1, 1 << 31, (1u64 << 32) - 1, 1 << 32, (1u64 << 53) - 1, 1u64 << 53,
         (1u64 << 53) + 1, (1u64 << 63) - 1, 1u64 << 63, (1u64 << 63) + 1, 9999999999999999999, 10000000000000000000,
         u64::MAX - 1, u64::MAX]
}

fn random_float(rng: &mut impl Rng) -> f64 {
    match rng.random_range(0..8) {
        0 => special_floats()[rng.random_range(0..special_floats().len())],
        1 => {
            // decimal literal with d significant digits
            let d = rng.random_range(1..=17);
            let mut s = String::new();
            s.push(char::from(b'1' + rng.random_range(0..9u8)));
            s.push('.');
            for _ in 1..d {
                s.push(char::from(b'0' + rng.random_range(0..10u8)));
            }
            let e: i32 = if rng.random_bool(0.5) { 0 } else { rng.random_range(-320..=308) };
            let x: f64 = format!("{}e{}", s, e).parse().unwrap();
            if x.is_finite() { x } else { 1.5 }
        }
        2 => f64::from_bits(rng.random::<u64>() & 0x000f_ffff_ffff_ffff), // denormal
        3 => 1.0 + rng.random::<f64>(),                                     // b-like, in [1,2)
        4 => (rng.random_range(1..100000u64) as f64) / 1000.0,              // short decimals
        5 => {
            let x = f64::from_bits(rng.random::<u64>());
            if x.is_finite() { x } else { 20.0 }
        }
        6 => rng.random::<f64>() * 10f64.powi(rng.random_range(-300..300)),
        _ => (rng.random_range(1..1u64 << 53) as f64) * 2f64.powi(rng.random_range(-60..10)),
    }
}

fn random_int(rng: &mut impl Rng) -> u64 {
    match rng.random_range(0..4) {
        0 => special_ints()[rng.random_range(0..special_ints().len())],
        1 => rng.random::<u64>() >> rng.random_range(0..64),
        2 => rng.random::<u64>(),
        _ => 10u64.pow(rng.random_range(0..20)).wrapping_sub(rng.random_range(0..2)),
    }
}

fn tuple_list(seed: u64, nrandom: usize) -> Vec<Tup> {
    let mut rng = rng_from(seed, 20);
    let mut v: Vec<Tup> = Vec::new();
    let d = SetSketchParams::default();
    v.push(Tup { b: d.get_b(), m: d.get_m(), a: d.get_a(), q: d.get_q() });
    let fl = special_floats();
    let il = special_ints();
    // every special value at every position at least once
    for i in 0..fl.len().max(il.len()) {
        v.push(Tup { b: fl[i % fl.len()], m: il[i % il.len()], a: fl[(i * 7 + 3) % fl.len()], q: il[(i * 5 + 11) % il.len()] });
    }
    for _ in 0..nrandom {
        v.push(Tup { b: random_float(&mut rng), m: random_int(&mut rng), a: random_float(&mut rng), q: random_int(&mut rng) });
    }
    let mut seen = HashSet::new();
    v.retain(|t| seen.insert(t.key()));
    v
}

// ------------------------------------------------------------------------------------------------
/// record out=<ndjson> sum=<json> seed=N n=<random tuples> wd=<scratch dir> [tuples=<json list>]
fn record(a: &Args) {
    silence_panics();
    let seed = a.u64_or("seed", 1);
    let wd = PathBuf::from(a.str("wd"));
    let tuples: Vec<Tup> = match a.get("tuples") {
        Some(f) => read_json(f).as_array().unwrap_or_else(|| tool_error("tuples: list expected")).iter().map(Tup::from_json).collect(),
        None => tuple_list(seed, a.usize_or("n", 50)),
    };
    let mut rng = rng_from(seed, 2020);
    let mut out = Out::create(&a.str("out"));
    out.line(&json!({"kind": "C20", "seed": seed.to_string()}));
    fresh_dir(&wd);
    let scratch = wd.join("ref");
    let main = wd.join("main");
    let cp = wd.join("cp");

    // reference texts first (partners are chosen by length)
    let texts: Vec<Result<Vec<u8>, String>> = tuples.iter().map(|t| reference_text(t, &scratch)).collect();
    let mut hist: BTreeMap<String, u64> = BTreeMap::new();
    let mut count = |file: &str, outcome: &str| *hist.entry(format!("{}:{}", file, outcome)).or_insert(0) += 1;
    let oc = |r: &Reloaded| match r { Reloaded::Ok(_) => "ok", Reloaded::Err(_) => "err", Reloaded::Panic(_) => "panic" };
    let mut reloads = 0u64;
    let mut dumps = tuples.len() as u64;
    let mut inside_points = 0u64;
    let mut crash_points = 0u64;
    let mut distinct_texts: HashSet<Vec<u8>> = HashSet::new();
    let mut max_ulp = 0u64;
    let mut long_tuples = 0u64;
    let mut redump_shrinks = 0u64;
    let mut samples: Vec<Value> = Vec::new();

    for (i, t) in tuples.iter().enumerate() {
        let run = i;
        out.line(&json!({"op": "new", "run": run, "dir": true, "t": t.to_json()}));
        empty_dir(&main);
        let (ca, cb) = (class_of(t.a), class_of(t.b));
        // missing file in an existing directory
        let r = do_reload(&main);
        reloads += 1;
        count("missing", oc(&r));
        out.line(&reload_event(run, &r, -1, None, -1, -1));
        let text = match &texts[i] {
            Ok(x) => x.clone(),
            Err(msg) => {
                // the dump itself failed: logged as a dump event the specification rejects
                out.line(&json!({"op": "param", "run": run, "pid": 1, "n": 1, "ca": ca, "cb": cb}));
                out.line(&json!({"op": "dump", "run": run, "pid": 1, "res": "panic", "size": -1, "msg": msg}));
                continue;
            }
        };
        let n = text.len();
        let new_text = distinct_texts.insert(text.clone());
        if ca == "long" || cb == "long" {
            long_tuples += 1;
        }
        out.line(&json!({"op": "param", "run": run, "pid": 1, "n": n, "ca": ca, "cb": cb,
                         "text": String::from_utf8_lossy(&text)}));
        // the real dump, the real reload
        let res = do_dump(t, &main);
        dumps += 1;
        out.line(&json!({"op": "dump", "run": run, "pid": 1, "res": res, "size": file_size(&main),
                         "same_text": fs::read(main.join(FNAME)).map(|x| x == text).unwrap_or(false)}));
        let r = do_reload(&main);
        reloads += 1;
        count("complete", oc(&r));
        let ev = reload_event(run, &r, 1, Some(t), n as i64, n as i64);
        max_ulp = max_ulp.max(ev["da"].as_u64().unwrap_or(0)).max(ev["db"].as_u64().unwrap_or(0));
        if samples.len() < 3 && i % 7 == 1 {
            samples.push(json!({"tuple": t.to_json(), "text": String::from_utf8_lossy(&text), "classes": [cb, ca], "reload_after_dump": ev}));
        }
        out.line(&ev);
        // every prefix of the written file is a crash point, each a new file in an otherwise empty directory
        for k in 0..=n {
            empty_dir(&cp); // a new file every time: nothing of the previous crash point can be read
            put_file(&cp, &text[..k]);
            out.line(&json!({"op": "crash", "run": run, "pid": 1, "k": k}));
            let r = do_reload(&cp);
            reloads += 1;
            let fc = if k == n { "complete" } else if k == 0 { "empty" } else { "torn" };
            count(fc, oc(&r));
            if k < n {
                crash_points += 1;
                if k > 0 && new_text {
                    inside_points += 1;
                }
            }
            let ev = reload_event(run, &r, 1, Some(t), k as i64, n as i64);
            if samples.len() < 6 && i % 7 == 1 && (k == 0 || k == n / 2 || k == n - 1) {
                samples.push(json!({"tuple": t.to_json(), "crash_at_byte": k, "of": n,
                                    "file": String::from_utf8_lossy(&text[..k]), "reload": ev}));
            }
            out.line(&ev);
        }
        let _ = fs::remove_dir_all(&cp);
        // recovery: a torn file in the main directory, then a complete dump over it
        let k0 = rng.random_range(0..n);
        put_file(&main, &text[..k0]);
        out.line(&json!({"op": "crash", "run": run, "pid": 1, "k": k0}));
        let res = do_dump(t, &main);
        dumps += 1;
        out.line(&json!({"op": "dump", "run": run, "pid": 1, "res": res, "size": file_size(&main)}));
        let r = do_reload(&main);
        reloads += 1;
        count("complete", oc(&r));
        out.line(&reload_event(run, &r, 1, Some(t), n as i64, n as i64));
        // re-dump over an existing file of another length: 1 -> 2 -> 1, one of the two steps shrinks the text
        let partner = (1..tuples.len()).map(|d| (i + d) % tuples.len())
            .find(|&j| matches!(&texts[j], Ok(x) if x.len() != n));
        if let Some(j) = partner {
            let t2 = &tuples[j];
            let n2 = texts[j].as_ref().unwrap().len();
            out.line(&json!({"op": "param", "run": run, "pid": 2, "n": n2, "ca": class_of(t2.a), "cb": class_of(t2.b), "t": t2.to_json()}));
            for (pid, tt, nn) in [(2i64, t2, n2), (1i64, t, n)] {
                let before = file_size(&main);
                let res = do_dump(tt, &main);
                dumps += 1;
                if before > nn as i64 {
                    redump_shrinks += 1;
                }
                out.line(&json!({"op": "dump", "run": run, "pid": pid, "res": res, "size": file_size(&main), "size_before": before}));
                let r = do_reload(&main);
                reloads += 1;
                count("complete", oc(&r));
                out.line(&reload_event(run, &r, pid, Some(tt), nn as i64, nn as i64));
            }
        }
        // file removed
        let _ = fs::remove_file(main.join(FNAME));
        out.line(&json!({"op": "remove", "run": run}));
        let r = do_reload(&main);
        reloads += 1;
        count("missing", oc(&r));
        out.line(&reload_event(run, &r, -1, None, -1, -1));
        // missing directory
        if i % 8 == 0 {
            let nodir = wd.join("absent").join("deeper");
            out.line(&json!({"op": "new", "run": run, "dir": false, "t": t.to_json()}));
            out.line(&json!({"op": "param", "run": run, "pid": 1, "n": n, "ca": ca, "cb": cb}));
            let res = do_dump(t, &nodir);
            dumps += 1;
            let created = nodir.exists();
            out.line(&json!({"op": "dump", "run": run, "pid": 1, "res": res, "size": if created { 0 } else { -1 }}));
            let r = do_reload(&nodir);
            reloads += 1;
            count("nodir", oc(&r));
            out.line(&reload_event(run, &r, -1, None, -1, -1));
        }
    }
    out.finish();

    // non-finite a, b: serde_json writes `null`; outside the property (NaN equals nothing), outcome recorded only
    let mut nonfinite: Vec<Value> = Vec::new();
    if a.get("tuples").is_none() {
        for (b, aa) in [(f64::NAN, 20.0), (1.001, f64::NAN), (f64::INFINITY, 20.0), (1.001, f64::NEG_INFINITY)] {
            let t = Tup { b, m: 4096, a: aa, q: 65534 };
            debug_assert!(!t.finite());
            fresh_dir(&main);
            let res = do_dump(&t, &main);
            let text = fs::read(main.join(FNAME)).map(|x| String::from_utf8_lossy(&x).to_string()).unwrap_or_default();
            let r = do_reload(&main);
            nonfinite.push(json!({"b": format!("{}", b), "a": format!("{}", aa), "dump": res, "text": text, "reload": oc(&r)}));
        }
    }
    let _ = fs::remove_dir_all(&wd);
    write_json(&a.str("sum"), &json!({
        "tuples": tuples.len(), "distinct_texts": distinct_texts.len(), "dump_calls": dumps, "reload_calls": reloads,
        "crash_points": crash_points, "inside_points_distinct": inside_points, "outcomes": hist, "max_ulp": max_ulp,
        "tuples_with_long_float": long_tuples, "redump_over_longer_file": redump_shrinks, "nonfinite": nonfinite, "samples": samples}));
}

// ------------------------------------------------------------------------------------------------
// replay of TLC transitions

struct Pools {
    short: Vec<f64>,
    long: Vec<f64>,
}

fn pools(rng: &mut impl Rng) -> Pools {
    let mut all = special_floats();
    for _ in 0..200 {
        all.push(random_float(rng));
    }
    all.retain(|x| x.is_finite());
    Pools { short: all.iter().cloned().filter(|x| class_of(*x) == "short").collect(),
            long: all.iter().cloned().filter(|x| class_of(*x) == "long").collect() }
}

fn int_with_digits(d: u32, rng: &mut impl Rng) -> u64 {
    match d {
        1 => rng.random_range(0..10),
        20 => if rng.random_bool(0.3) { u64::MAX } else { rng.random_range(10u64.pow(19)..=u64::MAX) },
        _ => if rng.random_bool(0.2) { 10u64.pow(d) - 1 } else { rng.random_range(10u64.pow(d - 1)..10u64.pow(d)) },
    }
}

/// a concrete tuple of the abstract digit classes; md, qd = number of digits of m and q
fn concretise(p: &Value, pl: &Pools, md: u32, qd: u32, rng: &mut impl Rng) -> Tup {
    let mut pick = |c: &str| {
        let v = if c == "long" { &pl.long } else { &pl.short };
        v[rng.random_range(0..v.len())]
    };
    let (b, a) = (pick(p["fb"].as_str().unwrap()), pick(p["fa"].as_str().unwrap()));
    Tup { b, m: int_with_digits(md, rng), a, q: int_with_digits(qd, rng) }
}

/// byte offset standing for the abstract prefix length k of n
fn offset(k: u64, n: u64, len: usize, rng: &mut impl Rng) -> usize {
    if k == 0 {
        0
    } else if k >= n {
        len
    } else {
        // the j-th of (n-1) segments of 1..len-1
        let inner = len - 1;
        let lo = 1 + (k - 1) as usize * inner / (n - 1) as usize;
        let hi = (1 + k as usize * inner / (n - 1) as usize).min(len).max(lo + 1);
        rng.random_range(lo..hi).min(len - 1)
    }
}

fn conforms(expect: Option<&Tup>, r: &Reloaded) -> (bool, Value) {
    match (expect, r) {
        (Some(e), Reloaded::Ok(g)) => {
            let (dm, dq, da, db) = (idist(g.m, e.m), idist(g.q, e.q), ulp(g.a, e.a), ulp(g.b, e.b));
            let al = |x: f64| if class_of(x) == "long" { 1 } else { 0 };
            (dm == 0 && dq == 0 && da <= al(e.a) && db <= al(e.b), json!({"outcome": "ok", "got": g.to_json(), "dist": [dm, dq, da, db]}))
        }
        (None, Reloaded::Ok(g)) => (false, json!({"outcome": "ok", "got": g.to_json()})),
        (Some(_), Reloaded::Err(e)) => (false, json!({"outcome": "err", "msg": e})),
        (None, Reloaded::Err(e)) => (true, json!({"outcome": "err", "msg": e})),
        (_, Reloaded::Panic(m)) => (false, json!({"outcome": "panic", "msg": m.chars().take(120).collect::<String>()})),
    }
}

/// replay in=<ndjson of TR records> out=<json> seed=N wd=<scratch> reps=R
fn replay(a: &Args) {
    silence_panics();
    let recs = read_ndjson(&a.str("in"));
    let seed = a.u64_or("seed", 1);
    let reps = a.usize_or("reps", 2);
    let wd = PathBuf::from(a.str("wd"));
    fresh_dir(&wd);
    let scratch = wd.join("ref");
    let mut rng = rng_from(seed, 2021);
    let pl = pools(&mut rng);
    let mut mism: Vec<Value> = Vec::new();
    let mut mism_counts: BTreeMap<String, u64> = BTreeMap::new();
    let mut evals = 0u64;
    let mut by_action: BTreeMap<String, u64> = BTreeMap::new();
    let mut file_classes: HashSet<String> = HashSet::new();
    for r in &recs {
        let act = r["a"].as_str().unwrap().to_string();
        let dir_exists = r["dir"].as_bool().unwrap();
        for rep in 0..reps {
            // concrete tuples for the abstract ones, text lengths ordered like the abstract lengths
            let pre = &r["pre"];
            let pre_exists = pre["exists"].as_bool().unwrap();
            let mut chosen: Option<(Tup, Vec<u8>, Option<(Tup, Vec<u8>)>)> = None;
            let reft = |t: &Tup| match reference_text(t, &scratch) { Ok(x) => x, Err(e) => tool_error(&format!("reference dump failed: {}", e)) };
            for _try in 0..2000 {
                let (md, qd) = (rng.random_range(1..=20), rng.random_range(1..=20));
                let t = concretise(&r["p"], &pl, md, qd, &mut rng);
                if !pre_exists {
                    chosen = Some((t, reft(&t), None));
                    break;
                }
                if pre["p"] == r["p"] {
                    let text = reft(&t);
                    chosen = Some((t, text.clone(), Some((t, text))));
                    break;
                }
                let (an, ap) = (r["p"]["n"].as_u64().unwrap(), pre["p"]["n"].as_u64().unwrap());
                // digits of the integers pushed apart in the direction of the abstract lengths
                let (md2, qd2) = match an.cmp(&ap) {
                    std::cmp::Ordering::Less => (rng.random_range(md..=20), rng.random_range(qd..=20)),
                    std::cmp::Ordering::Greater => (rng.random_range(1..=md), rng.random_range(1..=qd)),
                    std::cmp::Ordering::Equal => (rng.random_range(1..=20), rng.random_range(1..=20)),
                };
                let tp = concretise(&pre["p"], &pl, md2, qd2, &mut rng);
                // serialised length without calling the code: 21 bytes of punctuation and keys + the four numbers
                let est = |x: &Tup| 21 + serde_json::to_string(&x.b).unwrap().len() + serde_json::to_string(&x.a).unwrap().len()
                    + x.m.to_string().len() + x.q.to_string().len();
                if an != ap && an.cmp(&ap) != est(&t).cmp(&est(&tp)) {
                    continue;
                }
                let (text, textp) = (reft(&t), reft(&tp));
                if an == ap || an.cmp(&ap) == text.len().cmp(&textp.len()) {
                    chosen = Some((t, text, Some((tp, textp))));
                    break;
                }
            }
            let (t, text, prep) = chosen.unwrap_or_else(|| tool_error("no concrete tuples with the abstract length order"));
            // the file content of the source state
            let dir = if dir_exists { wd.join("d") } else { wd.join("absent").join("d") };
            let mut in_file: Option<Tup> = None; // tuple whose complete text is in the file
            let mut fclass = "missing".to_string();
            let mut koff = -1i64;
            if dir_exists {
                empty_dir(&dir);
                if pre_exists {
                    let (tp, textp) = prep.as_ref().unwrap();
                    let off = offset(pre["k"].as_u64().unwrap(), pre["p"]["n"].as_u64().unwrap(), textp.len(), &mut rng);
                    put_file(&dir, &textp[..off]);
                    koff = off as i64;
                    if off == textp.len() {
                        in_file = Some(*tp);
                        fclass = "complete".into();
                    } else {
                        fclass = if off == 0 { "empty".into() } else { "torn".into() };
                    }
                }
            } else {
                fclass = "nodir".into();
            }
            file_classes.insert(format!("{}:{}", act, fclass));
            evals += 1;
            *by_action.entry(act.clone()).or_insert(0) += 1;
            let mut bad: Option<(Value, Value)> = None; // (tags, detail)
            let mut expect_tuple: Option<Tup> = None;
            match act.as_str() {
                "reload" => {
                    let want_ok = r["ret"]["kind"] == "ok";
                    if want_ok != in_file.is_some() {
                        tool_error("replay: abstract and concrete file contents disagree");
                    }
                    let got = do_reload(&dir);
                    let (ok, detail) = conforms(in_file.as_ref(), &got);
                    expect_tuple = in_file;
                    if !ok {
                        let fc = if fclass == "empty" || fclass == "torn" { "torn" } else { fclass.as_str() };
                        bad = Some((json!({"kind": "reload", "outcome": detail["outcome"], "file": fc}),
                                    json!({"expected": if want_ok { "ok(same parameters)" } else { "err" }, "got": detail})));
                    }
                }
                "close" => {
                    let res = do_dump(&t, &dir);
                    let now = fs::read(dir.join(FNAME)).ok();
                    let same = now.as_ref().map(|x| *x == text).unwrap_or(false);
                    if res != "ok" || !same {
                        bad = Some((json!({"kind": "dump", "outcome": res, "file": fclass}),
                                    json!({"expected": "ok and the file holds exactly the text of the tuple",
                                           "got": {"res": res, "file": now.map(|x| String::from_utf8_lossy(&x).to_string())},
                                           "text": String::from_utf8_lossy(&text)})));
                    } else {
                        // and the round trip through the re-written file
                        let got = do_reload(&dir);
                        let (ok, detail) = conforms(Some(&t), &got);
                        expect_tuple = Some(t);
                        if !ok {
                            bad = Some((json!({"kind": "reload", "outcome": detail["outcome"], "file": "complete"}),
                                        json!({"expected": "ok(same parameters)", "got": detail})));
                        }
                    }
                }
                "openfail" => {
                    let res = do_dump(&t, &dir);
                    if res != "err" || dir.exists() {
                        bad = Some((json!({"kind": "dump", "outcome": res, "file": "nodir"}),
                                    json!({"expected": "err, nothing created", "got": {"res": res, "created": dir.exists()}})));
                    }
                }
                other => tool_error(&format!("unknown transition {}", other)),
            }
            if let Some((tags, detail)) = bad {
                // capped per kind of mismatch, never globally: a frequent one must not hide a rare one
                let ord = |x: f64| x == 0.0 || (1e-5..1e15).contains(&x.abs());
                let tk = format!("{}|{}|{:?}", tags, detail["got"]["dist"], expect_tuple.map(|x| (ord(x.a), ord(x.b))));
                let c = mism_counts.entry(tk).or_insert(0u64);
                *c += 1;
                if *c <= 25 {
                    mism.push(json!({"tags": tags, "rec": r, "rep": rep, "tuple": t.to_json(),
                                     "pre_tuple": prep.as_ref().map(|x| x.0.to_json()), "pre_offset": koff, "detail": detail,
                                     "expect_tuple": expect_tuple.map(|x| x.to_json()),
                                     "expect_classes": expect_tuple.map(|x| json!({"ca": class_of(x.a), "cb": class_of(x.b)}))}));
                }
            }
        }
    }
    let _ = fs::remove_dir_all(&wd);
    let mut fcs: Vec<String> = file_classes.into_iter().collect();
    fcs.sort();
    write_json(&a.str("out"), &json!({"evaluations": evals, "mismatches": mism, "mismatch_counts": mism_counts, "by_action": by_action, "action_file_classes": fcs}));
}

fn main() {
    let argv: Vec<String> = std::env::args().collect();
    if argv.len() < 2 {
        tool_error("usage: c20 <record|replay> key=value ...");
    }
    let a = Args::parse(&argv[2..]);
    match argv[1].as_str() {
        "record" => record(&a),
        "replay" => replay(&a),
        other => tool_error(&format!("unknown subcommand {}", other)),
    }
}
