//! Densified one-permutation sketchers (OptDensMinHash / RevOptDensMinHash): replay of TLC-generated
//! histories, complete enumeration of occupancy patterns, recording for spec/TraceDens.tla.
//! Serves C09 (and the densified part of C04, C13).
use fnv::FnvHasher;
use pmh_verif::util::*;
use probminhash::densminhash::{OptDensMinHash, RevOptDensMinHash};
use rand::Rng;
use serde_json::{json, Value};
use std::collections::{BTreeMap, HashMap};
use std::hash::BuildHasherDefault;
use std::process::{Command, Stdio};
use std::time::{Duration, Instant};

/// in-process watchdog: a call that does not return within the limit is reported as a hang
/// (side file <out>.hang, exit code 7) instead of blocking the harness
static CURRENT: std::sync::Mutex<Option<(Instant, String)>> = std::sync::Mutex::new(None);

fn watch_begin(desc: String) {
    *CURRENT.lock().unwrap() = Some((Instant::now(), desc));
}

fn watch_end() {
    *CURRENT.lock().unwrap() = None;
}

fn start_watchdog(outfile: String, limit_ms: u64) {
    std::thread::spawn(move || loop {
        std::thread::sleep(Duration::from_millis(50));
        let cur = CURRENT.lock().unwrap().clone();
        if let Some((t0, desc)) = cur {
            if t0.elapsed() > Duration::from_millis(limit_ms) {
                let _ = std::fs::write(format!("{}.hang", outfile), desc);
                std::process::exit(7);
            }
        }
    });
}

trait Dm {
    fn sketch(&mut self, x: u64);
    fn end(&mut self);
    fn slice(&mut self, xs: &[u64]) -> bool;
    fn reinit(&mut self);
    fn raw(&self) -> (Vec<f64>, Vec<u64>, Vec<bool>, i64);
    fn views(&self) -> (Vec<f64>, Vec<u64>, Vec<u32>);
}

type NoHash = probminhash::nohasher::NoHashHasher;

macro_rules! dm_impl {
    ($name:ident, $ty:ident, $f:ty) => {
        dm_impl!($name, $ty, $f, FnvHasher);
    };
    ($name:ident, $ty:ident, $f:ty, $h:ty) => {
        struct $name($ty<$f, u64, $h>);
        impl Dm for $name {
            fn sketch(&mut self, x: u64) {
                self.0.sketch(&x)
            }
            fn end(&mut self) {
                self.0.end_sketch()
            }
            fn slice(&mut self, xs: &[u64]) -> bool {
                self.0.sketch_slice(xs).is_ok()
            }
            fn reinit(&mut self) {
                self.0.reinit()
            }
            fn raw(&self) -> (Vec<f64>, Vec<u64>, Vec<bool>, i64) {
                let (h, v, i, n) = self.0.verif_raw();
                (h.iter().map(|x| *x as f64).collect(), v, i, n)
            }
            fn views(&self) -> (Vec<f64>, Vec<u64>, Vec<u32>) {
                (
                    self.0.get_hsketch().iter().map(|x| *x as f64).collect(),
                    self.0.get_hsketch_u64(),
                    self.0.get_hsketch_u32(),
                )
            }
        }
    };
}
dm_impl!(OptF64, OptDensMinHash, f64);
dm_impl!(OptF32, OptDensMinHash, f32);
dm_impl!(RevF64, RevOptDensMinHash, f64);
dm_impl!(RevF32, RevOptDensMinHash, f32);
dm_impl!(OptF64No, OptDensMinHash, f64, NoHash);
dm_impl!(RevF64No, RevOptDensMinHash, f64, NoHash);
dm_impl!(OptF32No, OptDensMinHash, f32, NoHash);

fn make(alg: &str, ft: &str, m: usize) -> Box<dyn Dm> {
    let bh = BuildHasherDefault::<FnvHasher>::default();
    match (alg, ft) {
        ("opt", "f64") => Box::new(OptF64(OptDensMinHash::new(m, bh))),
        ("opt", "f32") => Box::new(OptF32(OptDensMinHash::new(m, bh))),
        ("rev", "f64") => Box::new(RevF64(RevOptDensMinHash::new(m, bh))),
        ("rev", "f32") => Box::new(RevF32(RevOptDensMinHash::new(m, bh))),
        ("opt", "f64no") => Box::new(OptF64No(OptDensMinHash::new(m, BuildHasherDefault::<NoHash>::default()))),
        ("rev", "f64no") => Box::new(RevF64No(RevOptDensMinHash::new(m, BuildHasherDefault::<NoHash>::default()))),
        ("opt", "f32no") => Box::new(OptF32No(OptDensMinHash::new(m, BuildHasherDefault::<NoHash>::default()))),
        _ => tool_error("unknown densified sketcher"),
    }
}

const KINDS: [(&str, &str); 4] = [("opt", "f64"), ("opt", "f32"), ("rev", "f64"), ("rev", "f32")];
/// kinds with the crate's identity hasher: the items are "already hashed" identifiers, including the values the
/// sketchers use as sentinels (0, u64::MAX)
const KINDS_NO: [(&str, &str); 3] = [("opt", "f64no"), ("rev", "f64no"), ("opt", "f32no")];

/// what finishing an empty sketcher does, decided in a child process under a watchdog
fn probe_empty(alg: &str, ft: &str, m: usize, call: &str, limit_ms: u64) -> &'static str {
    let exe = std::env::current_exe().unwrap();
    let mut child = Command::new(exe)
        .args(["probe-empty", &format!("alg={}", alg), &format!("ft={}", ft), &format!("m={}", m), &format!("call={}", call)])
        .stdout(Stdio::null())
        .stderr(Stdio::null())
        .spawn()
        .unwrap_or_else(|e| tool_error(&format!("cannot spawn probe: {}", e)));
    let t0 = Instant::now();
    loop {
        match child.try_wait() {
            Ok(Some(st)) => {
                return match st.code() {
                    Some(0) => "ok",
                    Some(3) => "fail",
                    _ => "fail", // abort / signal: still a reported failure, not a hang
                };
            }
            Ok(None) => {
                if t0.elapsed() > Duration::from_millis(limit_ms) {
                    let _ = child.kill();
                    let _ = child.wait();
                    return "hang";
                }
                std::thread::sleep(Duration::from_millis(2));
            }
            Err(_) => tool_error("probe wait failed"),
        }
    }
}

fn probe_empty_child(a: &Args) {
    silence_panics();
    let mut sk = make(&a.str("alg"), &a.str("ft"), a.usize_or("m", 1));
    let call = a.str("call");
    let r = catch(|| {
        if call == "en" {
            sk.end();
            true
        } else {
            sk.slice(&[])
        }
    });
    match r {
        Ok(true) => std::process::exit(0),
        _ => std::process::exit(3),
    }
}

struct Recorder {
    out: Out,
    run: u64,
    limit_ms: u64,
    probes: HashMap<(String, String, usize, String), &'static str>,
}

struct RawEv {
    v: Value,
    hs: Vec<f64>,
    vals: Vec<u64>,
    init: Vec<bool>,
    views: Option<(Vec<f64>, Vec<u64>, Vec<u32>)>,
}

impl Recorder {
    fn probe(&mut self, alg: &str, ft: &str, m: usize, call: &str) -> &'static str {
        let key = (alg.to_string(), ft.to_string(), m, call.to_string());
        if let Some(r) = self.probes.get(&key) {
            return r;
        }
        // the limit is generous (a loaded machine must not turn a slow process start into a "hang"); once the same
        // call has hung for three sizes the remaining sizes are not waited for again
        let hung = self.probes.iter().filter(|(k, v)| k.0 == alg && k.1 == ft && k.3 == call && **v == "hang").count();
        let r = if hung >= 3 { "hang" } else { probe_empty(alg, ft, m, call, self.limit_ms) };
        self.probes.insert(key, r);
        r
    }

    /// one history on fresh instances; ops as in Schedule.tla (sk, sl, en, re)
    fn one_run(&mut self, tag: &Value, ops: &[Value], ninst: usize, alg: &str, ft: &str, m: usize, items: &[u64]) {
        self.run += 1;
        let run = self.run;
        // measured tables: bin and value of each item (fresh sketcher, one item)
        let mut tab: Vec<(usize, f64, u64)> = Vec::new();
        for it in items {
            let r = catch(|| {
                let mut s = make(alg, ft, m);
                s.sketch(*it);
                s.raw()
            });
            match r {
                Ok((hs, vals, init, _)) => {
                    let pops: Vec<usize> = (0..m).filter(|k| init[*k]).collect();
                    if pops.len() != 1 {
                        self.out.line(&json!({"op": "new", "run": run, "alg": alg, "ft": ft, "m": m, "ninst": ninst, "tab": [], "tag": tag}));
                        self.out.line(&json!({"op": "panic", "run": run, "msg": format!("a single item populated {} bins", pops.len())}));
                        return;
                    }
                    tab.push((pops[0], hs[pops[0]], vals[pops[0]]));
                }
                Err(msg) => {
                    self.out.line(&json!({"op": "new", "run": run, "alg": alg, "ft": ft, "m": m, "ninst": ninst, "tab": [], "tag": tag}));
                    self.out.line(&json!({"op": "panic", "run": run, "msg": msg}));
                    return;
                }
            }
        }
        let mut by_hash: HashMap<u64, usize> = HashMap::new();
        for (n, t) in tab.iter().enumerate() {
            by_hash.insert(t.2, n + 1);
        }
        if by_hash.len() != items.len() {
            self.run -= 1;
            return; // two items with the same 64-bit hash: skip
        }
        let mut insts: Vec<Box<dyn Dm>> = (0..ninst).map(|_| make(alg, ft, m)).collect();
        let mut evs: Vec<RawEv> = Vec::new();
        for op in ops {
            let name = op[0].as_str().unwrap();
            let i = op[1].as_u64().unwrap() as usize;
            let mut ev = json!({"op": name, "run": run, "i": i});
            let (_, _, _, ne) = insts[i - 1].raw();
            let all_empty = ne as usize == m;
            watch_begin(json!({"alg": alg, "ft": ft, "m": m, "items": items.iter().map(|i| i.to_string()).collect::<Vec<_>>(),
                "ops": ops, "at": op, "tag": tag}).to_string());
            let mut outcome = "ok";
            let res = match name {
                "sk" => {
                    let x = op[2].as_u64().unwrap() as usize;
                    ev["x"] = json!(x);
                    catch(|| insts[i - 1].sketch(items[x - 1]))
                }
                "sl" => {
                    let xs: Vec<usize> = op[2].as_array().unwrap().iter().map(|x| x.as_u64().unwrap() as usize).collect();
                    ev["xs"] = json!(xs);
                    let its: Vec<u64> = xs.iter().map(|x| items[*x - 1]).collect();
                    if all_empty && its.is_empty() {
                        let p = self.probe(alg, ft, m, "sl");
                        if p == "hang" {
                            outcome = "hang";
                            Ok(())
                        } else {
                            catch(|| {
                                if !insts[i - 1].slice(&its) {
                                    panic!("sketch_slice returned Err")
                                }
                            })
                        }
                    } else {
                        catch(|| {
                            if !insts[i - 1].slice(&its) {
                                panic!("sketch_slice returned Err")
                            }
                        })
                    }
                }
                "en" => {
                    if all_empty {
                        let p = self.probe(alg, ft, m, "en");
                        if p == "hang" {
                            outcome = "hang";
                            Ok(())
                        } else {
                            catch(|| insts[i - 1].end())
                        }
                    } else {
                        catch(|| insts[i - 1].end())
                    }
                }
                "re" => catch(|| insts[i - 1].reinit()),
                _ => continue,
            };
            watch_end();
            if res.is_err() {
                outcome = "fail";
                ev["msg"] = json!(res.err().unwrap());
            }
            ev["out"] = json!(outcome);
            let (hs, vals, init, ne) = insts[i - 1].raw();
            ev["ne"] = json!(ne);
            let views = if ne == 0 { catch(|| insts[i - 1].views()).ok() } else { None };
            evs.push(RawEv { v: ev, hs, vals, init, views });
        }
        // ranks of the float values of this run
        let mut keys: BTreeMap<u64, i64> = BTreeMap::new();
        let fk = |x: f64| -> u64 {
            let b = x.to_bits();
            if b >> 63 == 0 { b | (1 << 63) } else { !b }
        };
        for t in &tab {
            keys.insert(fk(t.1), 0);
        }
        let mut n = 0;
        for (_, v) in keys.iter_mut() {
            n += 1;
            *v = n;
        }
        let rk = |x: f64| -> i64 { *keys.get(&fk(x)).unwrap_or(&-1) };
        let idx = |h: u64| -> i64 { by_hash.get(&h).map(|i| *i as i64).unwrap_or(-1) };
        let mut u32ids: HashMap<u32, i64> = HashMap::new();
        self.out.line(&json!({"op": "new", "run": run, "alg": alg, "ft": ft, "m": m, "ninst": ninst, "tag": tag,
            "tab": tab.iter().map(|t| json!([t.0 + 1, rk(t.1)])).collect::<Vec<_>>(),
            "items": items.iter().map(|i| i.to_string()).collect::<Vec<_>>()}));
        for e in evs {
            let mut v = e.v;
            v["it"] = json!((0..m).map(|k| if e.init[k] { idx(e.vals[k]) } else { 0 }).collect::<Vec<i64>>());
            v["rv"] = json!((0..m).map(|k| if e.init[k] { rk(e.hs[k]) } else { 0 }).collect::<Vec<i64>>());
            if let Some((vf, v64, v32)) = e.views {
                v["vf"] = json!(vf.iter().map(|x| rk(*x)).collect::<Vec<i64>>());
                v["v64"] = json!(v64.iter().map(|h| idx(*h)).collect::<Vec<i64>>());
                let ids: Vec<i64> = v32
                    .iter()
                    .map(|u| {
                        let n = u32ids.len() as i64 + 1;
                        *u32ids.entry(*u).or_insert(n)
                    })
                    .collect();
                v["v32"] = json!(ids);
            }
            self.out.line(&v);
        }
    }
}

fn fresh_items(n: usize, rng: &mut impl Rng) -> Vec<u64> {
    let style = rng.random_range(0..3);
    let base = rng.random::<u64>() >> 1;
    (0..n)
        .map(|i| match style {
            0 => rng.random::<u64>(),
            1 => base + i as u64,
            _ => (i as u64 + 1) * 0x1_0000_0001,
        })
        .collect()
}

/// replay in=<SCHED ndjson> out=<trace> seed=N stride=K ms=1,2,3 limit_ms=30000
fn replay(a: &Args) {
    silence_panics();
    let scheds = read_ndjson(&a.str("in"));
    let seed = a.u64_or("seed", 1);
    let stride = a.usize_or("stride", 1).max(1);
    let ms: Vec<usize> = a.str_or("ms", "1,2,3,5,64").split(',').map(|s| s.parse().unwrap()).collect();
    let mut rng = rng_from(seed, 909);
    let mut rec = Recorder { out: Out::create(&a.str("out")), run: 0, limit_ms: a.u64_or("limit_ms", 30000), probes: HashMap::new() };
    start_watchdog(a.str("out"), a.u64_or("hang_ms", 60000));
    rec.out.line(&json!({"kind": "dens"}));
    let offset = (seed as usize) % stride;
    for (si, s) in scheds.iter().enumerate() {
        if si % stride != offset {
            continue;
        }
        let ops = s["ops"].as_array().unwrap();
        let ninst = s["sets"].as_array().unwrap().len();
        let mut nitems = 0usize;
        for op in ops {
            match op[0].as_str().unwrap() {
                "sk" => nitems = nitems.max(op[2].as_u64().unwrap() as usize),
                "sl" => {
                    for x in op[2].as_array().unwrap() {
                        nitems = nitems.max(x.as_u64().unwrap() as usize)
                    }
                }
                _ => {}
            }
        }
        let pick = rng.random_range(0..7);
        let (alg, ft) = if pick < 4 { KINDS[pick] } else { KINDS_NO[pick - 4] };
        let m = ms[rng.random_range(0..ms.len())];
        let mut items = fresh_items(nitems, &mut rng);
        if pick >= 4 {
            // sentinel-valued identifiers first (hash = identifier up to a byte swap)
            let special = [u64::MAX, 0u64, 1u64 << 63, 1u64];
            let off = rng.random_range(0..4);
            for (i, it) in items.iter_mut().enumerate() {
                if i < 2 {
                    *it = special[(i + off) % 4];
                }
            }
        }
        rec.one_run(&json!({"sched": si}), ops, ninst, alg, ft, m, &items);
    }
    rec.out.finish();
}

/// patterns out=<trace> m=M seed=N limit_ms=30000 : every occupancy pattern of m bins (incl. the empty one),
/// realised with witness items, item-wise + end_sketch on instance 1 and one sketch_slice on instance 2
fn patterns(a: &Args) {
    silence_panics();
    let seed = a.u64_or("seed", 1);
    let m = a.usize_or("m", 4);
    let mut rng = rng_from(seed, 910 + m as u64);
    let mut rec = Recorder { out: Out::create(&a.str("out")), run: 0, limit_ms: a.u64_or("limit_ms", 30000), probes: HashMap::new() };
    start_watchdog(a.str("out"), a.u64_or("hang_ms", 60000));
    rec.out.line(&json!({"kind": "dens"}));
    for (alg, ft) in KINDS {
        if a.get("alg").map(|x| x != alg).unwrap_or(false) || a.get("ft").map(|x| x != ft).unwrap_or(false) {
            continue;
        }
        // witness items: one item per bin
        let mut wit: Vec<Option<u64>> = vec![None; m];
        let mut found = 0;
        let mut tries = 0u64;
        while found < m {
            tries += 1;
            if tries > 200_000_000 {
                tool_error("witness search did not cover all bins");
            }
            let x = rng.random::<u64>();
            let mut s = make(alg, ft, m);
            s.sketch(x);
            let (_, _, init, _) = s.raw();
            if let Some(k) = (0..m).find(|k| init[*k]) {
                if wit[k].is_none() {
                    wit[k] = Some(x);
                    found += 1;
                }
            }
        }
        let wit: Vec<u64> = wit.into_iter().map(|w| w.unwrap()).collect();
        for pat in 0u64..(1u64 << m) {
            let bins: Vec<usize> = (0..m).filter(|k| pat >> k & 1 == 1).collect();
            let items: Vec<u64> = bins.iter().map(|k| wit[*k]).collect();
            let mut ops: Vec<Value> = Vec::new();
            // random order for the item-wise instance
            let mut order: Vec<usize> = (1..=items.len()).collect();
            for i in (1..order.len()).rev() {
                let j = rng.random_range(0..=i);
                order.swap(i, j);
            }
            for x in &order {
                ops.push(json!(["sk", 1, x]));
            }
            ops.push(json!(["en", 1]));
            ops.push(json!(["en", 1]));
            ops.push(json!(["sl", 2, (1..=items.len()).collect::<Vec<usize>>()]));
            rec.one_run(&json!({"pattern": pat}), &ops, 2, alg, ft, m, &items);
        }
    }
    rec.out.finish();
}

/// ties out=<trace> seed=N : f32 values have 2^23 levels, so two different items can fall into the same bin with exactly
/// the same value.  Search such witness pairs (birthday search over single-item sketches) and stream them in both orders,
/// item-wise and as slices, alone and among other items: the sketch must not depend on the order (C04), and sketch_slice
/// must agree with item-wise streaming (C09).
fn ties(a: &Args) {
    silence_panics();
    let seed = a.u64_or("seed", 1);
    let mut rng = rng_from(seed, 912);
    let mut rec = Recorder { out: Out::create(&a.str("out")), run: 0, limit_ms: a.u64_or("limit_ms", 30000), probes: HashMap::new() };
    start_watchdog(a.str("out"), a.u64_or("hang_ms", 60000));
    rec.out.line(&json!({"kind": "dens"}));
    let npairs = a.usize_or("pairs", 3);
    for alg in ["opt", "rev"] {
        for m in [4usize, 16, 100] {
            let mut seen: HashMap<(usize, u32), u64> = HashMap::new();
            let mut found: Vec<(u64, u64)> = Vec::new();
            let base = rng.random::<u64>() >> 20;
            let mut i = 0u64;
            while found.len() < npairs && i < 3_000_000 {
                let x = base + i;
                i += 1;
                let mut s = make(alg, "f32", m);
                s.sketch(x);
                let (hs, _, init, _) = s.raw();
                if let Some(k) = (0..m).find(|k| init[*k]) {
                    let key = (k, (hs[k] as f32).to_bits());
                    if let Some(y) = seen.get(&key) {
                        found.push((*y, x));
                    } else {
                        seen.insert(key, x);
                    }
                }
            }
            for (x, y) in found {
                let others: Vec<u64> = (0..3).map(|_| rng.random::<u64>()).collect();
                let items = vec![x, y, others[0], others[1], others[2]];
                let ops = vec![
                    json!(["sk", 1, 1]), json!(["sk", 1, 2]), json!(["en", 1]),
                    json!(["sk", 2, 2]), json!(["sk", 2, 1]), json!(["en", 2]),
                    json!(["sl", 3, [1, 2]]), json!(["sl", 4, [2, 1]]),
                    json!(["sk", 5, 3]), json!(["sk", 5, 1]), json!(["sk", 5, 4]), json!(["sk", 5, 2]), json!(["sk", 5, 5]), json!(["en", 5]),
                    json!(["sl", 6, [5, 2, 4, 1, 3]]),
                ];
                rec.one_run(&json!({"tie": [x.to_string(), y.to_string()]}), &ops, 6, alg, "f32", m, &items);
            }
        }
    }
    rec.out.finish();
}

/// big out=<json> seed=N : large sketches, sampled; harness-side predicate (R1/R2 of the trace spec) only
fn big(a: &Args) {
    silence_panics();
    let seed = a.u64_or("seed", 1);
    let thorough = a.u64_or("thorough", 0) == 1;
    let mut rng = rng_from(seed, 911);
    start_watchdog(a.str("out"), a.u64_or("hang_ms", 240000));
    let mut cases: Vec<Value> = Vec::new();
    let sizes: Vec<(usize, usize)> = if thorough {
        vec![(1000, 1), (1000, 10), (1000, 1000), (1000, 10000), (100000, 100), (100000, 100000), (100000, 1000000), (20000, 3), (70001, 400), (131073, 100000)]
    } else {
        // 70001: more than 2^16 bins, not a multiple of any block size
        vec![(1000, 1), (1000, 30), (1000, 3000), (50000, 50), (50000, 50000), (70001, 400)]
    };
    for (m, n) in sizes {
        for (alg, ft) in KINDS {
            let items: Vec<u64> = (0..n).map(|_| rng.random::<u64>()).collect();
            let t0 = Instant::now();
            watch_begin(json!({"alg": alg, "ft": ft, "m": m, "n": n, "seed": seed, "where": "big"}).to_string());
            let r = catch(|| {
                let mut a1 = make(alg, ft, m);
                for x in &items {
                    a1.sketch(*x);
                }
                let pre = a1.raw();
                a1.end();
                let post = a1.raw();
                let views = a1.views();
                let mut a2 = make(alg, ft, m);
                a2.slice(&items);
                let post2 = a2.raw();
                // a third sketcher sees only the first half of the stream: its u32 view must map every hash it shares
                // with the full sketch to the same image (the u32 view is a fixed function of the u64 view)
                let mut a3 = make(alg, ft, m);
                a3.slice(&items[..(items.len() + 1) / 2]);
                let half = a3.views();
                (pre, post, post2, views, half)
            });
            watch_end();
            let mut bad: Vec<String> = Vec::new();
            match r {
                Ok((pre, post, post2, views, half)) => {
                    // the three public views: m entries each; float and u64 views are the finished bins; the u32 view is a
                    // function of the u64 view (equal hashes have equal images, everywhere in the sketch)
                    let (vf, v64, v32) = views;
                    if vf.len() != m || v64.len() != m || v32.len() != m {
                        bad.push(format!("view lengths {} / {} / {} for {} bins", vf.len(), v64.len(), v32.len(), m));
                    } else {
                        if (0..m).any(|k| vf[k].to_bits() != post.0[k].to_bits() || v64[k] != post.1[k]) {
                            bad.push("float or u64 view differs from the finished bins".to_string());
                        }
                        let mut img: HashMap<u64, u32> = HashMap::new();
                        for k in 0..m {
                            let e = img.entry(v64[k]).or_insert(v32[k]);
                            if *e != v32[k] {
                                bad.push(format!("u32 view: the hash at position {} has the image {} here and {} elsewhere", k, v32[k], *e));
                                break;
                            }
                        }
                        let (_, h64, h32) = half;
                        for k in 0..h64.len().min(h32.len()) {
                            if let Some(e) = img.get(&h64[k]) {
                                if *e != h32[k] {
                                    bad.push(format!("u32 view: the hash at position {} of the sketch of the first half of the stream has the image {} there and {} in the sketch of the whole stream", k, h32[k], *e));
                                    break;
                                }
                            }
                        }
                    }
                    let popped: std::collections::HashSet<(u64, u64)> =
                        (0..m).filter(|k| pre.2[*k]).map(|k| (pre.0[k].to_bits(), pre.1[k])).collect();
                    for k in 0..m {
                        if pre.2[k] && (post.0[k] != pre.0[k] || post.1[k] != pre.1[k]) {
                            bad.push(format!("populated bin {} changed", k));
                            break;
                        }
                        if !popped.contains(&(post.0[k].to_bits(), post.1[k])) {
                            bad.push(format!("bin {} holds a pair of no populated bin", k));
                            break;
                        }
                    }
                    if post.3 != 0 || post.2.iter().any(|b| !*b) {
                        bad.push("not every bin filled".to_string());
                    }
                    if post.0 != post2.0 || post.1 != post2.1 {
                        bad.push("sketch_slice differs from item-wise + end_sketch".to_string());
                    }
                }
                Err(msg) => bad.push(format!("panic: {}", msg)),
            }
            cases.push(json!({"m": m, "n": n, "alg": alg, "ft": ft, "bad": bad, "ms": t0.elapsed().as_millis() as u64}));
        }
    }
    write_json(&a.str("out"), &json!({"cases": cases}));
}

fn main() {
    let argv: Vec<String> = std::env::args().collect();
    if argv.len() < 2 {
        tool_error("usage: dm <replay|patterns|big|probe-empty> key=value ...");
    }
    let a = Args::parse(&argv[2..]);
    match argv[1].as_str() {
        "replay" => replay(&a),
        "patterns" => patterns(&a),
        "ties" => ties(&a),
        "big" => big(&a),
        "probe-empty" => probe_empty_child(&a),
        other => tool_error(&format!("unknown subcommand {}", other)),
    }
}
