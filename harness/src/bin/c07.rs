//! C07: SetSketch register collisions and Jaccard bounds.
//!  bounds in=<inputs.ndjson> out=<trace.ndjson>
//!         replays every input (TLC-exported grid point b = num/den, collision fraction = num/den;
//!         or an oracle collision probability given as a decimal string) into
//!         `SetSketchParams::new(b, m, a, q).get_jaccard_bounds(jac)` under `catch`; the outcome is
//!         `ok` with lo rounded down / hi rounded up to 1e-9 units, `nonfinite`, or `panic` (with the
//!         cause determined by recomputing jinf / jsup with the documented formulas).
//!  freq   in=<cells.json> out=<freq.json> seed=N
//!         per cell and trial: fresh random u64 identifiers for A\B, B\A and the intersection are
//!         streamed through two real SetSketchers; histogram of the number of equal registers.
//!  sim    in=<cells.json> out=<sim.json> seed=N
//!         Monte-Carlo of the *mathematical model* (three independent exponential minima, cell map
//!         with clipping): validates the oracle formula, does not touch the code under test.
use pmh_verif::sketchers::{ss_default_u16, ss_default_u32, SsParams, SsU16, SsU32};
use pmh_verif::util::*;
use probminhash::setsketcher::SetSketchParams;
use rand::Rng;
use rayon::prelude::*;
use serde_json::{json, Value};

fn frac(v: &Value) -> (u64, u64) {
    let a = v.as_array().unwrap_or_else(|| tool_error("fraction must be [num, den]"));
    (a[0].as_u64().unwrap(), a[1].as_u64().unwrap())
}

fn scale_down(x: f64) -> i64 {
    ((x * 1.0e9).floor()).clamp(-2.0e9, 2.0e9) as i64
}
fn scale_up(x: f64) -> i64 {
    ((x * 1.0e9).ceil()).clamp(-2.0e9, 2.0e9) as i64
}

/// the formulas of get_jaccard_bounds as documented (used only to name the cause of an abort)
fn recompute(b: f64, jac: f64) -> (f64, f64) {
    let b_aux = b.powf(jac * 0.5);
    let jsup = (b_aux * b_aux - 1.) / (b - 1.);
    let b_inf = 2. * (b_aux * b.sqrt() - 1.) / (b - 1.) - 1.;
    (b_inf.max(0.), jsup)
}

/// (b, m, a, q, jac) of one input row
fn row_input(r: &Value) -> (f64, u64, f64, u64, f64) {
    let src = r["src"].as_str().unwrap_or("grid");
    let (bn, bd) = frac(&r["b"]);
    let b = bn as f64 / bd as f64;
    let (jac, m) = if src == "grid" {
        let (kn, kd) = frac(&r["jac"]);
        (kn as f64 / kd as f64, kd)
    } else {
        let p: f64 = r["p"].as_str().unwrap().parse().unwrap_or_else(|_| tool_error("bad p"));
        (p, r["m"].as_u64().unwrap_or(4096))
    };
    let av = r["a"].as_str().and_then(|x| x.parse::<f64>().ok()).unwrap_or(20.);
    let q = r["q"].as_u64().unwrap_or(65534);
    (b, m, av, q, jac)
}

fn bounds(a: &Args) {
    let rows = read_ndjson(&a.str("in"));
    let mut out = Out::create(&a.str("out"));
    silence_panics();
    out.line(&json!({"op": "header", "unit": "1e-9", "what": "SetSketchParams::get_jaccard_bounds", "n": rows.len()}));
    // the same calls once more, in a new thread and in the opposite order: the function is pure, so every call must give
    // the bits it gave the first time (an interval that depends on what was asked before cannot be the interval of its
    // own base and fraction)
    let inputs: Vec<(f64, u64, f64, u64, f64)> = rows.iter().map(|r| row_input(r)).collect();
    let inputs2 = inputs.clone();
    let second: Vec<Option<(u64, u64)>> = std::thread::spawn(move || {
        silence_panics();
        let mut v: Vec<Option<(u64, u64)>> = inputs2.iter().rev()
            .map(|(b, m, av, q, jac)| catch(|| SetSketchParams::new(*b, *m, *av, *q).get_jaccard_bounds(*jac)).ok().map(|(lo, hi)| (lo.to_bits(), hi.to_bits())))
            .collect();
        v.reverse();
        v
    }).join().unwrap_or_default();
    let mut n = 0u64;
    for (ri, r) in rows.iter().enumerate() {
        let src = r["src"].as_str().unwrap_or("grid");
        let (bn, bd) = frac(&r["b"]);
        let b = bn as f64 / bd as f64;
        let (jac, m) = if src == "grid" {
            let (kn, kd) = frac(&r["jac"]);
            (kn as f64 / kd as f64, kd)
        } else {
            let p: f64 = r["p"].as_str().unwrap().parse().unwrap_or_else(|_| tool_error("bad p"));
            (p, r["m"].as_u64().unwrap_or(4096))
        };
        // a, q and m do not enter get_jaccard_bounds; a travels as a string (the trace is read by TLC: no reals)
        let av = r["a"].as_str().and_then(|x| x.parse::<f64>().ok()).unwrap_or(20.);
        let q = r["q"].as_u64().unwrap_or(65534);
        let res = catch(|| SetSketchParams::new(b, m, av, q).get_jaccard_bounds(jac));
        let mut ev = r.clone();
        let o = ev.as_object_mut().unwrap();
        o.insert("op".into(), json!("bounds"));
        o.insert("jac_s".into(), json!(format!("{:e}", jac)));
        let again = second.get(ri).cloned().flatten();
        let pure = match (&res, again) {
            (Ok((lo, hi)), Some((l2, h2))) => lo.to_bits() == l2 && hi.to_bits() == h2,
            (Err(_), None) => true,
            _ => second.is_empty(),
        };
        o.insert("pure".into(), json!(pure));
        match res {
            Ok((lo, hi)) => {
                if lo.is_finite() && hi.is_finite() {
                    o.insert("out".into(), json!("ok"));
                } else {
                    o.insert("out".into(), json!("nonfinite"));
                }
                o.insert("lo".into(), json!(if lo.is_finite() { scale_down(lo) } else { 2_000_000_000 }));
                o.insert("hi".into(), json!(if hi.is_finite() { scale_up(hi) } else { -2_000_000_000 }));
                o.insert("lo_s".into(), json!(format!("{:e}", lo)));
                o.insert("hi_s".into(), json!(format!("{:e}", hi)));
            }
            Err(msg) => {
                let (jinf, jsup) = recompute(b, jac);
                let d = jinf - jsup;
                let cause = if jac < 1. && d > 0. && d < 1.0e-9 && msg.contains("jinf <= jsup") {
                    "assert_jinf_le_jsup".to_string()
                } else if msg.contains("jac <= 1.") {
                    "assert_jac_le_1".to_string()
                } else {
                    "other".to_string()
                };
                o.insert("out".into(), json!("panic"));
                o.insert("lo".into(), json!(0));
                o.insert("hi".into(), json!(0));
                o.insert("cause".into(), json!(cause));
                o.insert("msg".into(), json!(msg.chars().take(120).collect::<String>()));
                o.insert("recomputed_jinf_minus_jsup_s".into(), json!(format!("{:e}", d)));
            }
        }
        out.line(&ev);
        n += 1;
    }
    // grid=true: the trace claims to replay the complete TLC grid (checked by TraceBounds.tla)
    out.line(&json!({"op": "end", "n": n, "grid": a.u64_or("full", 0) == 1}));
    out.finish();
}

// ------------------------------------------------------------------------------------ cells

#[derive(Clone, Debug)]
struct Cell {
    nu: u64,
    nv: u64,
    nw: u64,
    b: f64,
    a: f64,
    q: u64,
    m: u64,
    reg: String,
    trials: u64,
    rate_scale: f64,
    id: u64,
}

fn cells_of(v: &Value) -> Vec<Cell> {
    v["cells"]
        .as_array()
        .unwrap_or_else(|| tool_error("cells missing"))
        .iter()
        .enumerate()
        .map(|(ci, c)| Cell {
            id: c["id"].as_u64().unwrap_or(ci as u64),
            nu: c["nu"].as_u64().unwrap(),
            nv: c["nv"].as_u64().unwrap(),
            nw: c["nw"].as_u64().unwrap(),
            b: c["b"].as_f64().unwrap(),
            a: c["a"].as_f64().unwrap(),
            q: c["q"].as_u64().unwrap(),
            m: c["m"].as_u64().unwrap_or(1),
            reg: c["reg"].as_str().unwrap_or("u32").to_string(),
            trials: c["trials"].as_u64().unwrap(),
            rate_scale: c["rate_scale"].as_f64().unwrap_or(1.0),
        })
        .collect()
}

/// one trial on the real sketchers: number of equal registers (None on a panic).  With `parts` the three parts
/// are also sketched on their own and the number of positions where a register of A (B) is not the maximum of
/// the registers of its parts is returned (advisory: the join law itself is C04/C05).
fn trial(c: &Cell, seed: u64, stream: u64, parts: bool) -> Option<(usize, u64)> {
    let mut rng = rng_from(seed, stream);
    let p = SsParams { b: c.b, m: c.m, a: c.a, q: c.q };
    let nu = c.nu as usize;
    let nv = c.nv as usize;
    let nw = c.nw as usize;
    let ids: Vec<u64> = (0..(nu + nv + nw)).map(|_| rng.random::<u64>()).collect();
    let r = catch(|| {
        macro_rules! go {
            ($mk:expr) => {{
                let mut sa = $mk;
                let mut sb = $mk;
                for id in &ids[0..nu] {
                    sa.0.sketch(id).unwrap();
                }
                for id in &ids[nu..nu + nv] {
                    sb.0.sketch(id).unwrap();
                }
                // both sets receive the common part after their own part (order is irrelevant, C04/C05)
                for id in &ids[nu + nv..] {
                    sa.0.sketch(id).unwrap();
                    sb.0.sketch(id).unwrap();
                }
                let ka = sa.0.get_signature();
                let kb = sb.0.get_signature();
                let mut bad = 0u64;
                if parts {
                    let mut su = $mk;
                    let mut sv = $mk;
                    let mut sw = $mk;
                    for id in &ids[0..nu] {
                        su.0.sketch(id).unwrap();
                    }
                    for id in &ids[nu..nu + nv] {
                        sv.0.sketch(id).unwrap();
                    }
                    for id in &ids[nu + nv..] {
                        sw.0.sketch(id).unwrap();
                    }
                    let (ku, kv, kw) = (su.0.get_signature(), sv.0.get_signature(), sw.0.get_signature());
                    for i in 0..ka.len() {
                        if ka[i] != ku[i].max(kw[i]) || kb[i] != kv[i].max(kw[i]) {
                            bad += 1;
                        }
                    }
                }
                (ka.iter().zip(kb.iter()).filter(|(x, y)| x == y).count(), bad)
            }};
        }
        match c.reg.as_str() {
            "u16" => go!(SsU16::new(p)),
            // sketchers built through `Default` (their parameters are those of SetSketchParams::default())
            "def16" => go!(ss_default_u16()),
            "def32" => go!(ss_default_u32()),
            _ => go!(SsU32::new(p)),
        }
    });
    r.ok()
}

fn freq(a: &Args) {
    let cells = cells_of(&read_json(&a.str("in")));
    let seed = a.u64_or("seed", 1);
    silence_panics();
    let mut res = Vec::new();
    for c in cells.iter() {
        let t0 = std::time::Instant::now();
        let m = c.m as usize;
        let mut m = m;
        if c.reg.starts_with("def") {
            // the cell was written for the documented default parameters b, a, q: if the crate's defaults are others, skip
            // it; the number of registers is whatever the default sketcher really has
            let d = catch(|| {
                let s = ss_default_u16();
                (s.1, s.0.get_signature().len())
            });
            match d {
                Ok((p, len)) => {
                    if !(p.b == c.b && p.a == c.a && p.q == c.q) {
                        res.push(json!({"hist": vec![0u64; m + 1], "panics": 0, "parts_trials": 0, "parts_mismatch": 0, "skipped": true, "wall_ms": 0}));
                        continue;
                    }
                    m = len;
                }
                Err(_) => {} // a panic of the constructor is reported by the trials below
            }
        }
        let nparts = if c.nu + c.nv + c.nw <= 5000 { 32u64 } else { 0 };
        let (hist, panics, bad) = (0..c.trials)
            .into_par_iter()
            .fold(
                || (vec![0u64; m + 1], 0u64, 0u64),
                |(mut h, mut p, mut bad), t| {
                    match trial(c, seed, (c.id << 36) | t, t < nparts) {
                        Some((k, b)) => {
                            h[k] += 1;
                            bad += b;
                        }
                        None => p += 1,
                    }
                    (h, p, bad)
                },
            )
            .reduce(
                || (vec![0u64; m + 1], 0u64, 0u64),
                |(mut h1, p1, b1), (h2, p2, b2)| {
                    for (x, y) in h1.iter_mut().zip(h2.iter()) {
                        *x += *y;
                    }
                    (h1, p1 + p2, b1 + b2)
                },
            );
        res.push(json!({"hist": hist, "panics": panics, "m": m, "parts_trials": nparts.min(c.trials), "parts_mismatch": bad,
                        "wall_ms": t0.elapsed().as_millis() as u64}));
    }
    write_json(&a.str("out"), &json!({ "cells": res }));
}

/// cell of a value in the mathematical model: 0 for (1, inf], k for (b^-k, b^(1-k)], q+1 for (0, b^-q]
fn model_cell(x: f64, lnb: f64, q: u64) -> i64 {
    if x == f64::INFINITY {
        return 0;
    }
    let z = (1. - x.ln() / lnb).floor();
    let z = if z > (q + 1) as f64 { (q + 1) as i64 } else { z as i64 };
    z.max(0)
}

fn sim(a: &Args) {
    let cells = cells_of(&read_json(&a.str("in")));
    let seed = a.u64_or("seed", 1);
    let mut res = Vec::new();
    for c in cells.iter() {
        let lnb = c.b.ln();
        let chunks = 64u64;
        let per = c.trials.div_ceil(chunks);
        let hits: u64 = (0..chunks)
            .into_par_iter()
            .map(|ch| {
                let mut rng = rng_from(seed ^ 0x5157, (c.id << 36) | ch);
                let mut draw = |n: u64| -> f64 {
                    if n == 0 {
                        f64::INFINITY
                    } else {
                        let u: f64 = rng.random::<f64>();
                        -(1. - u).ln() / (c.a * c.rate_scale * n as f64)
                    }
                };
                let mut h = 0u64;
                for _ in 0..per {
                    let u = draw(c.nu);
                    let v = draw(c.nv);
                    let w = draw(c.nw);
                    let ra = model_cell(u.min(w), lnb, c.q);
                    let rb = model_cell(v.min(w), lnb, c.q);
                    if ra == rb {
                        h += 1;
                    }
                }
                h
            })
            .sum();
        res.push(json!({"n": per * chunks, "hits": hits}));
    }
    write_json(&a.str("out"), &json!({ "cells": res }));
}

fn main() {
    let argv: Vec<String> = std::env::args().collect();
    if argv.len() < 2 {
        tool_error("usage: c07 <bounds|freq|sim> key=value ...");
    }
    let a = Args::parse(&argv[2..]);
    match argv[1].as_str() {
        "bounds" => bounds(&a),
        "freq" => freq(&a),
        "sim" => sim(&a),
        other => tool_error(&format!("unknown subcommand {}", other)),
    }
}
