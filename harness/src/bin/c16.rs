//! C16: truncated-exponential sampler `ExpRestricted01::sample` driven by a scripted generator.
//!  replay : TLC grid behaviours -> observed (draws consumed, output cell) on the real code
//!  record : the whole TLC grid run on the real code, written as a trace for TraceExp01.tla
//!  quad   : deterministic quadrature of the real code over the first three draws
use pmh_verif::util::*;
use probminhash::exp01::ExpRestricted01;
use rand::distr::Distribution;
use rand::{Rng, RngCore};
use rayon::prelude::*;
use serde_json::{json, Value};

const BUDGET_MSG: &str = "C16-DRAW-BUDGET";
const BUDGET: usize = 10_000;
/// calls that exhausted the draw budget; the quadrature stops probing a rate after MAX_HANGS of them
static HANGS: std::sync::atomic::AtomicU64 = std::sync::atomic::AtomicU64::new(0);
const MAX_HANGS: u64 = 200;

fn too_many_hangs() -> bool {
    HANGS.load(std::sync::atomic::Ordering::Relaxed) > MAX_HANGS
}
const TOP: f64 = 1.0 - 1.0 / 4503599627370496.0; // 1 - 2^-52, largest value Uniform<f64>::new(0,1) returns

/// tape of at most 12 generator outputs, then zeros (x = 0 is accepted at once by the unchanged
/// sampler); more than BUDGET draws in one call is reported as a hang
struct Tape {
    t: [u64; 12],
    len: usize,
    pos: usize,
}

impl Tape {
    fn units(us: &[f64]) -> Tape {
        let mut t = [0u64; 12];
        for (i, u) in us.iter().enumerate() {
            t[i] = unit_to_u64(*u);
        }
        Tape { t, len: us.len(), pos: 0 }
    }
}

impl RngCore for Tape {
    fn next_u32(&mut self) -> u32 {
        (self.next_u64() >> 32) as u32
    }
    #[inline]
    fn next_u64(&mut self) -> u64 {
        let v = if self.pos < self.len { self.t[self.pos] } else { 0 };
        self.pos += 1;
        if self.pos > BUDGET {
            panic!("{}", BUDGET_MSG);
        }
        v
    }
    fn fill_bytes(&mut self, dest: &mut [u8]) {
        for chunk in dest.chunks_mut(8) {
            let v = self.next_u64().to_le_bytes();
            chunk.copy_from_slice(&v[..chunk.len()]);
        }
    }
}

#[derive(Clone, Debug)]
enum Obs {
    Ret(usize, f64), // draws consumed, value
    Hang,
    Panic(String),
}

#[inline]
fn run(e: &ExpRestricted01, us: &[f64]) -> Obs {
    let mut t = Tape::units(us);
    // through the trait, as `rng.sample(&law)` and every code generic over Distribution<f64> reach it
    match catch(|| <ExpRestricted01 as Distribution<f64>>::sample(e, &mut t)) {
        Ok(v) => Obs::Ret(t.pos, v),
        Err(m) => {
            if m.contains(BUDGET_MSG) {
                HANGS.fetch_add(1, std::sync::atomic::Ordering::Relaxed);
                Obs::Hang
            } else {
                Obs::Panic(m)
            }
        }
    }
}

fn in_range(v: f64) -> bool {
    v >= 0.0 && v < 1.0
}

fn make(lambda: f64) -> Result<ExpRestricted01, String> {
    catch(|| ExpRestricted01::new(lambda))
}

fn cell_of(v: f64, n: usize) -> i64 {
    if in_range(v) {
        ((v * n as f64).floor() as i64).min(n as i64 - 1)
    } else {
        -1
    }
}

fn lam_values(tabs: &Value) -> Vec<f64> {
    tabs["lams"].as_array().unwrap().iter().map(|l| l["value"].as_f64().unwrap()).collect()
}

fn grid_tape(n: usize, nu: usize, u: i64, x: i64, y: i64) -> [f64; 3] {
    let uu = if u as usize >= nu { TOP } else { (u as f64 + 0.5) / nu as f64 };
    let h = n / 2;
    [uu, (x.max(0) as f64 + 0.5) / n as f64, (y.max(0) as f64 + 0.5) / h as f64]
}

fn obs_json(o: &Obs, n: usize) -> Value {
    match o {
        Obs::Ret(d, v) => json!({"nd": (*d).min(4), "out": if *d <= 3 { cell_of(*v, n) } else { -1 },
                                 "val": v, "inrange": in_range(*v), "outcome": "ok"}),
        Obs::Hang => json!({"nd": 4, "out": -1, "outcome": "hang"}),
        Obs::Panic(m) => json!({"nd": 4, "out": -1, "outcome": "panic", "msg": m}),
    }
}

/// replay tabs=<json> in=<ndjson of BH records> out=<ndjson of observations> seed=N
fn replay(a: &Args) {
    silence_panics();
    let tabs = read_json(&a.str("tabs"));
    let n = tabs["n"].as_u64().unwrap() as usize;
    let nu = tabs["nu"].as_u64().unwrap() as usize;
    let lams = lam_values(&tabs);
    let seed = a.u64_or("seed", 1);
    let mut rng = rng_from(seed, 16);
    let recs = read_ndjson(&a.str("in"));
    let mut out = Out::create(&a.str("out"));
    let samplers: Vec<Result<ExpRestricted01, String>> = lams.iter().map(|l| make(*l)).collect();
    for r in &recs {
        let li = r["lam"].as_u64().unwrap() as usize - 1;
        let kind = r["kind"].as_str().unwrap();
        let (mut u, x, y) = (r["u"].as_i64().unwrap(), r["x"].as_i64().unwrap(), r["y"].as_i64().unwrap());
        if kind != "first" {
            // a first draw that enters the loop: the top of the range or (seed dependent) a grid cell the
            // tables send to the loop
            let fo = tabs["lams"][li]["fo"].as_array().unwrap();
            let rej: Vec<i64> = (0..=nu as i64).filter(|k| fo[*k as usize].as_i64().unwrap() < 0).collect();
            u = rej[rng.random_range(0..rej.len())];
        }
        let t = grid_tape(n, nu, u, x, y);
        let len = match kind {
            "first" => 1,
            "strip" => 2,
            _ => 3,
        };
        let o = match &samplers[li] {
            Ok(e) => run(e, &t[..len]),
            Err(m) => Obs::Panic(format!("new: {}", m)),
        };
        let mut v = obs_json(&o, n);
        v["tape"] = json!(&t[..len]);
        v["ucell"] = json!(u);
        out.line(&v);
    }
    out.finish();
}

/// record tabs=<json> out=<ndjson trace> : every grid tape on the real code.  The tables file carries
/// `cuts` (cells whose mid-point is within 1e-9 of a decision boundary, computed in high precision by the driver);
/// the flag is copied into the event, the observation is never altered.
fn record(a: &Args) {
    silence_panics();
    let tabs = read_json(&a.str("tabs"));
    let n = tabs["n"].as_u64().unwrap() as usize;
    let nu = tabs["nu"].as_u64().unwrap() as usize;
    let h = n / 2;
    let lams = lam_values(&tabs);
    let mut out = Out::create(&a.str("out"));
    out.line(&json!({"kind": "C16", "n": n, "nu": nu, "tables": a.str("tabs")}));
    for (li, lam) in lams.iter().enumerate() {
        let cuts = &tabs["cuts"][li];
        let cut_u: Vec<i64> = cuts["u"].as_array().unwrap().iter().map(|v| v.as_i64().unwrap()).collect();
        let cut_x: Vec<i64> = cuts["x"].as_array().unwrap().iter().map(|v| v.as_i64().unwrap()).collect();
        let cut_cell = |i: i64, j: i64| -> bool {
            // (i, j) or its reflection lies on the curve
            let (i2, j2) = if i + j >= n as i64 { (n as i64 - 1 - i, n as i64 - 1 - j) } else { (i, j) };
            cuts["col"].get(i2.to_string()).and_then(|v| v.as_i64()).map(|jj| jj == j2).unwrap_or(false)
        };
        let e = match make(*lam) {
            Ok(e) => e,
            Err(m) => {
                out.line(&json!({"op": "panic", "lam": li + 1, "msg": m}));
                continue;
            }
        };
        // a second sampler with another rate is used before every observed call: samplers are independent values
        let decoy = make(if li % 2 == 0 { lam * 1.75 + 0.5 } else { lam * 0.4 }).ok();
        let emit = |u: i64, x: i64, y: i64, cut: bool, out: &mut Out| -> usize {
            let seq = out.lines; // header is line 0: events are numbered 1, 2, ... without gaps
            let t = grid_tape(n, nu, u, x, y);
            if let Some(d) = decoy.as_ref() {
                let _ = run(d, &[t[2], t[0], t[1]]);
            }
            let o = run(&e, &t);
            let v = obs_json(&o, n);
            let nd = v["nd"].as_u64().unwrap() as usize;
            let mut ev = json!({"op": "sample", "seq": seq, "lam": li + 1, "u": u, "x": x, "y": y, "nd": nd, "out": v["out"],
                                "cut": cut, "outcome": v["outcome"]});
            if let Obs::Ret(d, val) = o {
                if d <= 3 && !in_range(val) {
                    ev["out"] = json!(-2); // a returned value outside [0,1)
                    ev["val"] = json!(val);
                }
            }
            out.line(&ev);
            nd
        };
        for u in 0..=nu as i64 {
            emit(u, 0, 0, cut_u.contains(&u), &mut out);
        }
        for x in 0..n as i64 {
            for y in 0..h as i64 {
                let nd = emit(nu as i64, x, y, cut_x.contains(&x) || cut_cell(x, y), &mut out);
                if nd == 2 {
                    break; // the third draw was not consumed: one event stands for the column
                }
            }
        }
    }
    out.finish();
}

#[derive(Default, Clone)]
struct Acc {
    strip: Vec<u32>, // per output cell: x points returned after two draws (each stands for n third draws)
    acc: Vec<u32>,   // per output cell: (x, y) points returned after three draws
    rej: u64,
    bad: Vec<Value>, // range violations, hangs, panics (first few)
    nbad: u64,
    nhang: u64,
    npanic: u64,
    calls: u64,
    rejected_examples: Vec<[f64; 3]>,
}

impl Acc {
    fn new(n: usize) -> Acc {
        Acc { strip: vec![0; n], acc: vec![0; n], ..Default::default() }
    }
    fn merge(mut self, o: Acc) -> Acc {
        for i in 0..self.strip.len() {
            self.strip[i] += o.strip[i];
            self.acc[i] += o.acc[i];
        }
        self.rej += o.rej;
        self.nbad += o.nbad;
        self.nhang += o.nhang;
        self.npanic += o.npanic;
        self.calls += o.calls;
        for b in o.bad {
            if self.bad.len() < 5 {
                self.bad.push(b);
            }
        }
        for b in o.rejected_examples {
            if self.rejected_examples.len() < 64 {
                self.rejected_examples.push(b);
            }
        }
        self
    }
    fn problem(&mut self, kind: &str, tape: &[f64], o: &Obs) {
        match kind {
            "range" => self.nbad += 1,
            "hang" => self.nhang += 1,
            _ => self.npanic += 1,
        }
        if self.bad.len() < 5 {
            let bits: Vec<String> = tape.iter().map(|u| format!("{:016x}", unit_to_u64(*u))).collect();
            self.bad.push(json!({"kind": kind, "tape": tape, "tape_u64": bits, "obs": format!("{:?}", o)}));
        }
    }
}

/// quad in=<json {n, seed, lams:[{id,value}]}> out=<json>
fn quad(a: &Args) {
    silence_panics();
    let inp = read_json(&a.str("in"));
    let n = inp["n"].as_u64().unwrap() as usize;
    let seed = inp["seed"].as_u64().unwrap();
    let mut res: Vec<Value> = Vec::new();
    for (li, l) in inp["lams"].as_array().unwrap().iter().enumerate() {
        let lam = l["value"].as_f64().unwrap();
        let mut rng = rng_from(seed, 1600 + li as u64);
        // (x, y): cell mid-points (midpoint rule: an offset would add an O(1/N) bias); the first draw is a
        // one-dimensional threshold count, its offset inside the cell is seed dependent
        let o1 = 0.1 + 0.8 * rng.random::<f64>();
        let ox = 0.5;
        let oy = 0.5;
        let e = match make(lam) {
            Ok(e) => e,
            Err(m) => {
                res.push(json!({"id": l["id"], "new_panic": m}));
                continue;
            }
        };
        let nf = n as f64;
        // ---- stage 1: the first draw
        let mut st1 = Acc::new(n);
        let mut first_hist = vec![0u32; n];
        let mut first_count = 0u64;
        let mut ratio_min = f64::INFINITY;
        let mut ratio_max = 0.0f64;
        let mut loop_u: Vec<f64> = Vec::new(); // grid points that need more than one draw
        HANGS.store(0, std::sync::atomic::Ordering::Relaxed);
        for k in 0..n {
            if too_many_hangs() {
                break;
            }
            let u = (k as f64 + o1) / nf;
            let o = run(&e, &[u]);
            st1.calls += 1;
            match o {
                Obs::Ret(1, v) => {
                    first_count += 1;
                    if in_range(v) {
                        first_hist[cell_of(v, n) as usize] += 1;
                        let r = v / u;
                        ratio_min = ratio_min.min(r);
                        ratio_max = ratio_max.max(r);
                    } else {
                        st1.problem("range", &[u], &o);
                    }
                }
                Obs::Ret(_, _) => {
                    if loop_u.is_empty() || k == n - 1 {
                        loop_u.push(u);
                    }
                }
                Obs::Hang => st1.problem("hang", &[u], &o),
                Obs::Panic(_) => st1.problem("panic", &[u], &o),
            }
        }
        // ---- stage 2: the law given that the first draw did not decide, for several such first draws
        let mut ustars: Vec<f64> = vec![TOP];
        ustars.extend(loop_u.iter());
        ustars.dedup();
        let mut stage2: Vec<Value> = Vec::new();
        for us in &ustars {
            let us = *us;
            if let Obs::Ret(1, _) = run(&e, &[us]) {
                stage2.push(json!({"ustar": us, "decided_by_first_draw": true}));
                continue;
            }
            let acc = (0..n)
                .into_par_iter()
                .fold(
                    || Acc::new(n),
                    |mut ac, i| {
                        if too_many_hangs() {
                            return ac;
                        }
                        let x = (i as f64 + ox) / nf;
                        let o = run(&e, &[us, x]);
                        ac.calls += 1;
                        match o {
                            Obs::Ret(d, v) if d <= 2 => {
                                if in_range(v) {
                                    ac.strip[cell_of(v, n) as usize] += 1;
                                } else {
                                    ac.problem("range", &[us, x], &o);
                                }
                            }
                            _ => {
                                for j in 0..n {
                                    if too_many_hangs() {
                                        break;
                                    }
                                    let y = (j as f64 + oy) / nf;
                                    let t = [us, x, y];
                                    let o = run(&e, &t);
                                    ac.calls += 1;
                                    match o {
                                        Obs::Ret(d, v) if d <= 3 => {
                                            if in_range(v) {
                                                ac.acc[cell_of(v, n) as usize] += 1;
                                            } else {
                                                ac.problem("range", &t, &o);
                                            }
                                        }
                                        Obs::Ret(_, v) => {
                                            ac.rej += 1;
                                            if !in_range(v) {
                                                ac.problem("range", &t, &o);
                                            }
                                            if ac.rejected_examples.len() < 4 && (i * 31 + j * 17) % 97 == 0 {
                                                ac.rejected_examples.push(t);
                                            }
                                        }
                                        Obs::Hang => ac.problem("hang", &t, &o),
                                        Obs::Panic(_) => ac.problem("panic", &t, &o),
                                    }
                                }
                            }
                        }
                        ac
                    },
                )
                .reduce(|| Acc::new(n), |a, b| a.merge(b));
            // restart independence: after a rejected pass the output depends on the following draws only
            let mut restart_checked = 0u64;
            let mut restart_diff: Vec<Value> = Vec::new();
            for t in &acc.rejected_examples {
                for _ in 0..8 {
                    let tail: Vec<f64> = (0..8).map(|_| rng.random::<f64>()).collect();
                    let mut t1 = t.to_vec();
                    t1.extend(&tail);
                    let mut t2 = vec![us];
                    t2.extend(&tail);
                    let (a1, a2) = (run(&e, &t1), run(&e, &t2));
                    restart_checked += 1;
                    let same = match (&a1, &a2) {
                        (Obs::Ret(d1, v1), Obs::Ret(d2, v2)) => d1 == &(d2 + 2) && v1.to_bits() == v2.to_bits(),
                        _ => false,
                    };
                    if !same && restart_diff.len() < 3 {
                        restart_diff.push(json!({"with_rejected_pass": t1, "without": t2,
                                                  "a": format!("{:?}", a1), "b": format!("{:?}", a2)}));
                    }
                }
            }
            stage2.push(json!({"ustar": us, "strip": acc.strip, "acc": acc.acc, "rej": acc.rej, "calls": acc.calls,
                               "bad": acc.bad, "nbad": acc.nbad, "nhang": acc.nhang, "npanic": acc.npanic,
                               "restart_checked": restart_checked, "restart_diff": restart_diff}));
        }
        // ---- edge tapes: the ends of the generator range in every position
        let edge = [0.0, 1.0 / 4503599627370496.0, 0.25, 0.5, TOP];
        let mut st3 = Acc::new(n);
        for &u in &edge {
            for &x in &edge {
                for &y in &edge {
                    for &z in &edge {
                        let t = [u, x, y, z, z];
                        let o = run(&e, &t);
                        st3.calls += 1;
                        match o {
                            Obs::Ret(_, v) => {
                                if !in_range(v) {
                                    st3.problem("range", &t, &o)
                                }
                            }
                            Obs::Hang => st3.problem("hang", &t, &o),
                            Obs::Panic(_) => st3.problem("panic", &t, &o),
                        }
                    }
                }
            }
        }
        res.push(json!({"id": l["id"], "value": lam, "n": n, "offsets": [o1, ox, oy],
            "first_count": first_count, "first_hist": first_hist, "ratio_min": ratio_min, "ratio_max": ratio_max,
            "stage1": {"calls": st1.calls, "bad": st1.bad, "nbad": st1.nbad, "nhang": st1.nhang, "npanic": st1.npanic},
            "stage2": stage2, "aborted_after_hangs": too_many_hangs(),
            "edges": {"calls": st3.calls, "bad": st3.bad, "nbad": st3.nbad, "nhang": st3.nhang, "npanic": st3.npanic}}));
    }
    write_json(&a.str("out"), &json!({"lams": res}));
}

/// one tape: tape=<comma separated units> lambda=<f64> (used by --replay)
fn one(a: &Args) {
    silence_panics();
    let lam = a.f64_or("lambda", 1.0);
    let us: Vec<f64> = a.str("tape").split(',').map(|s| s.parse().unwrap_or_else(|_| tool_error("bad tape"))).collect();
    let v = match make(lam) {
        Ok(e) => match run(&e, &us) {
            Obs::Ret(d, v) => json!({"outcome": "ok", "draws": d, "val": v, "inrange": in_range(v)}),
            Obs::Hang => json!({"outcome": "hang"}),
            Obs::Panic(m) => json!({"outcome": "panic", "msg": m}),
        },
        Err(m) => json!({"outcome": "panic", "msg": format!("new: {}", m)}),
    };
    println!("{}", v);
}

/// law out=<json> seed=N n=N : end-to-end law with a real generator (every path of the sampler, including long
/// runs of rejections): sup distance between the empirical distribution function of n samples and the target, per rate;
/// plus threshold probes: the generator words around the first-branch threshold 1/c1 for many rates must give values
/// in [0,1).  The driver compares the distances with the Dvoretzky-Kiefer-Wolfowitz radius.
fn law(a: &Args) {
    use rand::SeedableRng;
    silence_panics();
    let seed = a.u64_or("seed", 1);
    let n = a.usize_or("n", 1_000_000);
    let mut rates: Vec<f64> = vec![1e-9, 1e-6, 1e-3, 0.5, 1.0, 5.0, 10.0, 20.0, 30.0, 50.0];
    for m in [2.0f64, 3.0, 4.0, 13.0, 16.0, 1024.0] {
        rates.push((m / (m - 1.0)).ln());
    }
    use rayon::prelude::*;
    let laws: Vec<Value> = rates
        .par_iter()
        .enumerate()
        .map(|(i, lam)| {
            let e = match make(*lam) {
                Ok(e) => e,
                Err(m) => return json!({"lambda": lam, "panic": m}),
            };
            let mut rng = rand_xoshiro::Xoshiro256PlusPlus::seed_from_u64(seed.wrapping_mul(977).wrapping_add(i as u64));
            let mut xs: Vec<f64> = Vec::with_capacity(n);
            let mut out_of_range = 0u64;
            for k in 0..n {
                // both ways of drawing: the method call the sketchers use and the generator-side call of the trait
                let v = if k % 2 == 0 { e.sample(&mut rng) } else { rng.sample(&e) };
                if !in_range(v) {
                    out_of_range += 1;
                } else {
                    xs.push(v);
                }
            }
            xs.sort_by(|a, b| a.partial_cmp(b).unwrap());
            let nn = xs.len() as f64;
            let den = (-lam).exp_m1();
            let mut d: f64 = 0.0;
            for (k, x) in xs.iter().enumerate() {
                let f = (-lam * x).exp_m1() / den;
                d = d.max((f - k as f64 / nn).abs()).max(((k + 1) as f64 / nn - f).abs());
            }
            json!({"lambda": lam, "n": xs.len(), "ks": d, "out_of_range": out_of_range})
        })
        .collect();
    // threshold probes around 1/c1 for the rates ProbMinHash3 uses (m = 2..6000) and a geometric grid
    let mut prates: Vec<f64> = (2..6000).map(|m| (m as f64 / (m as f64 - 1.0)).ln()).collect();
    let mut l = 1e-9;
    while l < 60.0 {
        prates.push(l);
        l *= 1.013;
    }
    let mut bad: Vec<Value> = Vec::new();
    let mut probes = 0u64;
    for lam in &prates {
        if let Ok(e) = make(*lam) {
            let c1 = lam.exp_m1() / lam;
            let k0 = ((1.0 / c1) * (1u64 << 52) as f64) as i64;
            for d in -12i64..=12 {
                let k = k0 + d;
                if k < 0 || k >= (1i64 << 52) {
                    continue;
                }
                let u = k as f64 / (1u64 << 52) as f64;
                probes += 1;
                match run(&e, &[u, 0.25, 0.25]) {
                    Obs::Ret(_, v) => {
                        if !in_range(v) && bad.len() < 20 {
                            bad.push(json!({"lambda": lam, "u_numerator": k.to_string(), "value": v}));
                        }
                    }
                    Obs::Hang => {}
                    Obs::Panic(m) => {
                        if bad.len() < 20 {
                            bad.push(json!({"lambda": lam, "u_numerator": k.to_string(), "panic": m}));
                        }
                    }
                }
            }
        }
    }
    write_json(&a.str("out"), &json!({"laws": laws, "probes": probes, "probe_failures": bad}));
}

fn main() {
    let argv: Vec<String> = std::env::args().collect();
    if argv.len() < 2 {
        tool_error("usage: c16 <replay|record|quad|one> key=value ...");
    }
    let a = Args::parse(&argv[2..]);
    match argv[1].as_str() {
        "replay" => replay(&a),
        "record" => record(&a),
        "quad" => quad(&a),
        "one" => one(&a),
        "law" => law(&a),
        other => tool_error(&format!("unknown subcommand {}", other)),
    }
}
