//! C17: lazy Fisher-Yates shuffle (src/fyshuffle.rs).
//!  replay   : every transition of the TLC state graph of FYShuffle.tla replayed on a real FYshuffle
//!  behav    : TLC behaviours "history, reset, one block" replayed; same tape on fresh objects
//!  meta     : random histories / tapes at larger m, history independence metamorphically
//!  record   : random and edge-value runs recorded as ndjson for TraceFYShuffle.tla
//!  measure  : pre-image measure of every draw order through the real code on a fine grid
//!  scenario : re-execution of one stored violation scenario
//!
//! A generator output is always given as the 52-bit numerator n of xi = n * 2^-52
//! (rand 0.9 `Uniform<f64>::new(0.,1.)` returns (next_u64() >> 12) * 2^-52).
//!
//! Verdict level: `issues` are property-level facts (panic, value out of range, value repeated
//! in a block, get_values() not a permutation, draws depending on the history before a reset);
//! differences with the specification's particular xi -> index map are `drift` only.
use pmh_verif::util::*;
use probminhash::fyshuffle::FYshuffle;
use rand::{Rng, RngCore};
use serde_json::{json, Value};
use std::collections::BTreeMap;

const ONE: u64 = 1u64 << 52;

/// generator that returns one fixed 52-bit numerator (no allocation); counts the words consumed
struct Fixed {
    word: u64,
    used: u32,
}

impl Fixed {
    fn new(n: u64) -> Fixed {
        Fixed { word: n << 12, used: 0 }
    }
}

impl RngCore for Fixed {
    fn next_u32(&mut self) -> u32 {
        (self.next_u64() >> 32) as u32
    }
    fn next_u64(&mut self) -> u64 {
        self.used += 1;
        if self.used == 1 {
            return self.word;
        }
        // a sampler that rejects a word and draws again must not see the same word for ever: the following words are a
        // fixed pseudo-random function of the first one (the code under test consumes exactly one word per draw today)
        let mut z = self.word.wrapping_add(0x9E37_79B9_7F4A_7C15u64.wrapping_mul(self.used as u64));
        z = (z ^ (z >> 30)).wrapping_mul(0xBF58_476D_1CE4_E5B9);
        z = (z ^ (z >> 27)).wrapping_mul(0x94D0_49BB_1331_11EB);
        z ^ (z >> 31)
    }
    fn fill_bytes(&mut self, dest: &mut [u8]) {
        for chunk in dest.chunks_mut(8) {
            let v = self.next_u64().to_le_bytes();
            chunk.copy_from_slice(&v[..chunk.len()]);
        }
    }
}

/// mid-point of cell u of a grid of r cells, as numerator
fn cell_mid(u: u64, r: u64) -> u64 {
    (((2 * u + 1) as u128 * ONE as u128) / (2 * r) as u128) as u64
}

/// a point of cell u, clear of the cell boundaries
fn cell_any(u: u64, r: u64, rng: &mut impl Rng) -> u64 {
    let lo = ((u as u128 * ONE as u128 + r as u128 - 1) / r as u128) as u64;
    let hi = (((u + 1) as u128 * ONE as u128) / r as u128) as u64; // exclusive
    let margin = (hi - lo) / 64;
    rng.random_range(lo + margin..hi - margin)
}

/// first numerator of cell c when k cells remain: smallest n with n*k >= c*2^52
fn boundary(c: u64, k: u64) -> u64 {
    ((c as u128 * ONE as u128 + k as u128 - 1) / k as u128) as u64
}

/// the block structure the property speaks about, kept beside the real object
struct Watch {
    m: usize,
    count: usize,
    seen: Vec<bool>,
    order: Vec<usize>,
}

impl Watch {
    fn new(m: usize) -> Watch {
        Watch { m, count: 0, seen: vec![false; m], order: Vec::new() }
    }
    fn restart(&mut self) {
        self.count = 0;
        self.seen.iter_mut().for_each(|x| *x = false);
        self.order.clear();
    }
    /// position in the block of the next draw
    fn pos(&self) -> usize {
        if self.count >= self.m {
            0
        } else {
            self.count
        }
    }
}

fn is_perm(v: &[usize], m: usize) -> bool {
    if v.len() != m {
        return false;
    }
    let mut seen = vec![false; m];
    for &x in v {
        if x >= m || seen[x] {
            return false;
        }
        seen[x] = true;
    }
    true
}

/// a real FYshuffle with the property-level watch
struct Real {
    f: FYshuffle,
    w: Watch,
    issues: Vec<String>,
    order_drift: u64,
    tape_irregular: u64,
    dead: bool,
}

impl Real {
    fn new(m: usize) -> Result<Real, String> {
        let f = catch(|| FYshuffle::new(m))?;
        Ok(Real { f, w: Watch::new(m), issues: Vec::new(), order_drift: 0, tape_irregular: 0, dead: false })
    }
    fn values(&self) -> Vec<usize> {
        self.f.get_values().clone()
    }
    fn block_end(&self) -> bool {
        self.w.count == self.w.m
    }
    fn next(&mut self, n: u64) -> Result<usize, String> {
        if self.dead {
            return Err("object unusable after a panic".to_string());
        }
        let mut g = Fixed::new(n);
        let f = &mut self.f;
        match catch(|| f.next(&mut g)) {
            Err(e) => {
                self.issues.push(format!("panic in next() at block position {} with xi numerator {}: {}", self.w.pos(), n, e));
                self.dead = true;
                Err(e)
            }
            Ok(val) => {
                if g.used != 1 {
                    self.tape_irregular += 1;
                }
                if self.w.count >= self.w.m {
                    self.w.restart();
                }
                let m = self.w.m;
                if val >= m {
                    self.issues.push(format!("next() returned {} which is not in 0..{}", val, m));
                } else if self.w.seen[val] {
                    self.issues.push(format!(
                        "next() returned {} twice in one block of {} draws (draws so far {:?})",
                        val, m, self.w.order
                    ));
                } else {
                    self.w.seen[val] = true;
                }
                self.w.order.push(val);
                self.w.count += 1;
                if self.w.count == m {
                    let gv = self.f.get_values();
                    if !is_perm(gv, m) {
                        self.issues.push(format!("get_values() after a full block is not a permutation: {:?}", gv));
                    } else if *gv != self.w.order {
                        self.order_drift += 1;
                    }
                }
                Ok(val)
            }
        }
    }
    fn reset(&mut self) -> Result<(), String> {
        if self.dead {
            return Err("object unusable after a panic".to_string());
        }
        let f = &mut self.f;
        match catch(|| f.reset()) {
            Err(e) => {
                self.issues.push(format!("panic in reset(): {}", e));
                self.dead = true;
                Err(e)
            }
            Ok(()) => {
                self.w.restart();
                Ok(())
            }
        }
    }
    /// op >= 0: next with that numerator, op < 0: reset
    fn apply(&mut self, op: i64) -> Result<Option<usize>, String> {
        if op < 0 {
            self.reset().map(|_| None)
        } else {
            self.next(op as u64).map(Some)
        }
    }
}

fn usizes(v: &Value) -> Vec<usize> {
    v.as_array().unwrap().iter().map(|x| x.as_u64().unwrap() as usize).collect()
}

fn pairs(v: &Value) -> Vec<(i64, i64)> {
    v.as_array()
        .unwrap()
        .iter()
        .map(|p| (p[0].as_i64().unwrap(), p[1].as_i64().unwrap()))
        .collect()
}

struct Report {
    evaluations: u64,
    drift: u64,
    drift_examples: Vec<Value>,
    violations: Vec<Value>,
    nviol: u64,
    tape_irregular: u64,
    order_drift: u64,
}

impl Report {
    fn new() -> Report {
        Report { evaluations: 0, drift: 0, drift_examples: Vec::new(), violations: Vec::new(), nviol: 0, tape_irregular: 0, order_drift: 0 }
    }
    fn drift(&mut self, ex: Value) {
        self.drift += 1;
        if self.drift_examples.len() < 5 {
            self.drift_examples.push(ex);
        }
    }
    fn violation(&mut self, what: &str, m: usize, issues: &[String], scenario: Value) {
        self.nviol += 1;
        if self.violations.len() < 20 {
            self.violations.push(json!({"what": what, "m": m, "issues": issues, "scenario": scenario}));
        }
    }
    fn absorb(&mut self, r: &Real) {
        self.tape_irregular += r.tape_irregular;
        self.order_drift += r.order_drift;
    }
    fn to_json(&self) -> Value {
        json!({"evaluations": self.evaluations, "drift": self.drift, "drift_examples": self.drift_examples,
               "violations": self.violations, "nviol": self.nviol, "tape_irregular": self.tape_irregular,
               "order_drift": self.order_drift})
    }
}

/// replay in=<ndjson of TR records> out=<json> seed=N
/// record: {m, r, h: path to the source state [[u,ret]..], sv, sl, a: [u,ret], tv, tl}
fn replay(a: &Args) {
    silence_panics();
    let recs = read_ndjson(&a.str("in"));
    let mut rng = rng_from(a.u64_or("seed", 1), 17);
    let mut rep = Report::new();
    let mut calls = 0u64;
    for r in &recs {
        rep.evaluations += 1;
        let m = r["m"].as_u64().unwrap() as usize;
        let rr = r["r"].as_u64().unwrap();
        let path = pairs(&r["h"]);
        let sv = usizes(&r["sv"]);
        let tv = usizes(&r["tv"]);
        let act = (r["a"][0].as_i64().unwrap(), r["a"][1].as_i64().unwrap());
        let mut ops: Vec<i64> = Vec::new();
        let mut obj = match Real::new(m) {
            Ok(o) => o,
            Err(e) => {
                rep.violation("panic", m, &[format!("panic in new({}): {}", m, e)], json!({"kind": "ops", "m": m, "ops": []}));
                continue;
            }
        };
        let mut drifted: Vec<String> = Vec::new();
        let mut ok = true;
        for &(u, ret) in &path {
            let op = if u < 0 { -1 } else { cell_any(u as u64, rr, &mut rng) as i64 };
            ops.push(op);
            calls += 1;
            match obj.apply(op) {
                Err(_) => {
                    ok = false;
                    break;
                }
                Ok(Some(val)) => {
                    if val as i64 != ret {
                        drifted.push(format!("path: next(u={}) returned {}, specification {}", u, val, ret));
                    }
                }
                Ok(None) => {}
            }
        }
        if ok {
            if obj.values() != sv {
                drifted.push(format!("source state: get_values() {:?}, specification {:?}", obj.values(), sv));
            }
            // the action under test is fed the exact cell mid-point
            let op = if act.0 < 0 { -1 } else { cell_mid(act.0 as u64, rr) as i64 };
            ops.push(op);
            calls += 1;
            match obj.apply(op) {
                Err(_) => {}
                Ok(res) => {
                    if let Some(val) = res {
                        if val as i64 != act.1 {
                            drifted.push(format!("next(u={}) returned {}, specification {}", act.0, val, act.1));
                        }
                    }
                    if obj.values() != tv {
                        drifted.push(format!("after the action get_values() {:?}, specification {:?}", obj.values(), tv));
                    }
                }
            }
        }
        if !drifted.is_empty() {
            rep.drift(json!({"rec": r, "ops": ops, "diff": drifted}));
        }
        if !obj.issues.is_empty() {
            let what = if obj.dead { "panic" } else { "block" };
            rep.violation(what, m, &obj.issues, json!({"kind": "ops", "m": m, "ops": ops}));
        }
        rep.absorb(&obj);
    }
    let mut j = rep.to_json();
    j["calls"] = json!(calls);
    write_json(&a.str("out"), &j);
}

struct Case {
    issues: Vec<String>,
    dead: bool,
    post_a: Vec<usize>,
    values_before_reset: Vec<usize>,
    tape_irregular: u64,
    order_drift: u64,
}

/// A: new, history, reset, tape.  B: new, tape.  C: new, reset, tape.  D: new, tape, reset, tape.
/// All four must produce the same draws from the tape and the same get_values() at the end.
fn hist_indep_case(m: usize, history: &[i64], tape: &[u64]) -> Case {
    let mut c = Case { issues: Vec::new(), dead: false, post_a: Vec::new(), values_before_reset: Vec::new(), tape_irregular: 0, order_drift: 0 };
    let mut outs: Vec<(String, Vec<usize>, Vec<usize>)> = Vec::new();
    for variant in ["history+reset", "new", "new+reset", "tape+reset"] {
        let mut obj = match Real::new(m) {
            Ok(o) => o,
            Err(e) => {
                c.issues.push(format!("panic in new({}): {}", m, e));
                c.dead = true;
                return c;
            }
        };
        let mut pre: Vec<i64> = Vec::new();
        match variant {
            "history+reset" => {
                pre.extend_from_slice(history);
                pre.push(-1);
            }
            "new+reset" => pre.push(-1),
            "tape+reset" => {
                pre.extend(tape.iter().map(|&n| n as i64));
                pre.push(-1);
            }
            _ => {}
        }
        let mut alive = true;
        for (i, &op) in pre.iter().enumerate() {
            if variant == "history+reset" && i + 1 == pre.len() {
                c.values_before_reset = obj.values();
            }
            if obj.apply(op).is_err() {
                alive = false;
                break;
            }
        }
        let mut rets: Vec<usize> = Vec::new();
        if alive {
            for &n in tape {
                match obj.next(n) {
                    Ok(v) => rets.push(v),
                    Err(_) => break,
                }
            }
        }
        for is in &obj.issues {
            c.issues.push(format!("[{}] {}", variant, is));
        }
        c.dead |= obj.dead;
        c.tape_irregular += obj.tape_irregular;
        c.order_drift += obj.order_drift;
        let gv = if obj.dead { Vec::new() } else { obj.values() };
        outs.push((variant.to_string(), rets, gv));
    }
    c.post_a = outs[0].1.clone();
    if !c.dead {
        for o in &outs[1..] {
            if o.1 != outs[0].1 {
                c.issues.push(format!(
                    "history dependence: the same generator outputs give draws {:?} after [{}] but {:?} after [{}]",
                    outs[0].1, outs[0].0, o.1, o.0
                ));
            } else if o.2 != outs[0].2 && tape.len() % m == 0 {
                c.issues.push(format!(
                    "history dependence: get_values() after the same full blocks is {:?} after [{}] but {:?} after [{}]",
                    outs[0].2, outs[0].0, o.2, o.0
                ));
            }
        }
    }
    c
}

/// behav in=<ndjson of BH records> out=<json> seed=N
/// record: {m, r, h: [[u,ret].., [-1,-1], [u,ret] x m], v}
fn behav(a: &Args) {
    silence_panics();
    let recs = read_ndjson(&a.str("in"));
    let mut rng = rng_from(a.u64_or("seed", 1), 1717);
    let mut rep = Report::new();
    let mut nontrivial = 0u64;
    let mut calls = 0u64;
    for (i, r) in recs.iter().enumerate() {
        rep.evaluations += 1;
        let m = r["m"].as_u64().unwrap() as usize;
        let rr = r["r"].as_u64().unwrap();
        let h = pairs(&r["h"]);
        let p = h.iter().rposition(|x| x.0 < 0).unwrap_or_else(|| tool_error("behaviour without reset"));
        let history: Vec<i64> = h[..p].iter().map(|&(u, _)| if u < 0 { -1 } else { cell_any(u as u64, rr, &mut rng) as i64 }).collect();
        let tape: Vec<u64> = h[p + 1..]
            .iter()
            .map(|&(u, _)| if i % 2 == 0 { cell_mid(u as u64, rr) } else { cell_any(u as u64, rr, &mut rng) })
            .collect();
        let want: Vec<usize> = h[p + 1..].iter().map(|x| x.1 as usize).collect();
        let c = hist_indep_case(m, &history, &tape);
        calls += (history.len() + 5 * tape.len()) as u64;
        rep.tape_irregular += c.tape_irregular;
        rep.order_drift += c.order_drift;
        let ident: Vec<usize> = (0..m).collect();
        if !history.is_empty() && (c.values_before_reset != ident || history.len() % m != 0) {
            nontrivial += 1;
        }
        if !c.dead && c.post_a != want {
            rep.drift(json!({"rec": r, "tape": tape, "diff": format!("draws after reset {:?}, specification {:?}", c.post_a, want)}));
        }
        if !c.issues.is_empty() {
            let what = if c.dead { "panic" } else if c.issues.iter().any(|s| s.contains("history dependence")) { "histindep" } else { "block" };
            rep.violation(what, m, &c.issues, json!({"kind": "histindep", "m": m, "history": history, "tape": tape}));
        }
    }
    let mut j = rep.to_json();
    j["nontrivial"] = json!(nontrivial);
    j["calls"] = json!(calls);
    write_json(&a.str("out"), &j);
}

/// a numerator for a draw at block position l0: random, top, zero or next to a cell boundary
fn pick_n(m: usize, l0: usize, rng: &mut impl Rng) -> u64 {
    let k = (m - l0) as u64;
    match rng.random_range(0..10) {
        0 => ONE - 1,
        1 => 0,
        2 | 3 if k > 1 => {
            let c = rng.random_range(1..k);
            let d = rng.random_range(-2i64..=2);
            (boundary(c, k) as i64 + d) as u64
        }
        _ => rng.random_range(0..ONE),
    }
}

/// meta out=<json> seed=N cases=C maxm=M
fn meta(a: &Args) {
    silence_panics();
    let mut rng = rng_from(a.u64_or("seed", 1), 171717);
    let cases = a.usize_or("cases", 1000);
    let maxm = a.usize_or("maxm", 64);
    let mut rep = Report::new();
    let mut nontrivial = 0u64;
    let mut calls = 0u64;
    let mut sample: Option<Value> = None;
    for case in 0..cases {
        rep.evaluations += 1;
        let m = match case % 6 {
            0 => 1 + case % 3,
            1 => maxm,
            _ => rng.random_range(1..=maxm),
        };
        // history: 0..3m draws with occasional resets; the watch position is tracked to aim at boundaries
        let hl = match case % 4 {
            0 => rng.random_range(0..=m),
            1 => m,
            _ => rng.random_range(0..=3 * m),
        };
        let mut history: Vec<i64> = Vec::new();
        let mut pos = 0usize;
        for _ in 0..hl {
            if rng.random_range(0..12) == 0 {
                history.push(-1);
                pos = 0;
            } else {
                history.push(pick_n(m, pos % m, &mut rng) as i64);
                pos += 1;
            }
        }
        let tl = match case % 3 {
            0 => m,
            1 => rng.random_range(1..=3 * m),
            _ => 2 * m,
        };
        let tape: Vec<u64> = (0..tl).map(|i| pick_n(m, i % m, &mut rng)).collect();
        let c = hist_indep_case(m, &history, &tape);
        calls += (history.len() + 5 * tape.len()) as u64;
        rep.tape_irregular += c.tape_irregular;
        rep.order_drift += c.order_drift;
        let ident: Vec<usize> = (0..m).collect();
        let nt = history.iter().any(|&x| x >= 0) && (c.values_before_reset != ident || pos % m != 0);
        if nt {
            nontrivial += 1;
            if sample.is_none() && m <= 6 {
                sample = Some(json!({"kind": "histindep", "m": m, "history": history, "tape": tape, "draws": c.post_a}));
            }
        }
        if !c.issues.is_empty() {
            let what = if c.dead { "panic" } else if c.issues.iter().any(|s| s.contains("history dependence")) { "histindep" } else { "block" };
            rep.violation(what, m, &c.issues, json!({"kind": "histindep", "m": m, "history": history, "tape": tape}));
        }
    }
    let mut j = rep.to_json();
    j["nontrivial"] = json!(nontrivial);
    j["calls"] = json!(calls);
    j["sample"] = sample.unwrap_or(Value::Null);
    write_json(&a.str("out"), &j);
}

struct Recorder {
    out: Out,
    run: u64,
    near: u64,
    disagree: u64,
    disagree_examples: Vec<Value>,
    events: u64,
    panics: u64,
}

impl Recorder {
    fn start(&mut self, m: usize) -> Option<Real> {
        self.run += 1;
        match Real::new(m) {
            Ok(o) => {
                let mut ev = json!({"op": "new", "run": self.run, "m": m});
                if m <= 16 {
                    ev["v"] = json!(o.values());
                }
                self.out.line(&ev);
                Some(o)
            }
            Err(e) => {
                self.out.line(&json!({"op": "panic", "run": self.run, "m": m, "msg": e}));
                self.panics += 1;
                None
            }
        }
    }
    fn reset(&mut self, o: &mut Real) -> bool {
        match o.reset() {
            Ok(()) => {
                let mut ev = json!({"op": "reset", "run": self.run});
                if o.w.m <= 16 {
                    ev["v"] = json!(o.values());
                }
                self.out.line(&ev);
                self.events += 1;
                true
            }
            Err(e) => {
                self.out.line(&json!({"op": "panic", "run": self.run, "call": "reset", "msg": e}));
                self.panics += 1;
                false
            }
        }
    }
    fn next(&mut self, o: &mut Real, n: u64) -> bool {
        let m = o.w.m;
        let l0 = o.w.pos();
        let k = (m - l0) as u128;
        let before = o.values();
        match o.next(n) {
            Ok(val) => {
                let mut ev = json!({"op": "next", "run": self.run, "n": n, "n2": n >> 32, "n1": (n >> 16) & 0xffff,
                                    "n0": n & 0xffff, "ret": val});
                if m <= 16 || o.block_end() {
                    ev["v"] = json!(o.values());
                }
                self.out.line(&ev);
                self.events += 1;
                // advisory: the exact integer floor against the index the real code used
                let prod = n as u128 * k;
                let off = (prod >> 52) as usize;
                let rem = prod & ((1u128 << 52) - 1);
                if rem < (1u128 << 32) || rem >= (1u128 << 52) - (1u128 << 32) {
                    self.near += 1;
                }
                if let Some(p) = before.iter().position(|&x| x == val) {
                    if p != l0 + off {
                        self.disagree += 1;
                        if self.disagree_examples.len() < 5 {
                            self.disagree_examples.push(json!({"m": m, "pos": l0, "n": n, "exact_offset": off, "real_index": p}));
                        }
                    }
                }
                true
            }
            Err(e) => {
                self.out.line(&json!({"op": "panic", "run": self.run, "call": "next", "n": n, "pos": l0, "msg": e}));
                self.panics += 1;
                false
            }
        }
    }
}

/// record out=<ndjson> sum=<json> seed=N runs=R maxm=M len=L edgem=E extra=m1,m2
fn record(a: &Args) {
    silence_panics();
    let mut rng = rng_from(a.u64_or("seed", 1), 17171717);
    let runs = a.usize_or("runs", 20);
    let maxm = a.usize_or("maxm", 64);
    let len = a.usize_or("len", 100);
    let edgem = a.usize_or("edgem", 8);
    let extra: Vec<usize> = a.str_or("extra", "").split(',').filter(|s| !s.is_empty()).map(|s| s.parse().unwrap()).collect();
    let mut rec = Recorder { out: Out::create(&a.str("out")), run: 0, near: 0, disagree: 0, disagree_examples: Vec::new(), events: 0, panics: 0 };
    rec.out.line(&json!({"kind": "C17", "free": false}));
    // (a) systematic edge values: every cell boundary c/k, one numerator below, on it, one above
    let mut edge_ms: Vec<usize> = (1..=edgem).collect();
    edge_ms.extend(extra.iter());
    for &m in &edge_ms {
        let mut o = match rec.start(m) {
            Some(o) => o,
            None => continue,
        };
        let mut alive = true;
        // all-top and all-zero blocks first (the very first block runs on the object as `new` left it)
        for blockkind in 0..2 {
            for _ in 0..m {
                if alive {
                    alive = rec.next(&mut o, if blockkind == 0 { ONE - 1 } else { 0 });
                }
            }
        }
        let nblocks = std::cmp::max(1, 3 * (m.saturating_sub(1)));
        for b in 0..nblocks {
            if !alive {
                break;
            }
            if b % 2 == 0 {
                alive = rec.reset(&mut o);
            }
            for l0 in 0..m {
                if !alive {
                    break;
                }
                let k = (m - l0) as u64;
                let n = if k == 1 {
                    match b % 3 {
                        0 => 0,
                        1 => ONE - 1,
                        _ => rng.random_range(0..ONE),
                    }
                } else {
                    let c = 1 + (b as u64 % (k - 1));
                    let d = [-1i64, 0, 1][(b / (k as usize - 1)) % 3];
                    (boundary(c, k) as i64 + d) as u64
                };
                alive = rec.next(&mut o, n);
            }
        }
    }
    // (b) random runs: random tapes with edge values mixed in, resets at random points
    for run in 0..runs {
        let m = match run % 5 {
            0 => 1 + run % 4,
            1 => maxm,
            2 => 1usize << rng.random_range(0..=(maxm as f64).log2() as u32),
            _ => rng.random_range(1..=maxm),
        };
        let mut o = match rec.start(m) {
            Some(o) => o,
            None => continue,
        };
        // every other run a second, unobserved shuffle (same or another size) is used between the steps of the observed one
        let mut decoy = if run % 2 == 1 {
            let dm = if run % 4 == 1 { m } else { rng.random_range(1..=maxm) };
            catch(|| FYshuffle::new(dm)).ok().map(|f| (f, dm))
        } else {
            None
        };
        for _ in 0..len {
            if let Some((d, dm)) = decoy.as_mut() {
                let n = pick_n(*dm, rng.random_range(0..*dm), &mut rng);
                let mut g = Fixed::new(n);
                let isreset = rng.random_range(0..10) == 0;
                let _ = catch(|| {
                    if isreset {
                        d.reset();
                    } else {
                        let _ = d.next(&mut g);
                    }
                });
            }
            let ok = if rng.random_range(0..15) == 0 {
                rec.reset(&mut o)
            } else {
                let n = pick_n(m, o.w.pos(), &mut rng);
                rec.next(&mut o, n)
            };
            if !ok {
                break;
            }
        }
    }
    let sum = json!({"runs": rec.run, "events": rec.events, "near_boundary": rec.near, "rounding_disagreements": rec.disagree,
                     "disagree_examples": rec.disagree_examples, "panics": rec.panics});
    rec.out.finish();
    write_json(&a.str("sum"), &sum);
}

/// measure m=M n=N out=<json>: every draw of the first m-1 positions runs over the N cell mid-points,
/// the last one over {0, 1/2, 1-2^-52}; counts the tapes that produce each draw order
fn measure(a: &Args) {
    use rayon::prelude::*;
    silence_panics();
    let m = a.usize_or("m", 3);
    let n = a.u64_or("n", 240);
    let last: [u64; 3] = [0, ONE / 2, ONE - 1];
    let mids: Vec<u64> = (0..n).map(|c| cell_mid(c, n)).collect();
    let free = m - 1;
    // the first draw is split over threads, the remaining free draws are a mixed radix counter
    let firsts: Vec<Option<u64>> = if free == 0 { vec![None] } else { (0..n).map(Some).collect() };
    type Part = (BTreeMap<Vec<usize>, u64>, Vec<Value>, u64, u64);
    let parts: Vec<Part> = firsts
        .par_iter()
        .map(|first| {
            let mut counts: BTreeMap<Vec<usize>, u64> = BTreeMap::new();
            let mut bad: Vec<Value> = Vec::new();
            let mut nbad = 0u64;
            let mut total = 0u64;
            let rest = free.saturating_sub(1);
            let mut digits = vec![0u64; rest];
            let mut tape: Vec<u64> = vec![0; m];
            'outer: loop {
                if let Some(f) = first {
                    tape[0] = mids[*f as usize];
                }
                for i in 0..rest {
                    tape[1 + i] = mids[digits[i] as usize];
                }
                for &ln in &last {
                    total += 1;
                    tape[m - 1] = ln;
                    let res = catch(|| {
                        let mut f = FYshuffle::new(m);
                        let mut order = Vec::with_capacity(m);
                        for &x in &tape {
                            let mut g = Fixed::new(x);
                            order.push(f.next(&mut g));
                        }
                        order
                    });
                    match res {
                        Ok(order) if is_perm(&order, m) => *counts.entry(order).or_insert(0) += 1,
                        Ok(order) => {
                            nbad += 1;
                            if bad.len() < 5 {
                                bad.push(json!({"tape": tape, "draws": order}));
                            }
                        }
                        Err(e) => {
                            nbad += 1;
                            if bad.len() < 5 {
                                bad.push(json!({"tape": tape, "panic": e}));
                            }
                        }
                    }
                }
                let mut i = 0;
                loop {
                    if i == rest {
                        break 'outer;
                    }
                    digits[i] += 1;
                    if digits[i] < n {
                        break;
                    }
                    digits[i] = 0;
                    i += 1;
                }
            }
            (counts, bad, nbad, total)
        })
        .collect();
    let mut counts: BTreeMap<Vec<usize>, u64> = BTreeMap::new();
    let mut bad: Vec<Value> = Vec::new();
    let mut nbad = 0u64;
    let mut total = 0u64;
    for (c, b, nb, t) in parts {
        for (k, v) in c {
            *counts.entry(k).or_insert(0) += v;
        }
        for x in b {
            if bad.len() < 5 {
                bad.push(x);
            }
        }
        nbad += nb;
        total += t;
    }
    let cj: Vec<Value> = counts.iter().map(|(k, v)| json!([k, v])).collect();
    write_json(&a.str("out"), &json!({"m": m, "n": n, "total": total, "counts": cj, "not_permutation": nbad, "bad_examples": bad}));
}

/// scenario in=<json> out=<json>: {"kind":"ops","m":..,"ops":[..]} or {"kind":"histindep","m":..,"history":[..],"tape":[..]}
fn scenario(a: &Args) {
    silence_panics();
    let sc = read_json(&a.str("in"));
    let m = sc["m"].as_u64().unwrap() as usize;
    let mut issues: Vec<String> = Vec::new();
    let mut log: Vec<Value> = Vec::new();
    match sc["kind"].as_str().unwrap_or("") {
        "ops" => {
            let ops: Vec<i64> = sc["ops"].as_array().unwrap().iter().map(|x| x.as_i64().unwrap()).collect();
            match Real::new(m) {
                Err(e) => issues.push(format!("panic in new({}): {}", m, e)),
                Ok(mut o) => {
                    for &op in &ops {
                        let r = o.apply(op);
                        log.push(json!({"op": op, "ret": format!("{:?}", r), "values": if o.dead { Vec::new() } else { o.values() }}));
                        if r.is_err() {
                            break;
                        }
                    }
                    issues.extend(o.issues.iter().cloned());
                }
            }
        }
        "histindep" => {
            let history: Vec<i64> = sc["history"].as_array().unwrap().iter().map(|x| x.as_i64().unwrap()).collect();
            let tape: Vec<u64> = sc["tape"].as_array().unwrap().iter().map(|x| x.as_u64().unwrap()).collect();
            let c = hist_indep_case(m, &history, &tape);
            log.push(json!({"draws_after_history_and_reset": c.post_a, "values_before_reset": c.values_before_reset}));
            issues = c.issues;
        }
        other => tool_error(&format!("unknown scenario kind {}", other)),
    }
    write_json(&a.str("out"), &json!({"issues": issues, "log": log}));
}

/// largem out=<json> seed=N : balance of the offset map at sizes far above the grids (the property holds for all m):
/// one reset, then n draws with a real generator; as long as few positions have been touched the returned value is the
/// drawn index itself, so offset = value - (number of draws so far) when value >= that number.  Histograms of the offset
/// modulo 16 (low bits: precision of the index computation) and of its top 4 bits (high bits), per size.
fn largem(a: &Args) {
    use rand::SeedableRng;
    silence_panics();
    let seed = a.u64_or("seed", 1);
    let n = a.usize_or("n", 200_000);
    let mut cases: Vec<Value> = Vec::new();
    for m in [65_537usize, 1 << 20, (1 << 24) + 0] {
        let r = catch(|| {
            let mut rng = rand_xoshiro::Xoshiro256PlusPlus::seed_from_u64(seed ^ m as u64);
            let mut fy = FYshuffle::new(m);
            fy.reset();
            let mut low = vec![0u64; 16];
            let mut high = vec![0u64; 16];
            let mut used = 0u64;
            let mut oob = 0u64;
            let draws = n.min(m / 64);
            for k in 0..draws {
                let v = fy.next(&mut rng);
                if v >= m {
                    oob += 1;
                    continue;
                }
                if v >= k {
                    let off = v - k;
                    let span = m - k;
                    low[off % 16] += 1;
                    high[(off as u128 * 16 / span as u128) as usize] += 1;
                    used += 1;
                }
            }
            // the first draw after a reset, many times (a reset costs O(m), so fewer trials at the largest size)
            let trials = if m > (1 << 22) { a.usize_or("first_trials", 400) } else { 4000 };
            let mut flow = vec![0u64; 16];
            let mut fhigh = vec![0u64; 16];
            for _ in 0..trials {
                fy.reset();
                let v = fy.next(&mut rng);
                if v >= m {
                    oob += 1;
                    continue;
                }
                flow[v % 16] += 1;
                fhigh[(v as u128 * 16 / m as u128) as usize] += 1;
            }
            (low, high, used, oob, draws, flow, fhigh, trials)
        });
        match r {
            Ok((low, high, used, oob, draws, flow, fhigh, trials)) => cases.push(json!({"m": m, "low": low, "high": high, "used": used, "out_of_bounds": oob, "draws": draws,
                "first_low": flow, "first_high": fhigh, "first_trials": trials})),
            Err(msg) => cases.push(json!({"m": m, "panic": msg})),
        }
    }
    write_json(&a.str("out"), &json!({"cases": cases}));
}

/// fullperm out=<json> seed=N : complete passes at sizes around 2^20 (not multiples of 2^16): a new shuffle, the pass
/// after a reset and the following pass without reset must each return every value of 0..m exactly once
fn fullperm(a: &Args) {
    use rand::SeedableRng;
    silence_panics();
    let seed = a.u64_or("seed", 1);
    let mut cases: Vec<Value> = Vec::new();
    for m in [(1usize << 20) + 1, 1_500_001, (1 << 21) - 7, 70_001] {
        let r = catch(|| {
            let mut rng = rand_xoshiro::Xoshiro256PlusPlus::seed_from_u64(seed ^ (m as u64) << 7);
            let mut fy = FYshuffle::new(m);
            let mut bad: Vec<Value> = Vec::new();
            for pass in 0..3 {
                if pass == 1 {
                    fy.reset();
                }
                let mut seen = vec![false; m];
                let mut dup = 0u64;
                let mut oob = 0u64;
                let mut first_dup: Option<usize> = None;
                for _ in 0..m {
                    let v = fy.next(&mut rng);
                    if v >= m {
                        oob += 1;
                    } else if seen[v] {
                        dup += 1;
                        first_dup.get_or_insert(v);
                    } else {
                        seen[v] = true;
                    }
                }
                if dup + oob > 0 {
                    let missing = seen.iter().position(|x| !*x);
                    bad.push(json!({"pass": pass, "duplicates": dup, "out_of_range": oob, "first_duplicate": first_dup, "first_missing": missing}));
                }
            }
            bad
        });
        match r {
            Ok(bad) => cases.push(json!({"m": m, "bad": bad, "draws": 3 * m})),
            Err(msg) => cases.push(json!({"m": m, "panic": msg, "bad": [], "draws": 0})),
        }
    }
    write_json(&a.str("out"), &json!({"cases": cases}));
}

/// shorthist out=<json> seed=N : at sizes far above the state graphs, EVERY history of at most 3 draws whose offsets come
/// from {0, 1, 2, 3, last} (the values that make swaps overlap or not), followed by a reset; the pass after the reset is
/// compared draw for draw, on the same generator words, with the pass of a new shuffle after its first reset, and must be
/// a permutation.  A reset that restores only what the short history touched is exercised in every overlap pattern.
fn shorthist(a: &Args) {
    silence_panics();
    let seed = a.u64_or("seed", 1);
    let mut cases: Vec<Value> = Vec::new();
    for m in [5usize, 64, 65, 66, 100, 129, 257, 1000, 4097, 70_001] {
        let mut rng = rng_from(seed, 17_500 + m as u64);
        let tape: Vec<u64> = (0..m).map(|_| rng.random_range(0..ONE)).collect();
        let r = catch(|| {
            let mut reference: Vec<usize> = Vec::with_capacity(m);
            {
                let mut fresh = FYshuffle::new(m);
                fresh.reset();
                for n in &tape {
                    reference.push(fresh.next(&mut Fixed::new(*n)));
                }
            }
            let offs = |k: usize| -> Vec<usize> {
                let mut v: Vec<usize> = vec![0, 1, 2, 3, k - 1];
                v.retain(|o| *o < k);
                v.sort();
                v.dedup();
                v
            };
            let mut bad: Vec<Value> = Vec::new();
            let mut histories = 0u64;
            // the object is reused over all histories (each ends with a reset), and a second pass starts from a new one
            for start_new in [false, true] {
                let mut fy = FYshuffle::new(m);
                fy.reset();
                let mut hist: Vec<Vec<usize>> = vec![vec![]];
                for depth in 0..3usize.min(m) {
                    let k = m - depth;
                    let mut next: Vec<Vec<usize>> = Vec::new();
                    for h in hist.iter().filter(|h| h.len() == depth) {
                        for o in offs(k) {
                            let mut h2 = h.clone();
                            h2.push(o);
                            next.push(h2);
                        }
                    }
                    hist.extend(next);
                }
                for h in &hist {
                    histories += 1;
                    if start_new {
                        fy = FYshuffle::new(m);
                        fy.reset();
                    }
                    for (d, o) in h.iter().enumerate() {
                        let _ = fy.next(&mut Fixed::new(cell_mid(*o as u64, (m - d) as u64)));
                    }
                    fy.reset();
                    let mut got: Vec<usize> = Vec::with_capacity(m);
                    for n in &tape {
                        got.push(fy.next(&mut Fixed::new(*n)));
                    }
                    if got != reference && bad.len() < 5 {
                        let first = (0..m).find(|i| got[*i] != reference[*i]).unwrap_or(0);
                        let mut seen = vec![false; m];
                        let perm = got.iter().all(|v| *v < m && !std::mem::replace(&mut seen[*v], true));
                        bad.push(json!({"history_offsets": h, "on_a_new_object": start_new, "first_difference_at_draw": first,
                                        "got": got[first], "new_object": reference[first], "pass_is_a_permutation": perm}));
                    }
                    fy.reset();
                }
            }
            (bad, histories)
        });
        match r {
            Ok((bad, histories)) => cases.push(json!({"m": m, "histories": histories, "bad": bad})),
            Err(msg) => cases.push(json!({"m": m, "histories": 0, "bad": [], "panic": msg})),
        }
    }
    write_json(&a.str("out"), &json!({"cases": cases}));
}

/// longlife out=<json> seed=N cycles=C : ONE shuffle lives through C cycles of (a few draws, reset); at check points
/// (dense around 2^8 and 2^16 and their multiples, sparse elsewhere) the pass after the reset is compared, draw for
/// draw on the same generator words, with the pass of a new shuffle after its first reset: reset forgets the history, however long it is
fn longlife(a: &Args) {
    silence_panics();
    let seed = a.u64_or("seed", 1);
    let cycles = a.u64_or("cycles", 140_000);
    let mut cases: Vec<Value> = Vec::new();
    for m in [2usize, 3, 8, 33] {
        let mut rng = rng_from(seed, 17_000 + m as u64);
        let r = catch(|| {
            let mut fy = FYshuffle::new(m);
            let mut bad: Vec<Value> = Vec::new();
            let mut checks = 0u64;
            for c in 1..=cycles {
                let k = 1 + (c as usize % 3).min(m - 1);
                for _ in 0..k {
                    let mut g = Fixed::new(rng.random_range(0..ONE));
                    let _ = fy.next(&mut g);
                }
                fy.reset();
                // c is exactly the number of resets this object has gone through (a check point draws, it never resets):
                // every reset count within 6 of a multiple of 2^16 (and of 2^8 early on) is followed by a comparison
                let near = |x: u64| (c % x) <= 6 || (c % x) >= x - 6;
                if near(256) && c < 2000 || near(65536) || c % 9973 == 0 {
                    checks += 1;
                    let tape: Vec<u64> = (0..m).map(|_| rng.random_range(0..ONE)).collect();
                    let mut fresh = FYshuffle::new(m);
                    fresh.reset(); // both are "after a reset": only their histories differ
                    let mut same = true;
                    let mut got: Vec<usize> = Vec::new();
                    let mut want: Vec<usize> = Vec::new();
                    for n in &tape {
                        let x = fy.next(&mut Fixed::new(*n));
                        let y = fresh.next(&mut Fixed::new(*n));
                        got.push(x);
                        want.push(y);
                        same = same && x == y;
                    }
                    if !same && bad.len() < 5 {
                        bad.push(json!({"resets_before": c, "got": got, "new_object": want}));
                    }
                }
            }
            (bad, checks)
        });
        match r {
            Ok((bad, checks)) => cases.push(json!({"m": m, "cycles": cycles, "checks": checks, "bad": bad})),
            Err(msg) => cases.push(json!({"m": m, "cycles": cycles, "checks": 0, "bad": [], "panic": msg})),
        }
    }
    write_json(&a.str("out"), &json!({"cases": cases}));
}

fn main() {
    let argv: Vec<String> = std::env::args().collect();
    if argv.len() < 2 {
        tool_error("usage: c17 <replay|behav|meta|record|measure|scenario> key=value ...");
    }
    let a = Args::parse(&argv[2..]);
    match argv[1].as_str() {
        "replay" => replay(&a),
        "fullperm" => fullperm(&a),
        "longlife" => longlife(&a),
        "shorthist" => shorthist(&a),
        "behav" => behav(&a),
        "meta" => meta(&a),
        "record" => record(&a),
        "measure" => measure(&a),
        "scenario" => scenario(&a),
        "largem" => largem(&a),
        other => tool_error(&format!("unknown subcommand {}", other)),
    }
}
