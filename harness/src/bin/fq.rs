//! Frequency trials for the expectation properties C01, C03, C08: recorded sufficient statistics only;
//! the acceptance inequalities are evaluated by the driver (lib/stats.py).
use fnv::FnvHasher;
use pmh_verif::sketchers::*;
use pmh_verif::util::*;
use probminhash::densminhash::{OptDensMinHash, RevOptDensMinHash};
use rand::Rng;
use rayon::prelude::*;
use serde_json::{json, Value};
use std::hash::BuildHasherDefault;

type NoHash = probminhash::nohasher::NoHashHasher;

fn dens_view(kind: &str, m: usize, items: &[u64], entry: usize) -> Vec<u64> {
    // kind = dens_<opt|rev>_<f64|f32>_<u64|float|u32>[_no]   (_no: the crate's identity hasher)
    let p: Vec<&str> = kind.split('_').collect();
    let bh = BuildHasherDefault::<FnvHasher>::default();
    macro_rules! go {
        ($ty:ident, $f:ty) => {{
            go!($ty, $f, FnvHasher, bh)
        }};
        ($ty:ident, $f:ty, $h:ty, $bh:expr) => {{
            go!($ty, $f, $h, $bh, u64, items)
        }};
        ($ty:ident, $f:ty, $h:ty, $bh:expr, $t:ty, $items:expr) => {{
            let items: &[$t] = $items;
            let mut s = $ty::<$f, $t, $h>::new(m, $bh);
            // the two sets of a trial go through different entry points: one slice call / item-wise calls + end_sketch
            if entry % 2 == 0 {
                s.sketch_slice(items).unwrap();
            } else {
                for x in items {
                    s.sketch(x);
                }
                s.end_sketch();
            }
            match p[3] {
                "u64" => s.get_hsketch_u64(),
                "u32" => s.get_hsketch_u32().iter().map(|x| *x as u64).collect(),
                _ => s.get_hsketch().iter().map(|x| (*x as f64).to_bits()).collect(),
            }
        }};
    }
    if p.len() > 4 && p[4] == "no32" {
        // 4-byte items behind the crate's identity hasher (the other arm of its `write`)
        let nb = BuildHasherDefault::<NoHash>::default();
        let narrow: Vec<u32> = items.iter().map(|x| *x as u32).collect();
        return match (p[1], p[2]) {
            ("opt", "f64") => go!(OptDensMinHash, f64, NoHash, nb, u32, &narrow),
            ("opt", "f32") => go!(OptDensMinHash, f32, NoHash, nb, u32, &narrow),
            ("rev", "f64") => go!(RevOptDensMinHash, f64, NoHash, nb, u32, &narrow),
            ("rev", "f32") => go!(RevOptDensMinHash, f32, NoHash, nb, u32, &narrow),
            _ => tool_error("unknown dens kind"),
        };
    }
    if p.len() > 4 && p[4] == "no" {
        let nb = BuildHasherDefault::<NoHash>::default();
        return match (p[1], p[2]) {
            ("opt", "f64") => go!(OptDensMinHash, f64, NoHash, nb),
            ("opt", "f32") => go!(OptDensMinHash, f32, NoHash, nb),
            ("rev", "f64") => go!(RevOptDensMinHash, f64, NoHash, nb),
            ("rev", "f32") => go!(RevOptDensMinHash, f32, NoHash, nb),
            _ => tool_error("unknown dens kind"),
        };
    }
    match (p[1], p[2]) {
        ("opt", "f64") => go!(OptDensMinHash, f64),
        ("opt", "f32") => go!(OptDensMinHash, f32),
        ("rev", "f64") => go!(RevOptDensMinHash, f64),
        ("rev", "f32") => go!(RevOptDensMinHash, f32),
        _ => tool_error("unknown dens kind"),
    }
}

fn sketch_bits(kind: &str, m: usize, items: &[Item], entry: usize) -> Vec<u64> {
    if kind.starts_with("dens_") {
        let ids: Vec<u64> = items.iter().map(|i| i.id).collect();
        return dens_view(kind, m, &ids, entry);
    }
    let cfg = Cfg { kind: kind.to_string(), m, ss: None };
    let mut sk = make(&cfg);
    let ents = sk.entries();
    let e = ents[entry % ents.len()];
    sk.batch(items, e);
    sk.public_bits()
}

/// both sets through ONE sketcher object: sketch A, read, reinit/reset, sketch B, read (kinds that offer reinit/reset)
fn sketch_bits_reuse(kind: &str, m: usize, ia: &[Item], ib: &[Item], entry: usize) -> Option<(Vec<u64>, Vec<u64>)> {
    if kind.starts_with("dens_") && (kind.ends_with("_no") || kind.ends_with("_no32")) {
        return None;
    }
    if kind.starts_with("dens_") {
        let p: Vec<&str> = kind.split('_').collect();
        let bh = BuildHasherDefault::<FnvHasher>::default();
        let a: Vec<u64> = ia.iter().map(|i| i.id).collect();
        let b: Vec<u64> = ib.iter().map(|i| i.id).collect();
        macro_rules! go {
            ($ty:ident, $f:ty) => {{
                let mut s = $ty::<$f, u64, FnvHasher>::new(m, bh);
                let mut view = |s: &$ty<$f, u64, FnvHasher>| -> Vec<u64> {
                    match p[3] {
                        "u64" => s.get_hsketch_u64(),
                        "u32" => s.get_hsketch_u32().iter().map(|x| *x as u64).collect(),
                        _ => s.get_hsketch().iter().map(|x| (*x as f64).to_bits()).collect(),
                    }
                };
                s.sketch_slice(&a).unwrap();
                let x = view(&s);
                s.reinit();
                s.sketch_slice(&b).unwrap();
                let y = view(&s);
                Some((x, y))
            }};
        }
        return match (p[1], p[2]) {
            ("opt", "f64") => go!(OptDensMinHash, f64),
            ("opt", "f32") => go!(OptDensMinHash, f32),
            ("rev", "f64") => go!(RevOptDensMinHash, f64),
            ("rev", "f32") => go!(RevOptDensMinHash, f32),
            _ => None,
        };
    }
    let cfg = Cfg { kind: kind.to_string(), m, ss: None };
    let mut sk = make(&cfg);
    let ents = sk.entries();
    sk.batch(ia, ents[entry % ents.len()]);
    let x = sk.public_bits();
    if sk.reinit() != O_OK {
        return None;
    }
    sk.batch(ib, ents[(entry + 1) % ents.len()]);
    Some((x, sk.public_bits()))
}

fn groups(cell: &Value) -> Vec<(usize, f64, f64)> {
    cell["groups"].as_array().unwrap().iter()
        .map(|g| (g[0].as_u64().unwrap() as usize, g[1].as_f64().unwrap(), g[2].as_f64().unwrap()))
        .collect()
}

/// pairs in=<json {"cells":[{"kind","m","groups":[[count,wa,wb],...],"trials"}]}> out=<json> seed=N
/// per trial: fresh random identifiers for every item; A = items with wa > 0, B = items with wb > 0;
/// hist[k] = number of trials with k equal positions
fn pairs(a: &Args) {
    silence_panics();
    let input = read_json(&a.str("in"));
    let seed = a.u64_or("seed", 1);
    let cells = input["cells"].as_array().unwrap().clone();
    // split every cell into chunks so that all cores are used
    let mut jobs: Vec<(usize, u64, u64)> = Vec::new();
    for (ci, c) in cells.iter().enumerate() {
        let t = c["trials"].as_u64().unwrap();
        let chunks = 16.min(t.max(1));
        for k in 0..chunks {
            jobs.push((ci, k, t / chunks + if k < t % chunks { 1 } else { 0 }));
        }
    }
    let partial: Vec<(usize, Vec<u64>, u64)> = jobs
        .par_iter()
        .map(|(ci, k, t)| {
            let cell = &cells[*ci];
            let kind = cell["kind"].as_str().unwrap();
            let m = cell["m"].as_u64().unwrap() as usize;
            let gs = groups(cell);
            let n: usize = gs.iter().map(|g| g.0).sum();
            let mut rng = rng_from(seed, 31_000_000 + (*ci as u64) * 1000 + k);
            let mut hist = vec![0u64; m + 1];
            let mut panics = 0u64;
            for trial in 0..*t {
                let mut ia: Vec<Item> = Vec::new();
                let mut ib: Vec<Item> = Vec::new();
                let mut ids: Vec<u64> = Vec::with_capacity(n);
                // "ids": "paired" - every second identifier is the previous one with two of its bytes swapped (an identity
                // hasher that folds or reorders bytes wrongly makes such pairs collide); "low32": identifiers below 2^32
                let idmode = cell["ids"].as_str().unwrap_or("random");
                let narrow = idmode == "paired32" || idmode == "low32";
                let mask: u64 = if narrow { 0xffff_ffff } else { u64::MAX };
                for g in &gs {
                    for _ in 0..g.0 {
                        let mut id = rng.random::<u64>() & mask;
                        if idmode.starts_with("paired") && ids.len() % 2 == 1 {
                            let mut b = ids[ids.len() - 1].to_le_bytes();
                            let top = if narrow { 4 } else { 8 };
                            match rng.random_range(0..4) {
                                0 | 1 => {
                                    let i = rng.random_range(0..top - 1);
                                    b.swap(i, i + 1);
                                }
                                2 => b.swap(rng.random_range(0..top), rng.random_range(0..top)),
                                // ... or with a single byte changed (a hasher that drops a byte)
                                _ => b[rng.random_range(0..top)] ^= rng.random_range(1..=255u8),
                            }
                            id = u64::from_le_bytes(b);
                        }
                        // "flip<k>": the items of the second group are those of the first group with bit k flipped (two
                        // disjoint sets of one-bit twins: an identity-hashed item and its twin are different items)
                        if let Some(k) = idmode.strip_prefix("flip").and_then(|x| x.parse::<u32>().ok()) {
                            let first = gs[0].0;
                            if ids.len() >= first && ids.len() < 2 * first {
                                id = ids[ids.len() - first] ^ (1u64 << k);
                            }
                        }
                        while id == INITOBJ || ids.contains(&id) && n < 2000 {
                            id = rng.random::<u64>() & mask;
                        }
                        ids.push(id);
                        if g.1 > 0.0 {
                            ia.push(Item { id, w: g.1 });
                        }
                        if g.2 > 0.0 {
                            ib.push(Item { id, w: g.2 });
                        }
                    }
                }
                // the order of insertion is irrelevant (C02/C04); shuffle B so that both orders occur
                for i in (1..ib.len()).rev() {
                    let j = rng.random_range(0..=i);
                    ib.swap(i, j);
                }
                let e = trial as usize;
                let reuse = cell["reuse"].as_bool().unwrap_or(false);
                match catch(|| {
                    if reuse {
                        if let Some(r) = sketch_bits_reuse(kind, m, &ia, &ib, e) {
                            return r;
                        }
                    }
                    (sketch_bits(kind, m, &ia, e), sketch_bits(kind, m, &ib, e + 1))
                }) {
                    Ok((x, y)) => {
                        let eq = x.iter().zip(y.iter()).filter(|(p, q)| p == q).count();
                        hist[eq] += 1;
                    }
                    Err(_) => panics += 1,
                }
            }
            (*ci, hist, panics)
        })
        .collect();
    let mut res: Vec<Value> = Vec::new();
    for (ci, c) in cells.iter().enumerate() {
        let m = c["m"].as_u64().unwrap() as usize;
        let mut hist = vec![0u64; m + 1];
        let mut panics = 0;
        for (cj, h, p) in &partial {
            if *cj == ci {
                for k in 0..=m {
                    hist[k] += h[k];
                }
                panics += p;
            }
        }
        res.push(json!({"cell": ci, "hist": hist, "panics": panics}));
    }
    write_json(&a.str("out"), &json!({"cells": res}));
}

/// single in=<json {"cells":[{"kind","m","weights":[..],"trials"}]}> out=<json> seed=N
/// counts[p][d] = number of trials in which position p of the signature holds item d (d = n: placeholder/foreign)
fn single(a: &Args) {
    silence_panics();
    let input = read_json(&a.str("in"));
    let seed = a.u64_or("seed", 1);
    let cells = input["cells"].as_array().unwrap().clone();
    let res: Vec<Value> = cells
        .par_iter()
        .enumerate()
        .map(|(ci, cell)| {
            let kind = cell["kind"].as_str().unwrap();
            let m = cell["m"].as_u64().unwrap() as usize;
            let ws: Vec<f64> = cell["weights"].as_array().unwrap().iter().map(|w| w.as_f64().unwrap()).collect();
            let trials = cell["trials"].as_u64().unwrap();
            let n = ws.len();
            let mut rng = rng_from(seed, 41_000_000 + ci as u64);
            let mut counts = vec![vec![0u64; n + 1]; m];
            let mut panics = 0u64;
            for t in 0..trials {
                let items: Vec<Item> = ws.iter().map(|w| Item { id: rng.random::<u64>() >> 1, w: *w }).collect();
                match catch(|| sketch_bits(kind, m, &items, t as usize)) {
                    Ok(sig) => {
                        for p in 0..m {
                            let d = items.iter().position(|i| i.id == sig[p]).unwrap_or(n);
                            counts[p][d] += 1;
                        }
                    }
                    Err(_) => panics += 1,
                }
            }
            json!({"cell": ci, "counts": counts, "panics": panics})
        })
        .collect();
    write_json(&a.str("out"), &json!({"cells": res}));
}

/// sup distance between the empirical distribution function of xs and F
fn ks_distance(xs: &mut Vec<f64>, f: impl Fn(f64) -> f64) -> f64 {
    xs.sort_by(|a, b| a.partial_cmp(b).unwrap());
    let n = xs.len() as f64;
    let mut d: f64 = 0.0;
    for (i, x) in xs.iter().enumerate() {
        let fx = f(*x);
        d = d.max((fx - i as f64 / n).abs()).max(((i + 1) as f64 / n - fx).abs());
    }
    d
}

/// prim in=<json {"cells":[{"kind","m","w","rate","trials"}]}> out=<json> seed=N
/// primitive law of single-item tables.
/// ProbMinHash kinds: per position the register after one entry of weight w, times w, against Exp(rate).
/// SuperMinHash kinds: integer parts must form a permutation (frequency of each permutation, m <= 4), fractional parts
/// uniform (sup distance per position) and pairwise independent (4x4 joint cells of positions 0 and 1).
fn prim(a: &Args) {
    silence_panics();
    let input = read_json(&a.str("in"));
    let seed = a.u64_or("seed", 1);
    let cells = input["cells"].as_array().unwrap().clone();
    let res: Vec<Value> = cells
        .par_iter()
        .enumerate()
        .map(|(ci, cell)| {
            let kind = cell["kind"].as_str().unwrap();
            let m = cell["m"].as_u64().unwrap() as usize;
            let trials = cell["trials"].as_u64().unwrap() as usize;
            let mut rng = rng_from(seed, 51_000_000 + ci as u64);
            if kind.starts_with("pmh") {
                let w = cell["w"].as_f64().unwrap();
                let rate = cell["rate"].as_f64().unwrap();
                let mut per: Vec<Vec<f64>> = vec![Vec::with_capacity(trials); m];
                let mut unfilled = 0u64;
                for _ in 0..trials {
                    let cfg = Cfg { kind: kind.to_string(), m, ss: None };
                    let mut sk = make(&cfg);
                    let it = Item { id: rng.random::<u64>() >> 1, w };
                    sk.sketch(&it);
                    // registers through the guarded accessor, as f64
                    let regs = sk.regs();
                    for p in 0..m {
                        // invert the order key of sketchers::fkey
                        let k = regs[p] as u64;
                        let bits = if k >> 63 == 1 { k & !(1 << 63) } else { !k };
                        let v = f64::from_bits(bits);
                        if v == f64::MAX {
                            unfilled += 1;
                        } else {
                            per[p].push(v * w);
                        }
                    }
                }
                let ds: Vec<f64> = per.iter_mut().map(|xs| ks_distance(xs, |x| 1.0 - (-rate * x).exp())).collect();
                json!({"cell": ci, "ks": ds, "n": trials, "unfilled": unfilled})
            } else {
                // SuperMinHash float kinds
                let mut perm_counts: std::collections::HashMap<Vec<usize>, u64> = std::collections::HashMap::new();
                let mut fr: Vec<Vec<f64>> = vec![Vec::with_capacity(trials); m];
                let mut joint = vec![vec![0u64; 4]; 4];
                let mut notperm = 0u64;
                for _ in 0..trials {
                    let cfg = Cfg { kind: kind.to_string(), m, ss: None };
                    let mut sk = make(&cfg);
                    let it = Item { id: rng.random::<u64>(), w: 1.0 };
                    sk.sketch(&it);
                    let vals: Vec<f64> = sk.public_bits().iter().map(|b| f64::from_bits(*b)).collect();
                    let ip: Vec<usize> = vals.iter().map(|v| v.floor() as usize).collect();
                    let mut sorted = ip.clone();
                    sorted.sort_unstable();
                    if sorted != (0..m).collect::<Vec<usize>>() {
                        notperm += 1;
                        continue;
                    }
                    if m <= 4 {
                        *perm_counts.entry(ip.clone()).or_insert(0) += 1;
                    }
                    for p in 0..m {
                        fr[p].push(vals[p] - vals[p].floor());
                    }
                    if m >= 2 {
                        let b0 = ((vals[0] - vals[0].floor()) * 4.0) as usize;
                        let b1 = ((vals[1] - vals[1].floor()) * 4.0) as usize;
                        joint[b0.min(3)][b1.min(3)] += 1;
                    }
                }
                let ds: Vec<f64> = fr.iter_mut().map(|xs| ks_distance(xs, |x| x.clamp(0.0, 1.0))).collect();
                let mut pc: Vec<(Vec<usize>, u64)> = perm_counts.into_iter().collect();
                pc.sort();
                json!({"cell": ci, "ks": ds, "n": trials, "notperm": notperm, "perms": pc.iter().map(|p| json!([p.0, p.1])).collect::<Vec<_>>(), "joint": joint})
            }
        })
        .collect();
    write_json(&a.str("out"), &json!({"cells": res}));
}

fn main() {
    let argv: Vec<String> = std::env::args().collect();
    if argv.len() < 2 {
        tool_error("usage: fq <pairs|single|prim> key=value ...");
    }
    let a = Args::parse(&argv[2..]);
    match argv[1].as_str() {
        "pairs" => pairs(&a),
        "single" => single(&a),
        "prim" => prim(&a),
        other => tool_error(&format!("unknown subcommand {}", other)),
    }
}
