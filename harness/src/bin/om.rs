//! ProbOrdMinHash2: recording for spec/TraceOrd.tla (C11, C13 part) and frequency trials (C10).
use fnv::FnvHasher;
use pmh_verif::util::*;
use probminhash::probminhasher::probordminhash2::ProbOrdMinHash2;
use rand::Rng;
use serde_json::{json, Value};
use std::collections::{BTreeMap, HashMap};

/// ProbOrdMinHash2 behind a hasher-independent interface ("fnv": FnvHasher, "nohash": the crate's identity hasher)
trait OmhDyn {
    fn hash_set(&mut self, d: &[u64]) -> Vec<u64>;
    fn store(&self) -> (Vec<f64>, Vec<u64>);
    fn set_seed(&mut self, s: u64);
}
impl<H: std::hash::Hasher + Default> OmhDyn for ProbOrdMinHash2<H> {
    fn hash_set(&mut self, d: &[u64]) -> Vec<u64> {
        ProbOrdMinHash2::<H>::hash_set(self, d)
    }
    fn store(&self) -> (Vec<f64>, Vec<u64>) {
        self.verif_store()
    }
    fn set_seed(&mut self, s: u64) {
        self.verif_set_seed(s)
    }
}
/// a true identity hasher for already hashed 64-bit identifiers (the hasher is a free type parameter of the sketcher)
#[derive(Default)]
struct IdentHasher(u64);
impl std::hash::Hasher for IdentHasher {
    fn write(&mut self, bytes: &[u8]) {
        let mut b = [0u8; 8];
        let n = bytes.len().min(8);
        b[..n].copy_from_slice(&bytes[..n]);
        self.0 = u64::from_le_bytes(b);
    }
    fn write_u64(&mut self, i: u64) {
        self.0 = i;
    }
    fn finish(&self) -> u64 {
        self.0
    }
}

/// 4-byte elements behind the crate's identity hasher (the other arm of its `write`)
struct Narrow(ProbOrdMinHash2<probminhash::nohasher::NoHashHasher>);
impl OmhDyn for Narrow {
    fn hash_set(&mut self, d: &[u64]) -> Vec<u64> {
        let n: Vec<u32> = d.iter().map(|x| *x as u32).collect();
        self.0.hash_set(&n)
    }
    fn store(&self) -> (Vec<f64>, Vec<u64>) {
        self.0.verif_store()
    }
    fn set_seed(&mut self, s: u64) {
        self.0.verif_set_seed(s)
    }
}

/// element labels that come in pairs differing by two swapped bytes or by one byte, within the low 4 bytes, all >= 65536
fn paired32(nel: usize, rng: &mut impl Rng) -> Vec<u64> {
    let mut v: Vec<u64> = Vec::with_capacity(nel);
    while v.len() < nel {
        let mut x = (rng.random::<u32>() | 0x0001_0000) as u64;
        if v.len() % 2 == 1 {
            let mut b = (v[v.len() - 1] as u32).to_le_bytes();
            match rng.random_range(0..3) {
                0 => {
                    let i = rng.random_range(0..3);
                    b.swap(i, i + 1);
                }
                1 => b.swap(rng.random_range(0..4), rng.random_range(0..4)),
                _ => b[rng.random_range(0..4)] ^= rng.random_range(1..=255u8),
            }
            x = u32::from_le_bytes(b) as u64;
        }
        if !v.contains(&x) {
            v.push(x);
        }
    }
    v
}

fn new_dyn(hasher: &str, m: usize, l: usize) -> Box<dyn OmhDyn> {
    match hasher {
        "nohash32" => Box::new(Narrow(ProbOrdMinHash2::new(m as u32, l))),
        "ident" => Box::new(ProbOrdMinHash2::<IdentHasher>::new(m as u32, l)),
        "nohash" => Box::new(ProbOrdMinHash2::<probminhash::nohasher::NoHashHasher>::new(m as u32, l)),
        _ => Box::new(ProbOrdMinHash2::<FnvHasher>::new(m as u32, l)),
    }
}

fn fkey(x: f64) -> u64 {
    let b = x.to_bits();
    if b >> 63 == 0 { b | (1 << 63) } else { !b }
}

fn new_pinned(hasher: &str, m: usize, l: usize, seed: u64) -> Box<dyn OmhDyn> {
    let mut o = new_dyn(hasher, m, l);
    o.set_seed(seed);
    o
}

/// race table of every occurrence of `elem` up to multiplicity c.  An auxiliary instance with l' = k fed k copies
/// keeps every point of every occurrence (no position is full before the last copy), so the store holds, per position,
/// the values of occurrences 1..k; the value that is new with respect to k-1 copies belongs to occurrence k.
fn pair_tables(hasher: &str, m: usize, elem: u64, c: usize, seed: u64) -> Vec<Vec<f64>> {
    let mut res: Vec<Vec<f64>> = (0..c).map(|_| vec![f64::NAN; m]).collect();
    let mut prev: Vec<Vec<u64>> = vec![Vec::new(); m];
    for k in 1..=c {
        let mut ok = new_pinned(hasher, m, k, seed);
        let d: Vec<u64> = vec![elem; k];
        let _ = ok.hash_set(&d);
        let (vals, _) = ok.store();
        for pos in 0..m {
            let cur: Vec<u64> = vals[pos * k..(pos + 1) * k].iter().map(|v| v.to_bits()).collect();
            let mut newv = cur.clone();
            for p in &prev[pos] {
                if let Some(i) = newv.iter().position(|x| x == p) {
                    newv.remove(i);
                }
            }
            res[k - 1][pos] = if newv.len() == 1 && newv[0] != f64::MAX.to_bits() { f64::from_bits(newv[0]) } else { f64::NAN };
            prev[pos] = cur;
        }
    }
    res
}

struct Run {
    m: usize,
    l: usize,
    seed: u64,
    elems: Vec<u64>,                 // concrete element per abstract element id (1-based ids)
}

/// record in=<json: {"cases":[{"m","l","seqs":[[elem ids...],...]}]}> out=<trace> seed=N
/// every case: one instance, the sequences hashed one after the other on the SAME instance (self-clearing hash_set),
/// pair tables measured on auxiliary instances with the same pinned seed
fn record(a: &Args) {
    silence_panics();
    let input = read_json(&a.str("in"));
    let seed = a.u64_or("seed", 1);
    let mut rng = rng_from(seed, 1111);
    let mut out = Out::create(&a.str("out"));
    out.line(&json!({"kind": "ord"}));
    let mut run = 0u64;
    for case in input["cases"].as_array().unwrap() {
        run += 1;
        let m = case["m"].as_u64().unwrap() as usize;
        let l = case["l"].as_u64().unwrap() as usize;
        let seqs: Vec<Vec<usize>> = case["seqs"].as_array().unwrap().iter()
            .map(|s| s.as_array().unwrap().iter().map(|x| x.as_u64().unwrap() as usize).collect()).collect();
        let nel = seqs.iter().flat_map(|s| s.iter()).cloned().max().unwrap_or(0);
        let mut mult = vec![0usize; nel + 1];
        for s in &seqs {
            let mut c = vec![0usize; nel + 1];
            for e in s {
                c[*e] += 1;
            }
            for e in 1..=nel {
                mult[e] = mult[e].max(c[e]);
            }
        }
        if mult.iter().any(|c| *c >= 16) {
            // the pair tables are measured with an auxiliary instance of l' = multiplicity, and the sketcher asserts l < 16:
            // a case the driver must not generate (a limit of this harness, not an observation about the code)
            tool_error("a recorded case has an element with 16 or more occurrences");
        }
        let hasher = case["hasher"].as_str().unwrap_or("fnv").to_string();
        let emode = case["elems"].as_str().unwrap_or("random").to_string();
        let small = emode == "small";
        let base = rng.random_range(0..1000u64);
        let mut elems: Vec<u64> = (0..nel).map(|k| if small { base + k as u64 } else { rng.random::<u64>() }).collect();
        if emode == "paired32" {
            elems = paired32(nel, &mut rng);
        }
        if emode == "sentinel" {
            // extreme identifiers first (with an identity hasher these are the hash values themselves), in a random order
            let mut pool: Vec<u64> = vec![0, u64::MAX, 1, u64::MAX - 1, 1 << 63, (1 << 63) - 1, 1 << 32, (1 << 32) - 1,
                                          0xffff_ffff_0000_0000, 1 << 16, 255, 256];
            for i in (1..pool.len()).rev() {
                pool.swap(i, rng.random_range(0..=i));
            }
            elems = (0..nel).map(|k| if k < pool.len() { pool[k] } else { 1_000_000 + k as u64 }).collect();
        }
        let r = Run { m, l, seed: rng.random::<u64>(), elems };
        // pair ids: (element e, occurrence k) -> 1-based id
        let mut pid: HashMap<(usize, usize), usize> = HashMap::new();
        let mut pairs: Vec<(usize, usize)> = Vec::new();
        for e in 1..=nel {
            for k in 1..=mult[e] {
                pairs.push((e, k));
                pid.insert((e, k), pairs.len());
            }
        }
        let res = catch(|| {
            let mut tabs: Vec<Vec<f64>> = Vec::new();
            for e in 1..=nel {
                if mult[e] == 0 {
                    continue;
                }
                let t = pair_tables(&hasher, r.m, r.elems[e - 1], mult[e], r.seed);
                for k in 0..mult[e] {
                    tabs.push(t[k].clone());
                }
            }
            tabs
        });
        let tabs = match res {
            Ok(t) => t,
            Err(msg) => {
                out.line(&json!({"op": "new", "run": run, "m": m, "l": l, "npairs": 0, "tab": [], "pairs": []}));
                out.line(&json!({"op": "panic", "run": run, "msg": msg, "where": "tables"}));
                continue;
            }
        };
        if tabs.iter().any(|t| t.iter().any(|v| v.is_nan())) {
            out.line(&json!({"op": "new", "run": run, "m": m, "l": l, "npairs": 0, "tab": [], "pairs": []}));
            out.line(&json!({"op": "untabled", "run": run}));
            continue;
        }
        let mut keys: BTreeMap<u64, i64> = BTreeMap::new();
        for t in &tabs {
            for v in t {
                keys.insert(fkey(*v), 0);
            }
        }
        let mut n = 0;
        for (_, v) in keys.iter_mut() {
            n += 1;
            *v = n;
        }
        out.line(&json!({"op": "new", "run": run, "m": m, "l": l, "npairs": pairs.len(),
            "pairs": pairs.iter().map(|p| json!([p.0, p.1])).collect::<Vec<_>>(),
            "tab": tabs.iter().map(|t| t.iter().map(|v| keys[&fkey(*v)]).collect::<Vec<i64>>()).collect::<Vec<_>>(),
            "seed": r.seed.to_string(), "elems": r.elems.iter().map(|e| e.to_string()).collect::<Vec<_>>(), "hasher": hasher}));
        let mut inst = new_pinned(&hasher, m, l, r.seed);
        let mut dict: HashMap<Vec<u64>, u64> = HashMap::new();
        for s in &seqs {
            let data: Vec<u64> = s.iter().map(|e| r.elems[*e - 1]).collect();
            // pair id of each data index
            let mut c = vec![0usize; nel + 1];
            let order: Vec<usize> = s.iter().map(|e| { c[*e] += 1; pid[&(*e, c[*e])] }).collect();
            let res = catch(|| {
                let sig = inst.hash_set(&data);
                let (_, idx) = inst.store();
                (sig, idx)
            });
            match res {
                Ok((sig, idx)) => {
                    let mut sel: Vec<Vec<i64>> = Vec::new();
                    let mut sorted = true;
                    let mut sigeq: Vec<bool> = Vec::new();
                    for pos in 0..m {
                        let blk = &idx[pos * l..(pos + 1) * l];
                        if blk.windows(2).any(|w| w[0] >= w[1]) {
                            sorted = false;
                        }
                        sel.push(blk.iter().map(|i| if (*i as usize) < order.len() { order[*i as usize] as i64 } else { -1 }).collect());
                        // dictionary entry of the spelled tuple, through the public API on an auxiliary instance
                        let tuple: Vec<u64> = blk.iter().filter(|i| (**i as usize) < data.len()).map(|i| data[*i as usize]).collect();
                        let want = if tuple.len() == l {
                            *dict.entry(tuple.clone()).or_insert_with(|| {
                                let mut aux = new_pinned(&hasher, 1, l, r.seed);
                                aux.hash_set(&tuple)[0]
                            })
                        } else {
                            0
                        };
                        sigeq.push(tuple.len() == l && sig[pos] == want);
                    }
                    out.line(&json!({"op": "hs", "run": run, "order": order, "sel": sel, "sorted": sorted, "sigeq": sigeq, "out": "ok"}));
                }
                Err(msg) => {
                    out.line(&json!({"op": "hs", "run": run, "order": order, "out": "panic", "msg": msg, "short": data.len() < l}));
                }
            }
        }
    }
    out.finish();
}

/// freq in=<json: {"cells":[{"m","l","a":[ids],"b":[ids],"trials":N}]}> out=<json> seed=N
/// per cell: fresh random element labels per trial, fraction of equal signature positions; sufficient statistics
fn freq(a: &Args) {
    silence_panics();
    let input = read_json(&a.str("in"));
    let seed = a.u64_or("seed", 1);
    let cells = input["cells"].as_array().unwrap().clone();
    use rayon::prelude::*;
    let results: Vec<Value> = cells
        .par_iter()
        .enumerate()
        .map(|(ci, cell)| {
            let m = cell["m"].as_u64().unwrap() as usize;
            let l = cell["l"].as_u64().unwrap() as usize;
            let sa: Vec<usize> = cell["a"].as_array().unwrap().iter().map(|x| x.as_u64().unwrap() as usize).collect();
            let sb: Vec<usize> = cell["b"].as_array().unwrap().iter().map(|x| x.as_u64().unwrap() as usize).collect();
            let trials = cell["trials"].as_u64().unwrap();
            let nel = sa.iter().chain(sb.iter()).cloned().max().unwrap();
            let mut rng = rng_from(seed, 7000 + ci as u64);
            let mut hist = vec![0u64; m + 1];
            let mut panics = 0u64;
            // one instance per cell: both sequences must be hashed by the same instance (same instance seed)
            let hasher = cell["hasher"].as_str().unwrap_or("fnv").to_string();
            let small = cell["elems"].as_str().unwrap_or("random") == "small";
            let r = catch(|| new_dyn(&hasher, m, l));
            let mut inst = match r {
                Ok(i) => i,
                Err(_) => return json!({"cell": ci, "hist": hist, "panics": trials}),
            };
            for _ in 0..trials {
                let base = rng.random::<u64>() >> 8;
                let labels: Vec<u64> = if cell["elems"].as_str().unwrap_or("") == "paired32" {
                    paired32(nel, &mut rng)
                } else {
                    (0..nel).map(|k| if small { base + k as u64 } else { rng.random::<u64>() }).collect()
                };
                let da: Vec<u64> = sa.iter().map(|e| labels[*e - 1]).collect();
                let db: Vec<u64> = sb.iter().map(|e| labels[*e - 1]).collect();
                match catch(|| (inst.hash_set(&da), inst.hash_set(&db))) {
                    Ok((x, y)) => {
                        let eq = x.iter().zip(y.iter()).filter(|(p, q)| p == q).count();
                        hist[eq] += 1;
                    }
                    Err(_) => panics += 1,
                }
            }
            json!({"cell": ci, "hist": hist, "panics": panics})
        })
        .collect();
    write_json(&a.str("out"), &json!({"cells": results}));
}

/// pairs (element, occurrence) of a sequence with the sequence index of each
fn seq_pairs(s: &[usize]) -> Vec<((usize, usize), usize)> {
    let mut c: HashMap<usize, usize> = HashMap::new();
    s.iter().enumerate().map(|(i, e)| { let k = c.entry(*e).or_insert(0); *k += 1; ((*e, *k), i) }).collect()
}

/// exact order-min-hash collision probability by enumeration of all rankings of the union of pairs
fn oracle_cell(sa: &[usize], sb: &[usize], l: usize) -> (u64, u64) {
    let pa = seq_pairs(sa);
    let pb = seq_pairs(sb);
    let mut union: Vec<(usize, usize)> = pa.iter().map(|p| p.0).collect();
    for p in &pb {
        if !union.contains(&p.0) {
            union.push(p.0);
        }
    }
    let n = union.len();
    let ia: Vec<(usize, usize, usize)> = pa.iter().map(|p| (union.iter().position(|u| *u == p.0).unwrap(), p.1, (p.0).0)).collect();
    let ib: Vec<(usize, usize, usize)> = pb.iter().map(|p| (union.iter().position(|u| *u == p.0).unwrap(), p.1, (p.0).0)).collect();
    // rank[u] for u in union; iterate over all permutations (Heap's algorithm)
    let mut rank: Vec<usize> = (0..n).collect();
    let mut cnt = vec![0usize; n];
    let mut num = 0u64;
    let mut den = 0u64;
    let spell = |rank: &Vec<usize>, ps: &Vec<(usize, usize, usize)>| -> Vec<usize> {
        let mut v: Vec<(usize, usize, usize)> = ps.iter().map(|p| (rank[p.0], p.1, p.2)).collect();
        v.sort_unstable();
        let mut sel: Vec<(usize, usize)> = v[..l].iter().map(|x| (x.1, x.2)).collect();
        sel.sort_unstable();
        sel.iter().map(|x| x.1).collect()
    };
    let mut eval = |rank: &Vec<usize>| {
        den += 1;
        if spell(rank, &ia) == spell(rank, &ib) {
            num += 1;
        }
    };
    eval(&rank);
    let mut i = 0;
    while i < n {
        if cnt[i] < i {
            if i % 2 == 0 { rank.swap(0, i) } else { rank.swap(cnt[i], i) }
            eval(&rank);
            cnt[i] += 1;
            i = 0;
        } else {
            cnt[i] = 0;
            i += 1;
        }
    }
    (num, den)
}

/// oracle in=<json cells> out=<json>: exact probabilities (numerator, denominator = |union|!)
fn oracle(a: &Args) {
    let input = read_json(&a.str("in"));
    use rayon::prelude::*;
    let cells = input["cells"].as_array().unwrap().clone();
    let res: Vec<Value> = cells.par_iter().map(|cell| {
        let l = cell["l"].as_u64().unwrap() as usize;
        let sa: Vec<usize> = cell["a"].as_array().unwrap().iter().map(|x| x.as_u64().unwrap() as usize).collect();
        let sb: Vec<usize> = cell["b"].as_array().unwrap().iter().map(|x| x.as_u64().unwrap() as usize).collect();
        let (n, d) = oracle_cell(&sa, &sb, l);
        json!({"num": n, "den": d})
    }).collect();
    write_json(&a.str("out"), &json!({"cells": res}));
}

fn main() {
    let argv: Vec<String> = std::env::args().collect();
    if argv.len() < 2 {
        tool_error("usage: om <record|freq> key=value ...");
    }
    let a = Args::parse(&argv[2..]);
    match argv[1].as_str() {
        "record" => record(&a),
        "freq" => freq(&a),
        "oracle" => oracle(&a),
        other => tool_error(&format!("unknown subcommand {}", other)),
    }
}
