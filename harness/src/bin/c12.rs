//! C12: purity of sketches across instances, threads and processes.
//!
//! `c12 child keys=<json> out=<ndjson> meta=<json> proc=<p> seed=<s> threads=<T> full=<0|1>`
//! For every key (sketcher kind, type parameters, constructor parameters, input id) the child
//! computes the digest of the exact bits of the public sketch
//!  (a) in two instances that are alive at the same time in the main thread (thread 0, seq 2i, 2i+1),
//!  (b) in T threads started on a barrier, each constructing its own instances and walking the
//!      keys in its own order (thread 1..T, seq = position in that order),
//! and writes one observation `{proc, thread, seq, key, digest, ...}` per computation.  The driver
//! launches the child several times (fresh address space, fresh RandomState keys, fresh ThreadRng).
//! Inputs are a function of the key alone (`iseed`), so every environment sees the same input.
use fnv::FnvHasher;
use pmh_verif::sketchers::*;
use pmh_verif::util::*;
use probminhash::densminhash::{OptDensMinHash, RevOptDensMinHash};
use probminhash::probminhasher::probordminhash2::ProbOrdMinHash2;
use probminhash::probminhasher::{ProbMinHash2, ProbMinHash3, ProbMinHash3a};
use rand::Rng;
use serde_json::{json, Value};
use std::collections::HashMap;
use std::hash::BuildHasherDefault;
use std::sync::atomic::{AtomicU64, Ordering};
use std::sync::{Arc, Barrier};
use twox_hash::XxHash64;

static TICK: AtomicU64 = AtomicU64::new(0);

#[derive(Clone, Debug)]
struct Key {
    kid: String,
    kind: String,
    m: usize,
    entry: String,
    shape: String,
    n: usize,
    iseed: u64,
    ss: Option<SsParams>,
    l: usize,
}

fn parse_key(v: &Value) -> Key {
    let s = |f: &str| v[f].as_str().unwrap_or_else(|| tool_error(&format!("key without {}", f))).to_string();
    let u = |f: &str| v[f].as_u64().unwrap_or_else(|| tool_error(&format!("key without {}", f)));
    let kind = s("kind");
    let m = u("m") as usize;
    let ss = if kind.starts_with("ss_") {
        Some(SsParams { b: v["b"].as_f64().unwrap(), m: m as u64, a: v["a"].as_f64().unwrap(), q: u("q") })
    } else {
        None
    };
    Key {
        kid: s("kid"),
        kind,
        m,
        entry: s("entry"),
        shape: s("shape"),
        n: u("n") as usize,
        iseed: u("iseed"),
        ss,
        l: v["l"].as_u64().unwrap_or(0) as usize,
    }
}

const PALETTE: [f64; 8] = [0.5, 1.0, 2.0, 3.7, 1e-3, 1e3, 0.125, 17.25];

/// the input of a key: a function of (shape, n, iseed) only
fn input(k: &Key) -> Vec<Item> {
    let mut rng = rng_from(k.iseed, 12);
    let fresh = |rng: &mut rand_xoshiro::Xoshiro256PlusPlus, small: bool| -> u64 {
        if small {
            rng.random_range(0..100_000u64)
        } else {
            rng.random::<u64>() >> 1
        }
    };
    let distinct = |cnt: usize, rng: &mut rand_xoshiro::Xoshiro256PlusPlus, small: bool| -> Vec<u64> {
        let mut v: Vec<u64> = Vec::new();
        while v.len() < cnt {
            let x = fresh(rng, small);
            if !v.contains(&x) && x != INITOBJ {
                v.push(x);
            }
        }
        v
    };
    match k.shape.as_str() {
        "one" | "few" => distinct(k.n, &mut rng, false).into_iter().map(|id| Item { id, w: 1.0 }).collect(),
        "repeats" => {
            let ids = distinct(3, &mut rng, false);
            let mut v: Vec<Item> = ids.iter().map(|id| Item { id: *id, w: 1.0 }).collect();
            while v.len() < k.n {
                let j = rng.random_range(0..3);
                v.push(Item { id: ids[j], w: 1.0 });
            }
            // shuffle positions
            for i in (1..v.len()).rev() {
                let j = rng.random_range(0..=i);
                v.swap(i, j);
            }
            v
        }
        // n/2 distinct identifiers, then the same sequence once more (large inputs: beyond 2^16 distinct values)
        "twice" => {
            let half = k.n / 2;
            let base = rng.random::<u64>() >> 2;
            let mut v: Vec<Item> = (0..half).map(|i| Item { id: base + i as u64, w: 1.0 + (i % 7) as f64 }).collect();
            if k.entry != "idxmap" && k.entry != "hashmap" {
                let again = v.clone();
                v.extend(again);
            }
            v
        }
        "weights" => distinct(k.n, &mut rng, false)
            .into_iter()
            .map(|id| Item { id, w: PALETTE[rng.random_range(0..PALETTE.len())] })
            .collect(),
        "random" => {
            let small = rng.random_range(0..3) == 0;
            let wstyle = rng.random_range(0..3);
            let reps = k.entry != "idxmap" && k.entry != "hashmap" && rng.random_range(0..2) == 0;
            let mut v: Vec<Item> = Vec::with_capacity(k.n);
            let mut seen: HashMap<u64, f64, BuildHasherDefault<FnvHasher>> = HashMap::default();
            while v.len() < k.n {
                if reps && !v.is_empty() && rng.random_range(0..8) == 0 {
                    let j = rng.random_range(0..v.len());
                    let it = v[j];
                    v.push(it);
                    continue;
                }
                let id = fresh(&mut rng, small);
                if seen.contains_key(&id) || id == INITOBJ {
                    continue;
                }
                let w = match wstyle {
                    0 => 1.0,
                    1 => (2.0f64).powi(rng.random_range(-8..8)),
                    _ => 0.01 + 100.0 * rng.random::<f64>(),
                };
                seen.insert(id, w);
                v.push(Item { id, w });
            }
            v
        }
        s => tool_error(&format!("unknown shape {}", s)),
    }
}

/// one live sketcher instance
trait Runner {
    /// feeds the input through the entry point of the key and returns the exact bits of everything
    /// the public accessors give, plus (for HashMap entry points) a fingerprint of the iteration
    /// order the map showed
    fn run(&mut self, k: &Key, its: &[Item]) -> (Vec<u64>, Option<u64>);
}

struct Adapter(Box<dyn Sk>);

fn outcome_code(o: &str) -> u64 {
    match o {
        O_OK => 0,
        O_ERR => 1,
        O_REFUSED => 2,
        _ => 3,
    }
}

impl Runner for Adapter {
    fn run(&mut self, k: &Key, its: &[Item]) -> (Vec<u64>, Option<u64>) {
        let o = match k.entry.as_str() {
            "item" => {
                let mut o = O_OK;
                for it in its {
                    let r = self.0.sketch(it);
                    if r != O_OK {
                        o = r;
                    }
                }
                o
            }
            "slice" => self.0.batch(its, E_SLICE),
            "idxmap" => self.0.batch(its, E_IDXMAP),
            e => tool_error(&format!("entry {} not handled by the adapter", e)),
        };
        let mut bits = vec![outcome_code(o)];
        bits.extend(self.0.public_bits());
        (bits, None)
    }
}

/// fingerprint of the order in which a std HashMap hands out its keys
fn order_print(mp: &HashMap<u64, f64>) -> u64 {
    let mut bytes: Vec<u8> = Vec::with_capacity(8 * mp.len());
    for (k, _) in mp.iter() {
        bytes.extend_from_slice(&k.to_le_bytes());
    }
    XxHash64::oneshot(7, &bytes)
}

/// ProbMinHash over the entry points that take a std HashMap (default RandomState)
macro_rules! pmh_map_runner {
    ($name:ident, $ad:ident, $call:expr) => {
        struct $name($ad);
        impl Runner for $name {
            fn run(&mut self, _k: &Key, its: &[Item]) -> (Vec<u64>, Option<u64>) {
                let mp: HashMap<u64, f64> = its.iter().map(|i| (i.id, i.w)).collect();
                let fp = order_print(&mp);
                let f: fn(&mut $ad, &HashMap<u64, f64>) = $call;
                f(&mut self.0, &mp);
                let mut bits = vec![0u64];
                bits.extend(self.0 .0.get_signature().iter().cloned());
                (bits, Some(fp))
            }
        }
    };
}
pmh_map_runner!(Map2, Pmh2, |s, mp| s.0.hash_weigthed_hashmap::<FnvHasher>(mp));
pmh_map_runner!(Map3, Pmh3, |s, mp| s.0.hash_weigthed_hashmap(mp));
pmh_map_runner!(Map3a, Pmh3a, |s, mp| s.0.hash_weigthed_hashmap(mp));
pmh_map_runner!(Map3aSha, Pmh3aSha, |s, mp| s.0.hash_weigthed_hashmap(mp));

macro_rules! dens_runner {
    ($name:ident, $ty:ident, $f:ty, $tobits:expr) => {
        struct $name($ty<$f, u64, FnvHasher>);
        impl Runner for $name {
            fn run(&mut self, k: &Key, its: &[Item]) -> (Vec<u64>, Option<u64>) {
                let ids: Vec<u64> = its.iter().map(|i| i.id).collect();
                let code = if k.entry == "slice" {
                    match self.0.sketch_slice(&ids) {
                        Ok(()) => 0u64,
                        Err(_) => 1u64,
                    }
                } else {
                    for id in &ids {
                        self.0.sketch(id);
                    }
                    self.0.end_sketch();
                    0u64
                };
                let tb: fn($f) -> u64 = $tobits;
                let mut bits = vec![code];
                bits.extend(self.0.get_hsketch().iter().map(|x| tb(*x)));
                bits.extend(self.0.get_hsketch_u64());
                bits.extend(self.0.get_hsketch_u32().iter().map(|x| *x as u64));
                (bits, None)
            }
        }
    };
}
dens_runner!(DensF32, OptDensMinHash, f32, |x| x.to_bits() as u64);
dens_runner!(DensF64, OptDensMinHash, f64, |x| x.to_bits());
dens_runner!(RevF32, RevOptDensMinHash, f32, |x| x.to_bits() as u64);
dens_runner!(RevF64, RevOptDensMinHash, f64, |x| x.to_bits());

/// ProbOrdMinHash2 exactly as a user gets it from `new` (the seed hook is NOT used)
struct Ord2(ProbOrdMinHash2<FnvHasher>);
impl Runner for Ord2 {
    fn run(&mut self, _k: &Key, its: &[Item]) -> (Vec<u64>, Option<u64>) {
        let ids: Vec<u64> = its.iter().map(|i| i.id).collect();
        let mut bits = vec![0u64];
        bits.extend(self.0.hash_set(&ids));
        (bits, None)
    }
}

/// ProbMinHash over identifiers that are not plain integers: references to owned strings (every run allocates its own
/// strings, so equal inputs live at different addresses in every instance, thread and process) and small structs with
/// padding.  The signature is reported by value.
struct RefKeys(&'static str);
impl Runner for RefKeys {
    fn run(&mut self, k: &Key, its: &[Item]) -> (Vec<u64>, Option<u64>) {
        let mut bits = vec![0u64];
        if self.0 == "pmh3_pair" {
            let key = |id: u64| -> (u8, u32) { ((id >> 40) as u8, id as u32) };
            let mut s = ProbMinHash3::<(u8, u32), FnvHasher>::new(k.m, (0xff, u32::MAX));
            for i in its {
                s.hash_item(key(i.id), &i.w);
            }
            bits.extend(s.get_signature().iter().map(|p| ((p.0 as u64) << 40) | p.1 as u64));
            return (bits, None);
        }
        let names: Vec<String> = its.iter().map(|i| format!("k{:x}", i.id)).collect();
        let init = String::from("none");
        let back = |s: &String| -> u64 {
            if *s == init {
                u64::MAX
            } else {
                u64::from_str_radix(&s[1..], 16).unwrap_or(u64::MAX - 1)
            }
        };
        match self.0 {
            "pmh2_refstr" => {
                let mut s = ProbMinHash2::<&String, FnvHasher>::new(k.m, &init);
                for (n, i) in names.iter().zip(its.iter()) {
                    s.hash_item(n, i.w);
                }
                bits.extend(s.get_signature().iter().map(|x| back(x)));
            }
            "pmh3_refstr" => {
                let mut s = ProbMinHash3::<&String, FnvHasher>::new(k.m, &init);
                for (n, i) in names.iter().zip(its.iter()) {
                    s.hash_item(n, &i.w);
                }
                bits.extend(s.get_signature().iter().map(|x| back(x)));
            }
            _ => {
                let mut mp: indexmap::IndexMap<&String, f64, fnv::FnvBuildHasher> = indexmap::IndexMap::default();
                for (n, i) in names.iter().zip(its.iter()) {
                    mp.insert(n, i.w);
                }
                let mut s = ProbMinHash3a::<&String, FnvHasher>::new(k.m, &init);
                s.hash_weigthed_idxmap(&mp);
                bits.extend(s.get_signature().iter().map(|x| back(x)));
            }
        }
        (bits, None)
    }
}

/// SuperMinHash over 8-byte array keys behind the crate's identity hasher, hashed in place: successive runs keep the same
/// keys in differently laid out buffers (a dense array / records of one tag byte + the key, so that the key bytes sit at
/// every alignment).  The sketch is a function of the key VALUES.
static LAYOUT: AtomicU64 = AtomicU64::new(0);
#[repr(C, packed)]
#[derive(Clone, Copy)]
struct TaggedKey {
    tag: u8,
    key: [u8; 8],
}
struct Bytes8;
impl Runner for Bytes8 {
    fn run(&mut self, k: &Key, its: &[Item]) -> (Vec<u64>, Option<u64>) {
        let mut s = probminhash::superminhasher::SuperMinHash::<f64, [u8; 8], probminhash::nohasher::NoHashHasher>::new(
            k.m,
            BuildHasherDefault::<probminhash::nohasher::NoHashHasher>::default(),
        );
        let mut code = 0u64;
        if LAYOUT.fetch_add(1, Ordering::Relaxed) % 2 == 0 {
            let dense: Vec<[u8; 8]> = its.iter().map(|i| i.id.to_le_bytes()).collect();
            for key in &dense {
                if s.sketch(key).is_err() {
                    code = 1;
                }
            }
        } else {
            let recs: Vec<TaggedKey> = its.iter().map(|i| TaggedKey { tag: 7, key: i.id.to_le_bytes() }).collect();
            for r in &recs {
                if s.sketch(&r.key).is_err() {
                    code = 1;
                }
            }
        }
        let mut bits = vec![code];
        bits.extend(s.get_hsketch().iter().map(|x| x.to_bits()));
        (bits, None)
    }
}

fn build(k: &Key) -> Box<dyn Runner> {
    let bh = BuildHasherDefault::<FnvHasher>::default;
    let map = k.entry == "hashmap";
    match k.kind.as_str() {
        "dens_f32_fnv" => Box::new(DensF32(OptDensMinHash::new(k.m, bh()))),
        "dens_f64_fnv" => Box::new(DensF64(OptDensMinHash::new(k.m, bh()))),
        "rev_f32_fnv" => Box::new(RevF32(RevOptDensMinHash::new(k.m, bh()))),
        "rev_f64_fnv" => Box::new(RevF64(RevOptDensMinHash::new(k.m, bh()))),
        "ord2_fnv" => Box::new(Ord2(ProbOrdMinHash2::new(k.m as u32, k.l))),
        "pmh2_refstr" => Box::new(RefKeys("pmh2_refstr")),
        "pmh3_refstr" => Box::new(RefKeys("pmh3_refstr")),
        "pmh3a_refstr" => Box::new(RefKeys("pmh3a_refstr")),
        "pmh3_pair" => Box::new(RefKeys("pmh3_pair")),
        "smh_bytes8_no" => Box::new(Bytes8),
        "pmh2" if map => Box::new(Map2(Pmh2::new(k.m))),
        "pmh3" if map => Box::new(Map3(Pmh3::new(k.m))),
        "pmh3a" if map => Box::new(Map3a(Pmh3a::new(k.m))),
        "pmh3asha" if map => Box::new(Map3aSha(Pmh3aSha::new(k.m))),
        _ => Box::new(Adapter(make(&Cfg { kind: k.kind.clone(), m: k.m, ss: k.ss }))),
    }
}

fn hex(bits: &[u64]) -> String {
    let mut s = String::with_capacity(16 * bits.len());
    for b in bits {
        s.push_str(&format!("{:016x}", b));
    }
    s
}

/// 128-bit fingerprint of the exact bits (length included)
fn digest(bits: &[u64]) -> String {
    let mut bytes: Vec<u8> = Vec::with_capacity(8 * bits.len() + 8);
    bytes.extend_from_slice(&(bits.len() as u64).to_le_bytes());
    for b in bits {
        bytes.extend_from_slice(&b.to_le_bytes());
    }
    format!("{:016x}{:016x}", XxHash64::oneshot(0, &bytes), XxHash64::oneshot(0x9E37_79B9_7F4A_7C15, &bytes))
}

struct Obs {
    thread: usize,
    seq: usize,
    key: usize,
    digest: String,
    bits: Option<String>,
    words: usize,
    outcome: String,
    iter: Option<u64>,
    t0: u64,
    t1: u64,
}

fn finish(thread: usize, seq: usize, key: usize, res: Result<(Vec<u64>, Option<u64>), String>, t0: u64, full: bool) -> Obs {
    let t1 = TICK.fetch_add(1, Ordering::SeqCst);
    match res {
        Ok((bits, iter)) => Obs {
            thread,
            seq,
            key,
            digest: digest(&bits),
            bits: if full || bits.len() <= 40 { Some(hex(&bits)) } else { None },
            words: bits.len(),
            outcome: "ok".to_string(),
            iter,
            t0,
            t1,
        },
        Err(msg) => Obs {
            thread,
            seq,
            key,
            // a panic is an outcome like any other: it must be the same in every environment
            digest: "panic".to_string(),
            bits: Some(msg),
            words: 0,
            outcome: "panic".to_string(),
            iter: None,
            t0,
            t1,
        },
    }
}

fn one(thread: usize, seq: usize, ki: usize, k: &Key, its: &[Item], full: bool) -> Obs {
    let t0 = TICK.fetch_add(1, Ordering::SeqCst);
    let res = catch(|| {
        let mut r = build(k);
        r.run(k, its)
    });
    finish(thread, seq, ki, res, t0, full)
}

fn child(a: &Args) {
    silence_panics();
    let keys: Vec<Key> = read_json(&a.str("keys")).as_array().unwrap_or_else(|| tool_error("keys: not an array")).iter().map(parse_key).collect();
    let nthreads = a.usize_or("threads", 8);
    let proc_id = a.u64_or("proc", 1);
    let seed = a.u64_or("seed", 1);
    let full = a.u64_or("full", 0) == 1;
    let inputs: Vec<Vec<Item>> = keys.iter().map(input).collect();
    let keys = Arc::new(keys);
    let inputs = Arc::new(inputs);

    // probes of the environment (evidence only): address space layout and RandomState
    let heap_probe = Box::new(0u8);
    let stack_probe = 0u8;
    let probe_map: HashMap<u64, f64> = (0..32u64).map(|i| (i, 1.0)).collect();
    let meta = json!({
        "proc": proc_id, "pid": std::process::id(),
        "heap_addr": format!("{:x}", &*heap_probe as *const u8 as usize),
        "stack_addr": format!("{:x}", &stack_probe as *const u8 as usize),
        "text_addr": format!("{:x}", child as *const () as usize),
        "map_order": format!("{:016x}", order_print(&probe_map)),
        "keys": keys.len(), "threads": nthreads,
    });

    let mut all: Vec<Obs> = Vec::new();
    // (a) two instances alive at the same time in one thread
    for (ki, k) in keys.iter().enumerate() {
        let its = &inputs[ki];
        let t0 = TICK.fetch_add(1, Ordering::SeqCst);
        let ia = catch(|| build(k));
        let ib = catch(|| build(k));
        let ra = match ia {
            Ok(mut r) => catch(move || r.run(k, its)),
            Err(e) => Err(e),
        };
        all.push(finish(0, 2 * ki, ki, ra, t0, full));
        let t0 = TICK.fetch_add(1, Ordering::SeqCst);
        let rb = match ib {
            Ok(mut r) => catch(move || r.run(k, its)),
            Err(e) => Err(e),
        };
        all.push(finish(0, 2 * ki + 1, ki, rb, t0, full));
    }
    // (a') two live instances of the same kind fed ALTERNATELY, item by item, in one thread (entry "item" through the adapters):
    // each must still give the sketch of its own input (instances share nothing)
    for (ki, k) in keys.iter().enumerate() {
        if k.entry != "item" || k.kind.starts_with("dens") || k.kind.starts_with("rev") || k.kind.starts_with("ord2")
            || k.kind.ends_with("_refstr") || k.kind.ends_with("_pair") || k.kind.starts_with("smh_bytes8")
        {
            continue;
        }
        let its = &inputs[ki];
        let t0 = TICK.fetch_add(1, Ordering::SeqCst);
        let res = catch(|| {
            let cfg = Cfg { kind: k.kind.clone(), m: k.m, ss: k.ss };
            let mut a1 = make(&cfg);
            let mut b1 = make(&cfg);
            let mut oa = O_OK;
            // the second instance receives the same items in reverse order, interleaved with the first
            let n = its.len();
            for i in 0..n {
                let r = a1.sketch(&its[i]);
                if r != O_OK {
                    oa = r;
                }
                b1.sketch(&its[n - 1 - i]);
            }
            let mut bits = vec![outcome_code(oa)];
            bits.extend(a1.public_bits());
            let mut bits_b = vec![outcome_code(oa)];
            bits_b.extend(b1.public_bits());
            ((bits, None), (bits_b, None))
        });
        // the sketch is a function of the set of items (C02/C04), so the instance fed in reverse order must agree too
        match res {
            Ok((ra, rb)) => {
                all.push(finish(100, ki, ki, Ok(ra), t0, full));
                all.push(finish(102, ki, ki, Ok(rb), t0, full));
            }
            Err(e) => {
                all.push(finish(100, ki, ki, Err(e.clone()), t0, full));
                all.push(finish(102, ki, ki, Err(e), t0, full));
            }
        }
    }
    // (a'') an unrelated instance deliberately re-seeds itself (change_rng_seed); instances constructed AFTERWARDS with the
    // same parameters must still give the same sketches as everywhere else
    {
        let mut other = ProbOrdMinHash2::<FnvHasher>::new(8, 2);
        other.change_rng_seed();
        let _ = other.hash_set(&[1u64, 2, 3, 4]);
        for (ki, k) in keys.iter().enumerate() {
            if k.kind.starts_with("ord2") {
                all.push(one(101, ki, ki, k, &inputs[ki], full));
            }
        }
    }
    // (b) threads: own instances, own order, started together
    let barrier = Arc::new(Barrier::new(nthreads));
    let mut handles = Vec::new();
    for t in 1..=nthreads {
        let keys = keys.clone();
        let inputs = inputs.clone();
        let barrier = barrier.clone();
        handles.push(std::thread::spawn(move || {
            let mut order: Vec<usize> = (0..keys.len()).collect();
            let mut rng = rng_from(seed, 1000 + t as u64);
            for i in (1..order.len()).rev() {
                let j = rng.random_range(0..=i);
                order.swap(i, j);
            }
            let mut obs: Vec<Obs> = Vec::with_capacity(order.len());
            barrier.wait();
            for (pos, ki) in order.iter().enumerate() {
                obs.push(one(t, pos, *ki, &keys[*ki], &inputs[*ki], full));
            }
            obs
        }));
    }
    for h in handles {
        match h.join() {
            Ok(v) => all.extend(v),
            Err(_) => tool_error("a worker thread of the harness died"),
        }
    }
    let mut out = Out::create(&a.str("out"));
    for o in &all {
        let mut v = json!({"proc": proc_id, "thread": o.thread, "seq": o.seq, "key": keys[o.key].kid, "digest": o.digest,
                           "outcome": o.outcome, "words": o.words, "t0": o.t0, "t1": o.t1});
        if let Some(b) = &o.bits {
            v["bits"] = json!(b);
        }
        if let Some(i) = o.iter {
            v["iter"] = json!(format!("{:016x}", i));
        }
        out.line(&v);
    }
    out.finish();
    write_json(&a.str("meta"), &meta);
}

fn main() {
    let argv: Vec<String> = std::env::args().collect();
    if argv.len() < 2 {
        tool_error("usage: c12 child keys=.. out=.. meta=.. proc=.. seed=.. threads=.. full=..");
    }
    let a = Args::parse(&argv[2..]);
    match argv[1].as_str() {
        "child" => child(&a),
        c => tool_error(&format!("unknown command {}", c)),
    }
}
