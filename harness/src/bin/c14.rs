//! C14: similarity estimators.
//!  count  in=<pairs.ndjson> out=<trace.ndjson> seed=N long=K maxlen=L real=R
//!         replays every TLC-exported pair of symbol sequences into the 8 counting entry points
//!         (all element types, two value maps), then long constructed sketches and real sketches.
//!  mle    in=<jobs.ndjson> out=<trace.ndjson> seed=N
//!         builds real SetSketch sketches for every job (shape x parameters x register type x rep)
//!         and records the outcome of MleJaccard::get_mle.
//! The outcome of a counting call is the unique integer c with ret == c/len in the function's own
//! float type (`value`), `inexact` if there is none, `refused` (Err) or `panic`.
use fnv::FnvHasher;
use pmh_verif::util::*;
use probminhash::jaccard;
use probminhash::setsketcher::{MleJaccard, SetSketchParams, SetSketcher};
use probminhash::superminhasher as smh;
use probminhash::superminhasher2 as smh2;
use rand::Rng;
use serde_json::{json, Value};
use std::collections::{BTreeMap, HashMap};
use std::sync::Mutex;
use std::hash::BuildHasherDefault;
use twox_hash::XxHash32;

// ------------------------------------------------------------------------------------ outcomes

#[derive(Clone, Debug)]
enum Oc {
    Value(i64),
    Inexact(String),
    Refused,
    Panic(String),
}

trait FloatRes: Copy {
    fn as_count(self, n: usize) -> Oc;
}
macro_rules! floatres {
    ($f:ty) => {
        impl FloatRes for $f {
            fn as_count(self, n: usize) -> Oc {
                if self.is_finite() && n > 0 {
                    let c0 = (self as f64 * n as f64).round() as i64;
                    for c in (c0 - 2)..=(c0 + 2) {
                        // the property says "exactly count / length" (and 1 for identical sketches): the value must be the
                        // correctly rounded quotient in the function's own float type (for a single-precision result the
                        // double-precision quotient rounded once more is accepted too)
                        if c >= 0 && c <= n as i64 {
                            let q = (c as usize) as $f / n as $f;
                            let q2 = ((c as usize) as f64 / n as f64) as $f;
                            if q.to_bits() == self.to_bits() || q2.to_bits() == self.to_bits() {
                                return Oc::Value(c);
                            }
                        }
                    }
                }
                Oc::Inexact(format!("{:e}", self))
            }
        }
    };
}
floatres!(f32);
floatres!(f64);

/// table of entry point names (index 1.. in the trace, the header carries the table)
struct Names {
    idx: HashMap<String, usize>,
    names: Vec<String>,
    frozen: bool,
}
static NAMES: Mutex<Option<Names>> = Mutex::new(None);
fn name_index(ep: &str) -> usize {
    let mut g = NAMES.lock().unwrap();
    let t = g.get_or_insert_with(|| Names { idx: HashMap::new(), names: Vec::new(), frozen: false });
    if let Some(i) = t.idx.get(ep) {
        return *i;
    }
    if t.frozen {
        tool_error(&format!("entry point {} was not registered in the header", ep));
    }
    t.names.push(ep.to_string());
    let i = t.names.len();
    t.idx.insert(ep.to_string(), i);
    i
}
fn names_freeze() -> Vec<String> {
    let mut g = NAMES.lock().unwrap();
    let t = g.as_mut().unwrap();
    t.frozen = true;
    t.names.clone()
}

/// groups the entry points by outcome
#[derive(Default)]
struct Acc {
    groups: BTreeMap<(u8, i64, String), (Vec<usize>, String)>,
    n: usize,
}
impl Acc {
    fn add(&mut self, ep: String, oc: Oc) {
        self.n += 1;
        let ep = name_index(&ep);
        let (key, msg) = match oc {
            Oc::Value(c) => ((0u8, c, String::new()), String::new()),
            Oc::Inexact(s) => ((1u8, -1, s), String::new()),
            Oc::Refused => ((2u8, -1, String::new()), String::new()),
            Oc::Panic(m) => ((3u8, -1, String::new()), m),
        };
        let e = self.groups.entry(key).or_insert_with(|| (Vec::new(), msg));
        e.0.push(ep);
    }
    fn json(&self) -> Value {
        let mut v = Vec::new();
        for ((k, c, extra), (eps, msg)) in &self.groups {
            let out = ["value", "inexact", "refused", "panic"][*k as usize];
            // entry points as inclusive index ranges
            let mut sorted = eps.clone();
            sorted.sort_unstable();
            let mut ranges: Vec<[usize; 2]> = Vec::new();
            for e in sorted {
                match ranges.last_mut() {
                    Some(r) if r[1] + 1 == e => r[1] = e,
                    _ => ranges.push([e, e]),
                }
            }
            let mut o = json!({"out": out, "c": c, "eps": ranges});
            if !extra.is_empty() {
                o["ret"] = json!(extra);
            }
            if !msg.is_empty() {
                o["msg"] = json!(msg);
            }
            v.push(o);
        }
        Value::Array(v)
    }
}

// ------------------------------------------------------------------------------------ element types

trait Elem: PartialEq + std::fmt::Debug + Clone + 'static {
    const NAME: &'static str;
    /// instantiation of the 3 model symbols; style 0 plain, style 1 extreme values
    fn small(sym: usize, style: usize) -> Self;
    /// k and k^1 are mapped to different values
    fn wide(k: u64) -> Self;
}
macro_rules! elem_int {
    ($t:ty) => {
        impl Elem for $t {
            const NAME: &'static str = stringify!($t);
            fn small(sym: usize, style: usize) -> Self {
                if style == 0 {
                    sym as $t
                } else {
                    [<$t>::MAX, <$t>::MIN, <$t>::MAX / 2 + 1][sym]
                }
            }
            fn wide(k: u64) -> Self {
                k as $t
            }
        }
    };
}
elem_int!(u8);
elem_int!(u16);
elem_int!(u32);
elem_int!(u64);
elem_int!(i32);
elem_int!(usize);
impl Elem for f32 {
    const NAME: &'static str = "f32";
    fn small(sym: usize, style: usize) -> Self {
        if style == 0 {
            sym as f32
        } else {
            [f32::INFINITY, f32::MIN_POSITIVE / 4.0, -1.0e-3][sym]
        }
    }
    fn wide(k: u64) -> Self {
        (k % (1 << 22)) as f32 * 0.5
    }
}
impl Elem for f64 {
    const NAME: &'static str = "f64";
    fn small(sym: usize, style: usize) -> Self {
        if style == 0 {
            sym as f64
        } else {
            [f64::MAX, f64::MIN_POSITIVE / 4.0, -0.0][sym]
        }
    }
    fn wide(k: u64) -> Self {
        (k % (1 << 50)) as f64 * 0.5
    }
}
impl Elem for String {
    const NAME: &'static str = "String";
    fn small(sym: usize, style: usize) -> Self {
        if style == 0 {
            ["", "a", "ab"][sym].to_string()
        } else {
            ["\u{e9}t\u{e9}", "a\0", "aaaaaaaaaaaaaaaaaaaaaaaaaaaaaaaaaaaaaaaaaaaaaaaaaaaaaaaaaaaaaaaaaaaaaaab"][sym].to_string()
        }
    }
    fn wide(k: u64) -> Self {
        format!("s{:x}", k)
    }
}

enum Src<'a> {
    Small(&'a [usize], &'a [usize], usize),
    Wide(&'a [u64], &'a [u64]),
}
fn mk<T: Elem>(s: &Src) -> (Vec<T>, Vec<T>) {
    match s {
        Src::Small(a, b, st) => (
            a.iter().map(|x| T::small(*x, *st)).collect(),
            b.iter().map(|x| T::small(*x, *st)).collect(),
        ),
        Src::Wide(a, b) => (a.iter().map(|x| T::wide(*x)).collect(), b.iter().map(|x| T::wide(*x)).collect()),
    }
}

// ------------------------------------------------------------------------------------ free functions

fn run_jaccard<T: Elem>(s: &Src, tag: &str, acc: &mut Acc) {
    let (a, b) = mk::<T>(s);
    let n = a.len();
    acc.add(
        format!("jaccard::compute_probminhash_jaccard<{}>{}", T::NAME, tag),
        match catch(|| jaccard::compute_probminhash_jaccard(&a, &b)) {
            Ok(r) => r.as_count(n),
            Err(m) => Oc::Panic(m),
        },
    );
    acc.add(
        format!("jaccard::get_jaccard_index_estimate<{}>{}", T::NAME, tag),
        match catch(|| jaccard::get_jaccard_index_estimate(&a, &b)) {
            Ok(Ok(r)) => r.as_count(n),
            Ok(Err(_)) => Oc::Refused,
            Err(m) => Oc::Panic(m),
        },
    );
}

fn run_smh_free<F: Elem + num::Float + FloatRes>(s: &Src, tag: &str, acc: &mut Acc) {
    let (a, b) = mk::<F>(s);
    let n = a.len();
    acc.add(
        format!("superminhasher::compute_superminhash_jaccard<{}>{}", F::NAME, tag),
        match catch(|| smh::compute_superminhash_jaccard(&a, &b)) {
            Ok(Ok(r)) => r.as_count(n),
            Ok(Err(_)) => Oc::Refused,
            Err(m) => Oc::Panic(m),
        },
    );
    acc.add(
        format!("superminhasher::get_jaccard_index_estimate<{}>{}", F::NAME, tag),
        match catch(|| smh::get_jaccard_index_estimate(&a, &b)) {
            Ok(Ok(r)) => r.as_count(n),
            Ok(Err(_)) => Oc::Refused,
            Err(m) => Oc::Panic(m),
        },
    );
}

fn run_smh2_free<T: Elem + num::Zero>(s: &Src, tag: &str, acc: &mut Acc) {
    let (a, b) = mk::<T>(s);
    let n = a.len();
    acc.add(
        format!("superminhasher2::compute_superminhash_jaccard<{}>{}", T::NAME, tag),
        match catch(|| smh2::compute_superminhash_jaccard(&a, &b)) {
            Ok(Ok(r)) => r.as_count(n),
            Ok(Err(_)) => Oc::Refused,
            Err(m) => Oc::Panic(m),
        },
    );
    acc.add(
        format!("superminhasher2::get_jaccard_index_estimate<{}>{}", T::NAME, tag),
        match catch(|| smh2::get_jaccard_index_estimate(&a, &b)) {
            Ok(Ok(r)) => r.as_count(n),
            Ok(Err(_)) => Oc::Refused,
            Err(m) => Oc::Panic(m),
        },
    );
}

/// all free entry points for all element types they accept
fn run_free(s: &Src, tag: &str, acc: &mut Acc) {
    run_jaccard::<u8>(s, tag, acc);
    run_jaccard::<u16>(s, tag, acc);
    run_jaccard::<u32>(s, tag, acc);
    run_jaccard::<u64>(s, tag, acc);
    run_jaccard::<i32>(s, tag, acc);
    run_jaccard::<usize>(s, tag, acc);
    run_jaccard::<f32>(s, tag, acc);
    run_jaccard::<f64>(s, tag, acc);
    run_jaccard::<String>(s, tag, acc);
    run_smh_free::<f32>(s, tag, acc);
    run_smh_free::<f64>(s, tag, acc);
    run_smh2_free::<u8>(s, tag, acc);
    run_smh2_free::<u16>(s, tag, acc);
    run_smh2_free::<u32>(s, tag, acc);
    run_smh2_free::<u64>(s, tag, acc);
    run_smh2_free::<i32>(s, tag, acc);
    run_smh2_free::<usize>(s, tag, acc);
    run_smh2_free::<f32>(s, tag, acc);
    run_smh2_free::<f64>(s, tag, acc);
}
const NFREE_ONE: usize = 18 + 4 + 16;

// ------------------------------------------------------------------------------------ methods

/// a sketcher whose own sketch is the left argument of the method entry point
trait MSk: Sized {
    type V: Copy + PartialEq + PartialOrd;
    const NAME: &'static str;
    fn new(m: usize) -> Self;
    fn sk(&mut self, id: u64);
    fn hs(&self) -> Vec<Self::V>;
    /// None = refused
    fn est(&self, other: &Vec<Self::V>) -> Option<f64>;
    /// a value different from v
    fn bump(v: Self::V) -> Self::V;
}
macro_rules! msk_smh {
    ($name:ident, $f:ty, $label:expr) => {
        struct $name(smh::SuperMinHash<$f, u64, FnvHasher>);
        impl MSk for $name {
            type V = $f;
            const NAME: &'static str = $label;
            fn new(m: usize) -> Self {
                $name(smh::SuperMinHash::new(m, BuildHasherDefault::<FnvHasher>::default()))
            }
            fn sk(&mut self, id: u64) {
                self.0.sketch(&id).unwrap();
            }
            fn hs(&self) -> Vec<$f> {
                self.0.get_hsketch().clone()
            }
            fn est(&self, other: &Vec<$f>) -> Option<f64> {
                self.0.get_jaccard_index_estimate(other).ok()
            }
            fn bump(v: $f) -> $f {
                if v > 1.0e6 {
                    v / 2.0
                } else {
                    v + 1.0
                }
            }
        }
    };
}
msk_smh!(MSmh64, f64, "SuperMinHash<f64>::get_jaccard_index_estimate");
msk_smh!(MSmh32, f32, "SuperMinHash<f32>::get_jaccard_index_estimate");
macro_rules! msk_smh2 {
    ($name:ident, $i:ty, $h:ty, $label:expr) => {
        struct $name(smh2::SuperMinHash2<$i, u64, $h>);
        impl MSk for $name {
            type V = $i;
            const NAME: &'static str = $label;
            fn new(m: usize) -> Self {
                $name(smh2::SuperMinHash2::new(m, BuildHasherDefault::<$h>::default()))
            }
            fn sk(&mut self, id: u64) {
                self.0.sketch(&id).unwrap();
            }
            fn hs(&self) -> Vec<$i> {
                self.0.get_hsketch().clone()
            }
            fn est(&self, other: &Vec<$i>) -> Option<f64> {
                self.0.get_jaccard_index_estimate(other).ok()
            }
            fn bump(v: $i) -> $i {
                v.wrapping_add(1)
            }
        }
    };
}
msk_smh2!(MSmh2U64, u64, FnvHasher, "SuperMinHash2<u64>::get_jaccard_index_estimate");
msk_smh2!(MSmh2U32, u32, XxHash32, "SuperMinHash2<u32>::get_jaccard_index_estimate");
const NMETHOD: usize = 4;


/// dense joint ranks (an isomorphism for `==`)
fn ranks<V: Copy + PartialEq + PartialOrd>(a: &[V], b: &[V]) -> (Vec<i64>, Vec<i64>) {
    let mut all: Vec<V> = a.iter().chain(b.iter()).copied().collect();
    all.sort_by(|x, y| x.partial_cmp(y).unwrap_or_else(|| tool_error("incomparable sketch value (NaN) in a real sketch")));
    all.dedup_by(|x, y| x == y);
    let rk = |v: &V| all.binary_search_by(|p| p.partial_cmp(v).unwrap()).unwrap() as i64;
    (a.iter().map(rk).collect(), b.iter().map(rk).collect())
}

fn est_outcome<S: MSk>(s: &S, b: &Vec<S::V>, n: usize) -> Oc {
    match catch(|| s.est(b)) {
        Ok(Some(r)) => r.as_count(n),
        Ok(None) => Oc::Refused,
        Err(m) => Oc::Panic(m),
    }
}

fn build<S: MSk>(m: usize, nitems: usize, rng: &mut impl Rng) -> Result<S, String> {
    let ids: Vec<u64> = (0..nitems).map(|_| rng.random::<u64>()).collect();
    catch(|| {
        let mut s = S::new(m);
        for id in &ids {
            s.sk(*id);
        }
        s
    })
}

/// realises the equality pattern of the model pair (pa, pb) with a real sketch as left argument
fn method_pattern<S: MSk>(pa: &[usize], pb: &[usize], rng: &mut impl Rng, calls: &mut Vec<Value>, skipped: &mut u64) {
    let n = pa.len();
    let nit = rng.random_range(0..=5usize);
    let s = match build::<S>(n, nit, rng) {
        Ok(s) => s,
        Err(_) => {
            *skipped += 1;
            return;
        }
    };
    let nit2 = rng.random_range(1..=5usize);
    let o = match build::<S>(pb.len(), nit2, rng) {
        Ok(s) => s,
        Err(_) => {
            *skipped += 1;
            return;
        }
    };
    let a = s.hs();
    let ov = o.hs();
    let mut b: Vec<S::V> = Vec::with_capacity(pb.len());
    for i in 0..pb.len() {
        if i < n && pa[i] == pb[i] {
            b.push(a[i]);
        } else {
            let mut v = ov[i];
            if i < n && v == a[i] {
                v = S::bump(v);
            }
            b.push(v);
        }
    }
    let mut acc = Acc::default();
    acc.add(S::NAME.to_string(), est_outcome(&s, &b, n));
    let (ra, rb) = ranks(&a, &b);
    calls.push(json!({"grp": "method", "a": ra, "b": rb, "res": acc.json(), "items": nit}));
}

/// two real sketches of overlapping sets, also truncated / extended right arguments
fn method_real<S: MSk>(m: usize, rng: &mut impl Rng, calls: &mut Vec<Value>, skipped: &mut u64) {
    let na = rng.random_range(0..=3 * m + 2);
    let common = rng.random_range(0..=na);
    let nb = rng.random_range(0..=2 * m + 2);
    let ida: Vec<u64> = (0..na).map(|_| rng.random::<u64>()).collect();
    let mut idb: Vec<u64> = ida[..common].to_vec();
    idb.extend((0..nb).map(|_| rng.random::<u64>()));
    let r = catch(|| {
        let mut s = S::new(m);
        for id in &ida {
            s.sk(*id);
        }
        let mut o = S::new(m);
        for id in &idb {
            o.sk(*id);
        }
        (s, o)
    });
    let (s, o) = match r {
        Ok(x) => x,
        Err(_) => {
            *skipped += 1;
            return;
        }
    };
    let a = s.hs();
    let full = o.hs();
    let mut variants: Vec<Vec<S::V>> = vec![full.clone(), a.clone()];
    let mut t = full.clone();
    t.pop();
    variants.push(t);
    let mut e = full.clone();
    e.push(full[0]);
    variants.push(e);
    for b in variants {
        let mut acc = Acc::default();
        acc.add(S::NAME.to_string(), est_outcome(&s, &b, a.len()));
        let (ra, rb) = ranks(&a, &b);
        calls.push(json!({"grp": "method", "a": ra, "b": rb, "res": acc.json(), "items": na}));
    }
    // the arguments exchanged: the second sketcher's own sketch against the first sketch
    let mut acc = Acc::default();
    acc.add(S::NAME.to_string(), est_outcome(&o, &a, full.len()));
    let (ra, rb) = ranks(&full, &a);
    calls.push(json!({"grp": "method", "a": ra, "b": rb, "res": acc.json(), "items": idb.len()}));
}

/// long sketch with a constructed set of differing positions
fn method_long<S: MSk>(n: usize, nbl: usize, diff: &[bool], rng: &mut impl Rng, acc: &mut Acc, skipped: &mut u64) {
    let nit = rng.random_range(1..=3usize);
    let s = match build::<S>(n, nit, rng) {
        Ok(s) => s,
        Err(_) => {
            *skipped += 1;
            return;
        }
    };
    let a = s.hs();
    let mut b: Vec<S::V> = (0..nbl.min(n)).map(|i| if diff[i] { S::bump(a[i]) } else { a[i] }).collect();
    while b.len() < nbl {
        b.push(a[0]);
    }
    acc.add(S::NAME.to_string(), est_outcome(&s, &b, n));
}

// ------------------------------------------------------------------------------------ count mode

fn usv(v: &Value) -> Vec<usize> {
    v.as_array().unwrap().iter().map(|x| x.as_u64().unwrap() as usize).collect()
}

fn count(a: &Args) {
    silence_panics();
    let pairs = read_ndjson(&a.str("in"));
    let seed = a.u64_or("seed", 1);
    let nlong = a.usize_or("long", 20);
    let maxlen = a.usize_or("maxlen", 10000);
    let nreal = a.usize_or("real", 20);
    let mut out = Out::create(&a.str("out"));
    let mut events = 0u64;
    let mut skipped = 0u64;
    {
        // dry run: registers the names of all entry points, in a fixed order
        let mut acc = Acc::default();
        let mut calls = Vec::new();
        let mut r0 = rng_from(0, 0);
        run_free(&Src::Small(&[0], &[0], 0), "#0", &mut acc);
        run_free(&Src::Small(&[0], &[0], 1), "#1", &mut acc);
        run_free(&Src::Wide(&[0], &[0]), "#w", &mut acc);
        method_pattern::<MSmh64>(&[0, 1], &[0, 1], &mut r0, &mut calls, &mut skipped);
        method_pattern::<MSmh32>(&[0, 1], &[0, 1], &mut r0, &mut calls, &mut skipped);
        method_pattern::<MSmh2U64>(&[0, 1], &[0, 1], &mut r0, &mut calls, &mut skipped);
        method_pattern::<MSmh2U32>(&[0, 1], &[0, 1], &mut r0, &mut calls, &mut skipped);
        if skipped > 0 || acc.n != 3 * NFREE_ONE {
            tool_error("dry run of the entry points failed");
        }
    }
    let names = names_freeze();
    out.line(&json!({"op": "header", "nfree": 2 * NFREE_ONE, "nlong": NFREE_ONE + NMETHOD, "nmethod": 1, "seed": seed,
                     "eps": names}));
    // (1) every pair exported by TLC
    for (i, p) in pairs.iter().enumerate() {
        let pa = usv(&p["a"]);
        let pb = usv(&p["b"]);
        // the items of the real sketches depend on (seed, pair) only: a single pair replays exactly
        let mut h: u64 = 1469598103934665603;
        for x in pa.iter().chain([9usize].iter()).chain(pb.iter()) {
            h = (h ^ (*x as u64 + 1)).wrapping_mul(1099511628211);
        }
        let mut rng = rng_from(seed, h);
        let mut acc = Acc::default();
        run_free(&Src::Small(&pa, &pb, 0), "#0", &mut acc);
        run_free(&Src::Small(&pa, &pb, 1), "#1", &mut acc);
        let mut calls = vec![json!({"grp": "free", "a": pa, "b": pb, "res": acc.json()})];
        method_pattern::<MSmh64>(&pa, &pb, &mut rng, &mut calls, &mut skipped);
        method_pattern::<MSmh32>(&pa, &pb, &mut rng, &mut calls, &mut skipped);
        method_pattern::<MSmh2U64>(&pa, &pb, &mut rng, &mut calls, &mut skipped);
        method_pattern::<MSmh2U32>(&pa, &pb, &mut rng, &mut calls, &mut skipped);
        out.line(&json!({"op": "count", "mode": "pair", "id": i, "calls": calls}));
        events += 1;
    }
    // (2) long sketches, the differing positions are chosen, not measured
    let mut rng = rng_from(seed, 15);
    for k in 0..nlong {
        let n = match k % 5 {
            0 => maxlen,
            1 => rng.random_range(1..=8usize),
            _ => rng.random_range(5..=maxlen),
        };
        let nd = match k % 7 {
            0 => 0,
            1 => 1.min(n),
            2 => n,
            3 => rng.random_range(0..=n.min(20)),
            4 => n - rng.random_range(0..=n.min(20)),
            _ => rng.random_range(0..=n),
        };
        let nbl = match k % 6 {
            4 => n + 1,
            5 => (n - 1).max(1),
            _ => n,
        };
        let mut diff = vec![false; n];
        let mut idx: Vec<usize> = (0..n).collect();
        for i in 0..nd {
            let j = rng.random_range(i..n);
            idx.swap(i, j);
            diff[idx[i]] = true;
        }
        let ka: Vec<u64> = (0..n).map(|_| rng.random::<u64>() & !1).collect();
        let mut kb: Vec<u64> = (0..nbl.min(n)).map(|i| if diff[i] { ka[i] ^ 1 } else { ka[i] }).collect();
        while kb.len() < nbl {
            kb.push(ka[0]);
        }
        let mut acc = Acc::default();
        run_free(&Src::Wide(&ka, &kb), "#w", &mut acc);
        method_long::<MSmh64>(n, nbl, &diff, &mut rng, &mut acc, &mut skipped);
        method_long::<MSmh32>(n, nbl, &diff, &mut rng, &mut acc, &mut skipped);
        method_long::<MSmh2U64>(n, nbl, &diff, &mut rng, &mut acc, &mut skipped);
        method_long::<MSmh2U32>(n, nbl, &diff, &mut rng, &mut acc, &mut skipped);
        let (mode, pos): (&str, Vec<usize>) = if 2 * nd <= n {
            ("diff", (0..n).filter(|i| diff[*i]).map(|i| i + 1).collect())
        } else {
            ("same", (0..n).filter(|i| !diff[*i]).map(|i| i + 1).collect())
        };
        out.line(&json!({"op": "long", "n": n, "nb": nbl, "mode": mode, "pos": pos, "res": acc.json()}));
        events += 1;
    }
    // (3) real sketches on both sides
    let mut rng = rng_from(seed, 16);
    let sizes = [1usize, 2, 3, 4, 5, 8, 16, 64, 256];
    for k in 0..nreal {
        let m = sizes[k % sizes.len()];
        let mut calls = Vec::new();
        method_real::<MSmh64>(m, &mut rng, &mut calls, &mut skipped);
        method_real::<MSmh32>(m, &mut rng, &mut calls, &mut skipped);
        method_real::<MSmh2U64>(m, &mut rng, &mut calls, &mut skipped);
        method_real::<MSmh2U32>(m, &mut rng, &mut calls, &mut skipped);
        out.line(&json!({"op": "count", "mode": "real", "id": k, "m": m, "calls": calls}));
        events += 1;
    }
    out.line(&json!({"op": "end", "n": events, "skipped": skipped}));
    out.finish();
}

// ------------------------------------------------------------------------------------ mle mode

extern "C" {
    fn dup(fd: i32) -> i32;
    fn dup2(oldfd: i32, newfd: i32) -> i32;
}

/// get_mle logs every solver iteration to the terminal (slog): send fd 1 and 2 to /dev/null,
/// returns a duplicate of the original stderr
fn silence_terminal() -> i32 {
    use std::os::unix::io::AsRawFd;
    let devnull = std::fs::OpenOptions::new()
        .write(true)
        .open("/dev/null")
        .unwrap_or_else(|_| tool_error("cannot open /dev/null"));
    unsafe {
        let saved = dup(2);
        dup2(devnull.as_raw_fd(), 1);
        dup2(devnull.as_raw_fd(), 2);
        saved
    }
}

macro_rules! mle_job {
    ($i:ty, $params:expr, $m:expr, $ia:expr, $ib:expr) => {{
        let bh = BuildHasherDefault::<FnvHasher>::default;
        let built = catch(|| {
            let mut s1: SetSketcher<$i, u64, FnvHasher> = SetSketcher::new($params(), bh());
            for id in $ia.iter() {
                s1.sketch(id).unwrap();
            }
            let mut s2: SetSketcher<$i, u64, FnvHasher> = SetSketcher::new($params(), bh());
            for id in $ib.iter() {
                s2.sketch(id).unwrap();
            }
            (s1.get_signature().clone(), s2.get_signature().clone())
        });
        match built {
            Err(m) => Err(m),
            Ok((g1, g2)) => {
                let mle = MleJaccard::from($params());
                let c1 = catch(|| mle.get_cardinal_estimate(&g1)).unwrap_or(f64::NAN);
                let c2 = catch(|| mle.get_cardinal_estimate(&g2)).unwrap_or(f64::NAN);
                let deq = (0..g1.len().min(g2.len())).filter(|i| g1[*i] == g2[*i]).count();
                let zeros = (
                    g1.iter().filter(|x| **x == 0).count(),
                    g2.iter().filter(|x| **x == 0).count(),
                );
                let res = catch(|| mle.get_mle(&g1, &g2));
                Ok((c1, c2, deq, zeros, res))
            }
        }
    }};
}

fn mle(a: &Args) {
    silence_panics();
    let jobs = read_ndjson(&a.str("in"));
    let seed = a.u64_or("seed", 1);
    let mut out = Out::create(&a.str("out"));
    let saved_err = silence_terminal();
    let fail = |msg: &str| -> ! {
        unsafe {
            dup2(saved_err, 2);
        }
        tool_error(msg)
    };
    out.line(&json!({"op": "header", "seed": seed, "jobs": jobs.len()}));
    let mut events = 0u64;
    for (ji, j) in jobs.iter().enumerate() {
        let shape = usv(&j["shape"]);
        let rep = j["rep"].as_u64().unwrap();
        let ty = j["ty"].as_str().unwrap().to_string();
        let pj = &j["params"];
        let default = pj.is_string();
        let (pb, pm, pa, pq) = if default {
            let p = SetSketchParams::default();
            (p.get_b(), p.get_m(), p.get_a(), p.get_q())
        } else {
            (
                pj[0].as_f64().unwrap(),
                pj[1].as_u64().unwrap(),
                pj[2].as_f64().unwrap(),
                pj[3].as_u64().unwrap(),
            )
        };
        let params = || {
            if default {
                SetSketchParams::default()
            } else {
                SetSketchParams::new(pb, pm, pa, pq)
            }
        };
        // item identifiers: a function of (seed, shape, rep) only
        let stream = (shape[0] as u64) * 1_000_003 + (shape[1] as u64) * 10_007 + (shape[2] as u64) * 101 + rep * 7_000_000_001;
        let mut rng = rng_from(seed, stream);
        let only_a: Vec<u64> = (0..shape[0]).map(|_| rng.random::<u64>()).collect();
        let only_b: Vec<u64> = (0..shape[1]).map(|_| rng.random::<u64>()).collect();
        let both: Vec<u64> = (0..shape[2]).map(|_| rng.random::<u64>()).collect();
        let ia: Vec<u64> = only_a.iter().chain(both.iter()).copied().collect();
        // the second set is streamed in another order
        let ib: Vec<u64> = both.iter().rev().chain(only_b.iter()).copied().collect();
        let r = match ty.as_str() {
            "u16" => mle_job!(u16, params, pm, ia, ib),
            "u32" => mle_job!(u32, params, pm, ia, ib),
            _ => fail("unknown register type"),
        };
        let (c1, c2, deq, zeros, res) = match r {
            Ok(x) => x,
            Err(m) => fail(&format!("building the sketches of job {} panicked: {}", ji, m)),
        };
        let m = pm as f64;
        let jac = deq as f64 / m;
        let aux = c1 / c2;
        let b_sup = aux.min(1.0 / aux);
        let cards_ok = c1.is_finite() && c2.is_finite() && c1 > 0.0 && c2 > 0.0;
        let in_bracket = cards_ok && jac >= 0.0 && jac <= b_sup;
        // get_mle recomputes the cardinal estimates with a parallel sum whose order is not fixed:
        // the last bits of b_sup cannot be reproduced from outside
        let at_edge = cards_ok && (jac - b_sup).abs() <= 1e-9 * b_sup;
        let (outc, jv, msg) = match &res {
            Ok(Some(v)) => ("value", *v, String::new()),
            Ok(None) => ("none", f64::NAN, String::new()),
            Err(m) => ("panic", f64::NAN, m.clone()),
        };
        let finite = jv.is_finite();
        let ge0 = finite && jv >= 0.0;
        let le1 = finite && jv <= 1.0;
        let good = outc == "value" && finite && ge0 && le1;
        let cause = if good {
            "-"
        } else if !cards_ok {
            "bad_cardinal_estimate"
        } else if outc == "panic" {
            if at_edge {
                "start_at_bracket_edge"
            } else if !in_bracket {
                "start_outside_bracket"
            } else {
                "other"
            }
        } else if outc == "none" {
            "best_param_none"
        } else if !finite {
            "value_not_finite"
        } else {
            "value_out_of_range"
        };
        let j_e9: i64 = if finite && jv.abs() < 2.0 { (jv * 1e9).round() as i64 } else { -1 };
        out.line(&json!({"op": "mle", "job": ji, "params": format!("b={},m={},a={},q={}", pb, pm, pa, pq), "m": pm, "ty": ty,
            "shape": shape, "class": j["class"], "rep": rep, "out": outc, "finite": finite, "ge0": ge0, "le1": le1,
            "j_e9": j_e9, "j": format!("{:e}", jv), "c1": format!("{:e}", c1), "c2": format!("{:e}", c2), "deq": deq,
            "b_sup": format!("{:e}", b_sup), "zeros": [zeros.0, zeros.1],
            "in_bracket": in_bracket, "at_edge": at_edge, "cause": cause, "msg": msg, "jobspec": j}));
        events += 1;
    }
    out.line(&json!({"op": "end", "n": events, "skipped": 0}));
    out.finish();
}

/// huge out=<json> : the float-typed free estimators on sketches of 2^24 + 4097 positions (beyond the integers a single
/// precision float counts exactly): identical sketches must give exactly 1, sketches that differ in 5 positions exactly
/// (n - 5) / n in the function's own float type
fn huge(a: &Args) {
    silence_panics();
    let n: usize = (1usize << 24) + 4097;
    let mut cases: Vec<Value> = Vec::new();
    macro_rules! go {
        ($f:ty, $name:expr) => {{
            let x: Vec<$f> = (0..n).map(|i| (i % 1000) as $f + 0.25).collect();
            let mut y = x.clone();
            for (k, want_diff) in [(0usize, 0usize), (1, 5)] {
                if k == 1 {
                    for j in 0..5 {
                        y[j * 3_000_001 + 7] = -1.0;
                    }
                }
                let want = ((n - want_diff) as $f / n as $f) as f64;
                let want2 = (((n - want_diff) as f64 / n as f64) as $f) as f64;
                for (fname, r) in [
                    ("superminhasher::compute_superminhash_jaccard", catch(|| smh::compute_superminhash_jaccard(&x, &y).map(|v| v as f64).map_err(|_| ()))),
                    ("superminhasher::get_jaccard_index_estimate", catch(|| smh::get_jaccard_index_estimate(&x, &y).map(|v| v as f64).map_err(|_| ()))),
                ] {
                    let (outcome, got) = match r {
                        Ok(Ok(v)) => (if v == want || v == want2 { "exact" } else { "inexact" }, Some(v)),
                        Ok(Err(_)) => ("refused", None),
                        Err(_) => ("panic", None),
                    };
                    cases.push(json!({"fn": format!("{}<{}>", fname, $name), "len": n, "differing": want_diff, "outcome": outcome,
                                      "got": got.map(|v| format!("{:e}", v)), "want": format!("{:e}", want)}));
                }
            }
        }};
    }
    go!(f32, "f32");
    go!(f64, "f64");
    write_json(&a.str("out"), &json!({"cases": cases}));
}

/// alias out=<json> : the free estimators called with both arguments taken from ONE buffer: the whole of it twice must
/// give exactly 1, the whole of it against a proper prefix of it must be reported (Err or panic) like any other length
/// mismatch
fn alias(a: &Args) {
    silence_panics();
    let mut cases: Vec<Value> = Vec::new();
    let n = 97usize;
    let vu: Vec<u64> = (0..n as u64).map(|i| i * 7 + 3).collect();
    let vf: Vec<f64> = (0..n).map(|i| i as f64 + 0.5).collect();
    let vs: Vec<f32> = (0..n).map(|i| i as f32 + 0.5).collect();
    let mut push = |name: &str, same: Result<Option<f64>, String>, pre: Result<Option<f64>, String>| {
        let s_ok = matches!(same, Ok(Some(v)) if v == 1.0);
        let p_ok = !matches!(pre, Ok(Some(_)));
        cases.push(json!({"fn": name, "same_buffer_twice": format!("{:?}", same), "buffer_vs_its_prefix": format!("{:?}", pre),
                          "ok": s_ok && p_ok}));
    };
    push("jaccard::compute_probminhash_jaccard<u64>", catch(|| Some(jaccard::compute_probminhash_jaccard(&vu[..], &vu[..]))),
         catch(|| Some(jaccard::compute_probminhash_jaccard(&vu[..], &vu[..n - 5]))));
    push("superminhasher::compute_superminhash_jaccard<f64>", catch(|| smh::compute_superminhash_jaccard(&vf[..], &vf[..]).ok()),
         catch(|| smh::compute_superminhash_jaccard(&vf[..], &vf[..n - 5]).ok()));
    push("superminhasher::compute_superminhash_jaccard<f32>", catch(|| smh::compute_superminhash_jaccard(&vs[..], &vs[..]).ok().map(|v| v as f64)),
         catch(|| smh::compute_superminhash_jaccard(&vs[..], &vs[..n - 5]).ok().map(|v| v as f64)));
    push("superminhasher::get_jaccard_index_estimate<f64>", catch(|| smh::get_jaccard_index_estimate(&vf[..], &vf[..]).ok()),
         catch(|| smh::get_jaccard_index_estimate(&vf[..], &vf[..n - 5]).ok()));
    write_json(&a.str("out"), &json!({"cases": cases}));
}

fn main() {
    let argv: Vec<String> = std::env::args().skip(1).collect();
    if argv.is_empty() {
        tool_error("usage: c14 count|mle key=value...");
    }
    let a = Args::parse(&argv[1..]);
    match argv[0].as_str() {
        "count" => count(&a),
        "mle" => mle(&a),
        "huge" => huge(&a),
        "alias" => alias(&a),
        _ => tool_error("unknown mode"),
    }
}
