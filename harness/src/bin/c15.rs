//! C15: max tracker.  (a) replay of every transition of the TLC state graph on the real object,
//! (b) recording of random update sequences for trace validation.
use pmh_verif::util::*;
use probminhash::verif::VerifMaxTracker;
use rand::Rng;
use serde_json::{json, Value};

const INF_RANK: i64 = 1_000_000;

/// the value an untouched slot holds (the crate's "type maximum", f64::MAX today): read from a new tracker, so that the
/// property - the maximum of the per-slot minima - is checked whatever that constant is
fn inf() -> f64 {
    static INF: std::sync::OnceLock<f64> = std::sync::OnceLock::new();
    *INF.get_or_init(|| VerifMaxTracker::new(1).get_max_value())
}

fn value_map(v: usize, rng: &mut impl Rng) -> Vec<f64> {
    // strictly increasing random reals for 0..v-1, the type maximum for v; sometimes adjacent floats
    let mut xs: Vec<f64> = Vec::with_capacity(v + 1);
    let style = rng.random_range(0..4);
    let mut cur: f64 = match style {
        0 => rng.random::<f64>(),
        1 => 1e-300 * rng.random::<f64>(),
        2 => 1e300 * rng.random::<f64>(),
        _ => 0.0,
    };
    for _ in 0..v {
        xs.push(cur);
        cur = match style {
            3 => f64::from_bits(cur.to_bits() + 1),
            _ => cur * (1.0 + rng.random::<f64>()) + f64::MIN_POSITIVE,
        };
    }
    xs.push(inf());
    xs
}

fn observe(t: &VerifMaxTracker, m: usize) -> (Vec<f64>, f64) {
    ((0..m).map(|k| t.get_value(k)).collect(), t.get_max_value())
}

/// replay in=<ndjson of TR records> out=<json summary> seed=N
fn replay(a: &Args) {
    silence_panics();
    let recs = read_ndjson(&a.str("in"));
    let seed = a.u64_or("seed", 1);
    let mut rng = rng_from(seed, 15);
    let mut mism: Vec<Value> = Vec::new();
    let mut drift = 0u64;
    let mut n = 0u64;
    for r in &recs {
        n += 1;
        let m = r["m"].as_u64().unwrap() as usize;
        let v = r["v"].as_u64().unwrap() as usize;
        let s: Vec<usize> = r["s"].as_array().unwrap().iter().map(|x| x.as_u64().unwrap() as usize).collect();
        let t: Vec<usize> = r["t"].as_array().unwrap().iter().map(|x| x.as_u64().unwrap() as usize).collect();
        let sv: Vec<usize> = r["sv"].as_array().unwrap().iter().map(|x| x.as_u64().unwrap() as usize).collect();
        let tv: Vec<usize> = r["tv"].as_array().unwrap().iter().map(|x| x.as_u64().unwrap() as usize).collect();
        let act: Vec<i64> = r["a"].as_array().unwrap().iter().map(|x| x.as_i64().unwrap()).collect();
        let xs = value_map(v, &mut rng);
        let res = catch(|| {
            let mut tr = VerifMaxTracker::new(m);
            // build s by a seed dependent path: optional larger values first, slots in random order
            let mut order: Vec<usize> = (0..m).collect();
            for i in (1..m).rev() {
                let j = rng.random_range(0..=i);
                order.swap(i, j);
            }
            let mut path: Vec<(usize, usize)> = Vec::new();
            for &k in &order {
                if s[k] < v {
                    if rng.random_bool(0.5) {
                        let hi = rng.random_range(s[k]..v);
                        path.push((k, hi));
                    }
                    path.push((k, s[k]));
                    if rng.random_bool(0.3) {
                        let hi = rng.random_range(s[k]..=v);
                        path.push((k, hi)); // non improving
                    }
                }
            }
            for &(k, val) in &path {
                tr.update(k, xs[val]);
            }
            let mut bad: Vec<String> = Vec::new();
            let mut dr = 0u64;
            let check = |tr: &VerifMaxTracker, want: &Vec<usize>, wantv: &Vec<usize>, tag: &str, bad: &mut Vec<String>, dr: &mut u64| {
                let (leaves, mx) = observe(tr, m);
                for k in 0..m {
                    if leaves[k] != xs[want[k]] {
                        bad.push(format!("{}: slot {} holds {:e}, expected value #{}", tag, k, leaves[k], want[k]));
                    }
                }
                let wmax = *want.iter().max().unwrap();
                if mx != xs[wmax] {
                    bad.push(format!("{}: max is {:e}, expected value #{}", tag, mx, wmax));
                }
                for val in 0..=v {
                    let p = tr.is_update_possible(xs[val]);
                    if p != (val < wmax) {
                        bad.push(format!("{}: is_update_possible(value #{}) = {}, max is #{}", tag, val, p, wmax));
                    }
                }
                for n in m..(2 * m - 1) {
                    if tr.get_value(n) != xs[wantv[n]] {
                        *dr += 1;
                    }
                }
            };
            check(&tr, &s, &sv, "pre", &mut bad, &mut dr);
            if act[0] >= 0 {
                tr.update(act[0] as usize, xs[act[1] as usize]);
            } else {
                tr.reset();
            }
            check(&tr, &t, &tv, "post", &mut bad, &mut dr);
            (bad, dr, path)
        });
        match res {
            Ok((bad, dr, path)) => {
                drift += dr;
                if !bad.is_empty() && mism.len() < 50 {
                    mism.push(json!({"rec": r, "path": path, "values": xs, "bad": bad}));
                }
            }
            Err(msg) => {
                if mism.len() < 50 {
                    mism.push(json!({"rec": r, "values": xs, "bad": [format!("panic: {}", msg)]}));
                }
            }
        }
    }
    write_json(&a.str("out"), &json!({"evaluations": n, "mismatches": mism, "drift": drift}));
}

/// record out=<ndjson> seed=N runs=R maxm=M len=L : random update sequences on the real object
fn record(a: &Args) {
    silence_panics();
    let seed = a.u64_or("seed", 1);
    let runs = a.usize_or("runs", 20);
    let maxm = a.usize_or("maxm", 12);
    let len = a.usize_or("len", 60);
    let mut rng = rng_from(seed, 1515);
    let mut out = Out::create(&a.str("out"));
    out.line(&json!({"kind": "C15", "inf": INF_RANK}));
    for run in 0..runs {
        let m = match run % 5 {
            0 => 1 + run % 3,
            1 => 1usize << rng.random_range(0..=(maxm as f64).log2() as u32),
            _ => rng.random_range(1..=maxm),
        };
        let pool_n = if run % 2 == 0 { rng.random_range(2..6) } else { rng.random_range(6..40) };
        let mut pool = value_map(pool_n, &mut rng);
        // pool includes the type maximum as last
        if run % 3 == 0 {
            pool[0] = 0.0;
        }
        let ranker = Ranker::build(pool.iter().cloned().filter(|x| *x != inf()), 0);
        let rk = |x: f64| if x == inf() { INF_RANK } else { ranker.rank(x) };
        out.line(&json!({"op": "new", "run": run, "m": m}));
        let mut tr = match catch(|| VerifMaxTracker::new(m)) {
            Ok(t) => t,
            Err(e) => {
                out.line(&json!({"op": "panic", "run": run, "msg": e}));
                continue;
            }
        };
        let sparse = m > 16;
        let mut prev: Vec<f64> = (0..m).map(|k| tr.get_value(k)).collect();
        // every other run a second, unobserved tracker (same or another size) is used between the steps of the observed
        // one: trackers are independent objects
        let mut decoy = if run % 2 == 1 {
            let dm = if run % 4 == 1 { m } else { rng.random_range(1..=maxm) };
            catch(|| VerifMaxTracker::new(dm)).ok().map(|t| (t, dm))
        } else {
            None
        };
        for _step in 0..len {
            if let Some((d, dm)) = decoy.as_mut() {
                let k = rng.random_range(0..*dm);
                let x = pool[rng.random_range(0..pool.len())];
                let _ = catch(|| {
                    if rng.random_range(0..10) == 0 {
                        d.reset();
                    } else {
                        d.update(k, x);
                    }
                    d.get_max_value()
                });
            }
            let is_reset = rng.random_range(0..25) == 0;
            let k = rng.random_range(0..m);
            let x = pool[rng.random_range(0..pool.len())];
            let r = catch(|| {
                if is_reset {
                    tr.reset();
                } else {
                    tr.update(k, x);
                }
            });
            if let Err(e) = r {
                out.line(&json!({"op": "panic", "run": run, "msg": e, "k": k, "v": rk(x)}));
                break;
            }
            let (leaves, mx) = observe(&tr, m);
            let mut probes: Vec<Value> = Vec::new();
            for j in 0..3 {
                let pv = if j == 0 { x } else if j == 1 { mx } else { pool[rng.random_range(0..pool.len())] };
                probes.push(json!([rk(pv), tr.is_update_possible(pv)]));
            }
            let mut ev = json!({"run": run, "max": rk(mx), "probes": probes});
            if is_reset {
                ev["op"] = json!("reset");
            } else {
                ev["op"] = json!("update");
                ev["k"] = json!(k + 1);
                ev["v"] = json!(rk(x));
            }
            if sparse {
                let chg: Vec<Value> = (0..m)
                    .filter(|&i| leaves[i] != prev[i])
                    .map(|i| json!([i + 1, rk(leaves[i])]))
                    .collect();
                ev["chg"] = json!(chg);
            } else {
                ev["leaves"] = json!(leaves.iter().map(|x| rk(*x)).collect::<Vec<i64>>());
            }
            prev = leaves;
            out.line(&ev);
        }
    }
    out.finish();
}

/// longlife out=<json> seed=N cycles=C : ONE tracker lives through C cycles of (one or two updates, reset); at check
/// points (dense around 2^8 and 2^16 cycles and their multiples, sparse elsewhere) it must look like a new tracker right
/// after the reset (every slot and the maximum at the type maximum, every finite value accepted) and, fed a fixed
/// sequence of updates, report the slots and the maximum a new tracker reports.
fn longlife(a: &Args) {
    silence_panics();
    let seed = a.u64_or("seed", 1);
    let cycles = a.u64_or("cycles", 140_000);
    let mut cases: Vec<Value> = Vec::new();
    // two regimes per size: the written slot rotates / every slot is written in the first cycle and only slot 0 afterwards
    // (what the other slots and the inner nodes hold then stems from a reset tens of thousands of cycles back)
    for (m, rotate) in [(1usize, true), (2, true), (3, true), (4, true), (7, true), (16, true), (2, false), (3, false), (4, false), (7, false), (16, false)] {
        let mut rng = rng_from(seed, 15_700 + m as u64 + if rotate { 0 } else { 100 });
        let r = catch(|| {
            let mut old = VerifMaxTracker::new(m);
            let mut bad: Vec<Value> = Vec::new();
            let mut checks = 0u64;
            for c in 1..=cycles {
                if rotate {
                    let k = (c as usize) % m;
                    old.update(k, rng.random_range(0.0..100.0));
                    if c % 5 == 0 {
                        old.update((k + 1) % m, rng.random_range(0.0..100.0));
                    }
                } else if c == 1 {
                    for k in 0..m {
                        old.update(k, 10.0 + k as f64);
                    }
                } else {
                    old.update(0, rng.random_range(0.0..100.0));
                }
                old.reset();
                // c is exactly the number of resets so far (a check point only looks and updates)
                let near = |x: u64| (c % x) <= 6 || (c % x) >= x - 6;
                let at_check = if rotate { (near(256) && c < 2000) || near(65536) || c % 9973 == 0 } else { (c % 65536) <= 6 || (c % 65536) >= 65530 || (c % 256 < 2 && c < 1000) };
                if at_check {
                    checks += 1;
                    let (leaves, mx) = observe(&old, m);
                    let fresh_like = leaves.iter().all(|v| *v == inf()) && mx == inf() && old.is_update_possible(inf() / 2.0);
                    // (in the fill-once regime the object is only looked at, so that nothing but slot 0 is ever rewritten)
                    let ups: Vec<(usize, f64)> = if rotate { (0..(2 * m)).map(|_| (rng.random_range(0..m), rng.random_range(0.0..100.0))).collect() } else { Vec::new() };
                    let mut fresh = VerifMaxTracker::new(m);
                    let mut same = true;
                    for (k, v) in &ups {
                        old.update(*k, *v);
                        fresh.update(*k, *v);
                        let (l1, m1) = observe(&old, m);
                        let (l2, m2) = observe(&fresh, m);
                        same = same && l1 == l2 && m1 == m2;
                    }
                    if (!fresh_like || !same) && bad.len() < 5 {
                        bad.push(json!({"resets_before": c, "looks_new_after_reset": fresh_like, "same_as_new_under_updates": same,
                                        "leaves_after_reset": leaves.iter().map(|v| format!("{:e}", v)).collect::<Vec<_>>(), "max_after_reset": format!("{:e}", mx)}));
                    }
                }
            }
            (bad, checks)
        });
        match r {
            Ok((bad, checks)) => cases.push(json!({"m": m, "rotate": rotate, "cycles": cycles, "checks": checks, "bad": bad})),
            Err(msg) => cases.push(json!({"m": m, "rotate": rotate, "cycles": cycles, "checks": 0, "bad": [], "panic": msg})),
        }
    }
    write_json(&a.str("out"), &json!({"cases": cases}));
}

fn main() {
    let argv: Vec<String> = std::env::args().collect();
    if argv.len() < 2 {
        tool_error("usage: c15 <replay|record> key=value ...");
    }
    let a = Args::parse(&argv[2..]);
    match argv[1].as_str() {
        "replay" => replay(&a),
        "record" => record(&a),
        "longlife" => longlife(&a),
        other => tool_error(&format!("unknown subcommand {}", other)),
    }
}
