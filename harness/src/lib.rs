//! shared code of the conformance harness; one binary per property lives in src/bin/
pub mod util;
pub mod sketchers;
