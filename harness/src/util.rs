//! shared helpers of the conformance harness
#![allow(dead_code)]

use rand::RngCore;
use rand::SeedableRng;
use rand_xoshiro::Xoshiro256PlusPlus;
use serde_json::Value;
use std::collections::{BTreeMap, HashMap};
use std::io::{BufRead, BufWriter, Write};
use std::panic::{catch_unwind, AssertUnwindSafe};

/// `key=value` command line arguments
pub struct Args {
    map: HashMap<String, String>,
}

impl Args {
    pub fn parse(args: &[String]) -> Args {
        let mut map = HashMap::new();
        for a in args {
            if let Some((k, v)) = a.split_once('=') {
                map.insert(k.to_string(), v.to_string());
            } else {
                map.insert(a.to_string(), "1".to_string());
            }
        }
        Args { map }
    }
    pub fn get(&self, k: &str) -> Option<&str> {
        self.map.get(k).map(|s| s.as_str())
    }
    pub fn str(&self, k: &str) -> String {
        self.get(k)
            .unwrap_or_else(|| tool_error(&format!("missing argument {}", k)))
            .to_string()
    }
    pub fn str_or(&self, k: &str, d: &str) -> String {
        self.get(k).unwrap_or(d).to_string()
    }
    pub fn u64_or(&self, k: &str, d: u64) -> u64 {
        match self.get(k) {
            Some(v) => v
                .parse()
                .unwrap_or_else(|_| tool_error(&format!("bad integer for {}", k))),
            None => d,
        }
    }
    pub fn usize_or(&self, k: &str, d: usize) -> usize {
        self.u64_or(k, d as u64) as usize
    }
    pub fn f64_or(&self, k: &str, d: f64) -> f64 {
        match self.get(k) {
            Some(v) => v
                .parse()
                .unwrap_or_else(|_| tool_error(&format!("bad float for {}", k))),
            None => d,
        }
    }
}

/// tool error: exit code 2, never a verdict
pub fn tool_error(msg: &str) -> ! {
    eprintln!("TOOL-ERROR: {}", msg);
    std::process::exit(2);
}

pub fn rng_from(seed: u64, stream: u64) -> Xoshiro256PlusPlus {
    Xoshiro256PlusPlus::seed_from_u64(seed.wrapping_mul(0x9E3779B97F4A7C15).wrapping_add(stream))
}

/// ndjson writer
pub struct Out {
    w: BufWriter<std::fs::File>,
    pub lines: u64,
}

impl Out {
    pub fn create(path: &str) -> Out {
        let f = std::fs::File::create(path)
            .unwrap_or_else(|e| tool_error(&format!("cannot create {}: {}", path, e)));
        Out {
            w: BufWriter::with_capacity(1 << 20, f),
            lines: 0,
        }
    }
    pub fn line(&mut self, v: &Value) {
        serde_json::to_writer(&mut self.w, v).unwrap();
        self.w.write_all(b"\n").unwrap();
        self.lines += 1;
    }
    pub fn finish(mut self) {
        self.w.flush().unwrap();
    }
}

pub fn read_ndjson(path: &str) -> Vec<Value> {
    let f = std::fs::File::open(path)
        .unwrap_or_else(|e| tool_error(&format!("cannot open {}: {}", path, e)));
    let mut v = Vec::new();
    for l in std::io::BufReader::new(f).lines() {
        let l = l.unwrap();
        if l.trim().is_empty() {
            continue;
        }
        v.push(
            serde_json::from_str(&l)
                .unwrap_or_else(|e| tool_error(&format!("bad json in {}: {}", path, e))),
        );
    }
    v
}

pub fn read_json(path: &str) -> Value {
    let s = std::fs::read_to_string(path)
        .unwrap_or_else(|e| tool_error(&format!("cannot open {}: {}", path, e)));
    serde_json::from_str(&s).unwrap_or_else(|e| tool_error(&format!("bad json in {}: {}", path, e)))
}

pub fn write_json(path: &str, v: &Value) {
    std::fs::write(path, serde_json::to_string(v).unwrap())
        .unwrap_or_else(|e| tool_error(&format!("cannot write {}: {}", path, e)));
}

/// run a closure, a panic of the code under test is data
pub fn catch<T>(f: impl FnOnce() -> T) -> Result<T, String> {
    match catch_unwind(AssertUnwindSafe(f)) {
        Ok(v) => Ok(v),
        Err(e) => {
            let msg = if let Some(s) = e.downcast_ref::<&str>() {
                s.to_string()
            } else if let Some(s) = e.downcast_ref::<String>() {
                s.clone()
            } else {
                "panic".to_string()
            };
            Err(msg)
        }
    }
}

pub fn silence_panics() {
    std::panic::set_hook(Box::new(|_| {}));
}

/// A generator whose outputs are given on a tape.  `Uniform<f64>::new(0,1)` of rand 0.9 maps
/// `next_u64() >> 12` to `n * 2^-52`, so `unit_to_u64(x)` makes it return exactly (the 52-bit
/// truncation of) x.
pub struct ScriptedRng {
    pub tape: Vec<u64>,
    pub pos: usize,
    pub exhausted: bool,
}

impl ScriptedRng {
    pub fn new(tape: Vec<u64>) -> Self {
        ScriptedRng {
            tape,
            pos: 0,
            exhausted: false,
        }
    }
    pub fn from_units(units: &[f64]) -> Self {
        ScriptedRng::new(units.iter().map(|u| unit_to_u64(*u)).collect())
    }
}

pub fn unit_to_u64(x: f64) -> u64 {
    assert!((0. ..1.).contains(&x));
    let n = (x * (1u64 << 52) as f64) as u64;
    n << 12
}

impl RngCore for ScriptedRng {
    fn next_u32(&mut self) -> u32 {
        (self.next_u64() >> 32) as u32
    }
    fn next_u64(&mut self) -> u64 {
        if self.pos < self.tape.len() {
            let v = self.tape[self.pos];
            self.pos += 1;
            v
        } else {
            self.exhausted = true;
            self.pos += 1;
            // deterministic filler, far from any boundary
            0x8000_0000_0000_0000
        }
    }
    fn fill_bytes(&mut self, dest: &mut [u8]) {
        for chunk in dest.chunks_mut(8) {
            let v = self.next_u64().to_le_bytes();
            chunk.copy_from_slice(&v[..chunk.len()]);
        }
    }
}

/// dense ranks of f64 values: equal values get equal ranks, ranks start at `base`
pub struct Ranker {
    map: BTreeMap<u64, i64>,
}

fn key(x: f64) -> u64 {
    // order preserving map of non-NaN f64 to u64
    let b = x.to_bits();
    if b >> 63 == 0 {
        b | (1 << 63)
    } else {
        !b
    }
}

impl Ranker {
    pub fn build(values: impl Iterator<Item = f64>, base: i64) -> Ranker {
        let mut keys: Vec<u64> = values.map(key).collect();
        keys.sort_unstable();
        keys.dedup();
        let mut map = BTreeMap::new();
        for (i, k) in keys.iter().enumerate() {
            map.insert(*k, base + i as i64);
        }
        Ranker { map }
    }
    pub fn rank(&self, x: f64) -> i64 {
        *self
            .map
            .get(&key(x))
            .unwrap_or_else(|| tool_error("ranker: value was not registered"))
    }
    pub fn len(&self) -> usize {
        self.map.len()
    }
}

/// dense ranks of u64 values
pub struct RankerU {
    map: BTreeMap<u64, i64>,
}

impl RankerU {
    pub fn build(values: impl Iterator<Item = u64>, base: i64) -> RankerU {
        let mut keys: Vec<u64> = values.collect();
        keys.sort_unstable();
        keys.dedup();
        let mut map = BTreeMap::new();
        for (i, k) in keys.iter().enumerate() {
            map.insert(*k, base + i as i64);
        }
        RankerU { map }
    }
    pub fn rank(&self, x: u64) -> i64 {
        *self
            .map
            .get(&x)
            .unwrap_or_else(|| tool_error("ranker: value was not registered"))
    }
    pub fn len(&self) -> usize {
        self.map.len()
    }
}
