------------------------------ MODULE TraceApi ------------------------------
(* Trace validation for the API protocol (Api.tla): histories of public calls  *)
(* recorded from the real objects by harness/src/bin/xapi.rs.  One line per     *)
(* call: name, abstract arguments, observed outcome (ok / err / panic), length   *)
(* of the returned sketch, and the phase where the harness can observe it        *)
(* ("" where it cannot).  Every event must be a step of the Api.tla action of    *)
(* the same name whose result equals the observation.                           *)
EXTENDS Api, Sequences, Json, IOUtils

Rec == ndJsonDeserialize(IOEnv.TRACE)

VARIABLE l
tvars == <<vars, l>>

TraceInit == /\ l = 2
             /\ kind = "fy" /\ m = 1 /\ ph = "ready" /\ pos = 0
             /\ last = Ev("new", "ok", 0)

IsEvent(op) == l <= Len(Rec) /\ Rec[l].op = op /\ l' = l + 1

\* the observation of line l equals the result of the step
Obs == /\ last'.out = Rec[l].out
       /\ last'.len = Rec[l].len
       /\ Rec[l].ph # "" => ph' = Rec[l].ph

\* a constructor call starts a new history; sizes below the documented minimum are refused
TNew == /\ IsEvent("new")
        /\ LET e == Rec[l] IN
             /\ kind' = e.k
             /\ m' = e.m
             /\ ph' = Fresh(e.k)
             /\ pos' = 0
             /\ last' = Ev("new", IF e.m >= MinM(e.k) THEN "ok" ELSE "panic", 0)
             /\ last'.out = e.out

TSketch == IsEvent("sketch") /\ (DSketch \/ SSketch) /\ Obs
TSlice == IsEvent("slice") /\ (DSlice(Rec[l].n) \/ SSlice(Rec[l].n)) /\ Obs
TEnd == IsEvent("end") /\ DEnd /\ Obs
TGet == IsEvent("get") /\ (DGet \/ SGet \/ PGet) /\ Obs
TEstimate == IsEvent("estimate") /\ SEstimate(Rec[l].flag) /\ Obs
TMerge == IsEvent("merge") /\ SMerge(Rec[l].flag, Rec[l].flag2) /\ Obs
TItem == IsEvent("item") /\ PItem(Rec[l].flag) /\ Obs
TBatch == IsEvent("batch") /\ PBatch(Rec[l].n, Rec[l].bad, Rec[l].flag) /\ Obs
THashSet == IsEvent("hash_set") /\ OHashSet(Rec[l].flag) /\ Obs
TNext == IsEvent("next") /\ FNext /\ Obs /\ Rec[l].val < m
TValues == IsEvent("values") /\ FValues /\ Obs
TReinit == IsEvent("reinit") /\ Reinit /\ Obs

TraceNext == \/ TNew \/ TSketch \/ TSlice \/ TEnd \/ TGet \/ TEstimate \/ TMerge
             \/ TItem \/ TBatch \/ THashSet \/ TNext \/ TValues \/ TReinit

TraceSpec == TraceInit /\ [][TraceNext]_tvars

TraceAccepted ==
  LET d == TLCGet("stats").diameter IN
  IF d = Len(Rec) THEN TRUE
  ELSE PrintT(<<"TRACE-REJECT", d, Len(Rec)>>) /\ FALSE
=============================================================================
