--------------------------- MODULE TraceParamsFile ---------------------------
(* Trace validation for C20 (direction implementation -> specification).         *)
(* A trace is a header line followed by events recorded by harness/src/bin/c20.rs *)
(* around the real dump_json / reload_json:                                       *)
(*   new    {dir}                 a fresh directory (dir = FALSE: it does not exist) *)
(*   param  {pid, n, ca, cb}      a parameter tuple: length of its text, digit classes of a, b *)
(*   dump   {pid, res, size}      REAL dump_json call; size of parameters.json afterwards (-1: missing) *)
(*   crash  {pid, k}              SIMULATED crash of a dump after k bytes reached the file *)
(*   remove {}                    parameters.json deleted                          *)
(*   reload {outcome, pid, dm, dq, da, db}   REAL reload_json call: ok (ulp distances to tuple pid) / err / panic *)
(* The file content is tracked with the operators of ParamsFile.tla; a returned    *)
(* dump and a crashed dump are the macro steps justified by ParamsFile!InvDumpMacro *)
(* (Open;Write*;Close leaves Complete(p), Open;Write*;Crash leaves Torn(p,k)).      *)
(* A reload never changes the file, so each reload event is judged on its own by   *)
(* ParamsFile!Conforms (the property statement, i.e. ReloadMapsParseError = TRUE);  *)
(* a non-conforming one is reported as <<"DIVERGE", line, file class>> and the      *)
(* validation goes on, so that one defect does not hide another.  Every other       *)
(* mismatch stops the validation (TRACE-REJECT).                                    *)
EXTENDS Integers, Sequences, FiniteSets, TLC, Json, IOUtils

Rec == ndJsonDeserialize(IOEnv.TRACE)

VARIABLES l, dir, file, known
vars == <<l, dir, file, known>>

NoP == [id |-> -1, n |-> 0, fa |-> "short", fb |-> "short"]
PF == INSTANCE ParamsFile WITH Lens <- {1}, Ids <- {0}, ReloadMapsParseError <- TRUE, OpenTruncates <- TRUE,
                               PrintLoss <- 0, Emit <- FALSE,
                               pc <- "idle", cur <- NoP, pre <- file, clean <- FALSE, dret <- "none",
                               ret <- [kind |-> "none"], act <- "trace"

TraceInit == l = 2 /\ dir = FALSE /\ file = PF!Missing /\ known = <<>>

IsEvent(e) == l <= Len(Rec) /\ Rec[l].op = e /\ l' = l + 1

New == /\ IsEvent("new")
       /\ dir' = Rec[l].dir /\ file' = PF!Missing /\ known' = <<>>

Param == /\ IsEvent("param")
         /\ LET r == Rec[l] IN
              /\ r.n >= 1 /\ r.ca \in PF!FClass /\ r.cb \in PF!FClass /\ r.pid \notin DOMAIN known
              /\ known' = known @@ (r.pid :> [id |-> r.pid, n |-> r.n, fa |-> r.ca, fb |-> r.cb])
         /\ UNCHANGED <<dir, file>>

Dump == /\ IsEvent("dump")
        /\ LET r == Rec[l] IN
             /\ r.pid \in DOMAIN known
             /\ IF dir THEN /\ r.res = "ok"
                            /\ file' = PF!Complete(known[r.pid])
                            /\ r.size = PF!Size(file')            \* nothing of an older dump survives
                       ELSE /\ r.res = "err" /\ r.size = -1 /\ file' = file
        /\ UNCHANGED <<dir, known>>

Crash == /\ IsEvent("crash")
         /\ LET r == Rec[l] IN
              /\ dir /\ r.pid \in DOMAIN known /\ r.k \in 0..known[r.pid].n
              /\ file' = PF!Torn(known[r.pid], r.k)
         /\ UNCHANGED <<dir, known>>

Remove == /\ IsEvent("remove")
          /\ file' = PF!Missing
          /\ UNCHANGED <<dir, known>>

Kind(o) == IF o = "panic" THEN "abort" ELSE o
Reload == /\ IsEvent("reload")
          /\ LET r == Rec[l]
                 res == IF r.outcome = "ok"
                          THEN [kind |-> "ok", id |-> r.pid, dm |-> r.dm, dq |-> r.dq, da |-> r.da, db |-> r.db]
                          ELSE [kind |-> Kind(r.outcome), id |-> -1, dm |-> 0, dq |-> 0, da |-> 0, db |-> 0]
             IN /\ r.outcome \in {"ok", "err", "panic"}
                /\ IF PF!Conforms(file, res) THEN TRUE
                                             ELSE PrintT(<<"DIVERGE", l, PF!FileClass(file)>>)
          /\ UNCHANGED <<dir, file, known>>

TraceNext == New \/ Param \/ Dump \/ Crash \/ Remove \/ Reload
TraceSpec == TraceInit /\ [][TraceNext]_vars

TraceAccepted ==
  LET d == TLCGet("stats").diameter IN
  IF d = Len(Rec) THEN TRUE
  ELSE PrintT(<<"TRACE-REJECT", d, Len(Rec)>>) /\ FALSE
================================================================================
