----------------------------- MODULE TraceBounds -----------------------------
(* C07, contract of SetSketchParams::get_jaccard_bounds.                          *)
(*                                                                                *)
(* 1. Input grid (direction specification -> implementation).  GenSpec prints the  *)
(*    grid: 8 bases b in (1,2] as rationals, collision fractions k/m for           *)
(*    m in MSeq with every k for m <= Full and 0, 1, the neighbours of 0 and 1,    *)
(*    sixteenths and powers of ten otherwise.  TLC integers are 32-bit: inputs     *)
(*    are exported as (numerator, denominator) pairs.                              *)
(* 2. Trace validation (direction implementation -> specification).  Line 1 is a   *)
(*    header, the last line an `end` event carrying the number of events; every    *)
(*    other line is one call of get_jaccard_bounds recorded by the harness:        *)
(*      src = "grid":   bi, mi, k index the grid; the event must carry exactly     *)
(*                      BSeq[bi] and <<k, MSeq[mi]>>, events come in strictly       *)
(*                      increasing order and the `end` event checks that every      *)
(*                      grid point was replayed (nothing skipped, nothing twice);  *)
(*      src = "oracle": the collision fraction is the model collision probability  *)
(*                      of a triple of cardinalities with Jaccard index j9 (in     *)
(*                      1e-9 units), computed outside TLA+ (DESIGN C07); regime    *)
(*                      says whether (a, q) are in the documented regime.          *)
(*    out = "ok" with lo (rounded down) and hi (rounded up) in 1e-9 units,          *)
(*    "nonfinite" or "panic".                                                      *)
(*    Contract: the call returned finite numbers; lo <= hi + 1 unit; in the        *)
(*    documented regime lo - 1e-4 <= J <= hi + 1e-4; and (field pure) the same     *)
(*    call made again in a new thread after other calls returned the same bits.    *)
(*    0 <= lo and hi <= 1 (+ 1 unit) are not part of the property: advisory drift. *)
(* Every well-formed event is consumed; events that break the contract are         *)
(* collected in rej and reported at the end, so one run classifies a whole trace.  *)
EXTENDS Integers, Sequences, FiniteSets, SequencesExt, TLC, Json, IOUtils

CONSTANT Full      \* every k in 0..m is enumerated for m <= Full

BSeq == << <<1001, 1000>>, <<101, 100>>, <<11, 10>>, <<6, 5>>, <<3, 2>>, <<7, 4>>, <<19, 10>>, <<2, 1>> >>
MSeq == <<1, 2, 7, 64, 4096, 1000000, 1073741824>>

KSet(m) == IF m <= Full THEN 0..m
           ELSE ({0, 1, 2, 3, 10, 100, 1000, m - 1000, m - 100, m - 10, m - 3, m - 2, m - 1, m}
                 \cup {(m \div 16) * i : i \in 1..15}) \cap 0..m

GridSize == Len(BSeq) * FoldLeft(LAMBDA acc, m : acc + Cardinality(KSet(m)), 0, MSeq)

UNIT == 1000000000      \* 1.0 in trace units
TOL  == 100000          \* 1e-4

(* ---- generation ---------------------------------------------------------------- *)
(* (GenInit / GenNext / GenInv over the variables declared below: one state, the grid is printed once) *)
GenPrint == PrintT(<<"GRID", ToJson([bs |-> BSeq, ms |-> MSeq, size |-> GridSize,
                                   ks |-> [i \in 1..Len(MSeq) |-> SetToSortSeq(KSet(MSeq[i]), <)]])>>)

(* ---- trace validation ---------------------------------------------------------- *)
Rec == ndJsonDeserialize(IOEnv.TRACE)

VARIABLES l, last, ngrid, rej, nrej, drift
vars == <<l, last, ngrid, rej, nrej, drift>>
CAP == 400       \* rej and drift list at most CAP lines, nrej counts all

Has(r, f) == f \in DOMAIN r

LexLess(a, b) == \/ a[1] < b[1]
                 \/ a[1] = b[1] /\ a[2] < b[2]
                 \/ a[1] = b[1] /\ a[2] = b[2] /\ a[3] < b[3]

Contract(r) ==
  /\ r.out = "ok"
  /\ r.lo <= r.hi + 1
  \* the interval is a function of (b, fraction): the same call in a new thread, after other calls, gave the same bits
  /\ Has(r, "pure") => r.pure
  /\ (r.src = "oracle" /\ r.regime) => (r.lo - TOL <= r.j9 /\ r.j9 <= r.hi + TOL)

Drift(r) == r.out = "ok" /\ (r.lo < 0 \/ r.hi > UNIT + 1)

WellFormed(r) ==
  /\ r.out \in {"ok", "nonfinite", "panic"}
  /\ r.src \in {"grid", "oracle"}
  /\ r.src = "grid" =>
       /\ r.bi \in 1..Len(BSeq) /\ r.mi \in 1..Len(MSeq)
       /\ r.k \in KSet(MSeq[r.mi])
       /\ r.b = BSeq[r.bi] /\ r.jac = <<r.k, MSeq[r.mi]>>
       /\ LexLess(last, <<r.bi, r.mi, r.k>>)
  /\ r.src = "oracle" => (r.j9 \in 0..UNIT /\ r.regime \in BOOLEAN)

GenInit == l = 0 /\ last = <<>> /\ ngrid = 0 /\ rej = <<>> /\ nrej = 0 /\ drift = <<>>
GenNext == UNCHANGED vars
GenInv  == l = 0 => GenPrint

TraceInit == l = 2 /\ last = <<0, 0, 0>> /\ ngrid = 0 /\ rej = <<>> /\ nrej = 0 /\ drift = <<>>

IsEvent(e) == l <= Len(Rec) /\ Rec[l].op = e

Bounds == /\ IsEvent("bounds")
          /\ WellFormed(Rec[l])
          /\ LET r == Rec[l] IN
             /\ l' = l + 1
             /\ last' = IF r.src = "grid" THEN <<r.bi, r.mi, r.k>> ELSE last
             /\ ngrid' = IF r.src = "grid" THEN ngrid + 1 ELSE ngrid
             /\ rej' = IF Contract(r) \/ Len(rej) >= CAP THEN rej ELSE Append(rej, l)
             /\ nrej' = IF Contract(r) THEN nrej ELSE nrej + 1
             /\ drift' = IF Drift(r) /\ Len(drift) < CAP THEN Append(drift, l) ELSE drift

End == /\ IsEvent("end") /\ l = Len(Rec) /\ Rec[l].n = l - 2
       /\ (Rec[l].grid => ngrid = GridSize)
       /\ l' = l + 1 /\ UNCHANGED <<last, ngrid, rej, nrej, drift>>

TraceNext == Bounds \/ End
TraceSpec == TraceInit /\ [][TraceNext]_vars

InvReport == l = Len(Rec) + 1 =>
               PrintT(<<"TRACEINFO", ToJson([rejected |-> rej, nrej |-> nrej, drift |-> drift, lines |-> Len(Rec), ngrid |-> ngrid])>>)

TraceAccepted ==
  LET d == TLCGet("stats").diameter IN
  IF d = Len(Rec) THEN TRUE
  ELSE PrintT(<<"TRACE-REJECT", d, Len(Rec)>>) /\ FALSE
================================================================================
