------------------------------ MODULE ProbMinHash ------------------------------
(* ProbMinHash 3, 3a and 2 (src/probminhasher/probminhash3.rs, probminhash2.rs),    *)
(* implementation-shaped (Layer B) against the race semantics (Layer A): C01        *)
(* (structure), C02, C13 (reset of variant 2).                                      *)
(*                                                                                  *)
(* An entry e = (item, weight) owns a point process: points i = 1..L with value      *)
(* Val(e,i) and position slot[e][i].  Variants 3/3a: point i lies in the interval    *)
(* [winv*(i-1), winv*i), Val = winv*((i-1)*G + frac) on an integer grid, positions   *)
(* drawn with replacement (only tables covering all positions are enumerated, as     *)
(* the real process does eventually).  Variant 2: strictly increasing values and a   *)
(* permutation of the positions (L = M).  Everything is chosen in Init.              *)
(*                                                                                  *)
(* Layer A: reg[p] = min over the set of the first arrival of e at p (Tab), sig[p]   *)
(*          = the entry attaining it.  Values of different entries never tie         *)
(*          (Val*K + e); real ties are handled by the trace specification.           *)
(* Layer B: variant 3: `while h < qmax { slot; compare; update; h := winv*i; if h >= *)
(*          qmax break; h += winv*r }`, one entry per call, any order, repeats;      *)
(*          variant 3a: first pass + to_be_processed buffer + rounds, one or two     *)
(*          batches; variant 2: loop with the extra exit `h >= qmax` after an        *)
(*          update, and reset.  qmax = maximum register (interface of MaxTracker).   *)
EXTENDS Integers, Sequences, FiniteSets, TLC

CONSTANTS M, NE, L, G, Variant, Mut

Ent == 1..NE
Pos == 1..M
Pts == 1..L
INF == 100000
K   == NE + 1

VARIABLES winv, frac, slot,       \* randomness
          reg, sig, set, last
vars == <<winv, frac, slot, reg, sig, set, last>>

Val(e, i) == IF Variant = "2" THEN (frac[e][i]) * K + e
             ELSE (winv[e] * ((i-1)*G + frac[e][i])) * K + e
Lb(e, i)  == (winv[e] * ((i-1)*G)) * K            \* lower end of interval i (variants 3/3a)
MaxOf(r)  == LET vs == {r[p] : p \in Pos} IN CHOOSE v \in vs : \A w \in vs : w <= v

Tab(e, p) == LET is == {i \in Pts : slot[e][i] = p} IN
             IF is = {} THEN INF ELSE Val(e, CHOOSE i \in is : \A j \in is : i <= j)
Covers(s) == {s[i] : i \in Pts} = Pos
Increasing(f) == \A i \in 1..(L-1) : f[i] < f[i+1]

Init == /\ winv \in [Ent -> (IF Variant = "2" THEN {1} ELSE {1, 2})]
        /\ frac \in (IF Variant = "2" THEN {f \in [Ent -> [Pts -> 0..(G*L-1)]] : \A e \in Ent : Increasing(f[e])}
                     ELSE [Ent -> [Pts -> 0..(G-1)]])
        /\ slot \in {s \in [Ent -> [Pts -> Pos]] : \A e \in Ent : Covers(s[e])}
        /\ reg = [p \in Pos |-> INF] /\ sig = [p \in Pos |-> 0]
        /\ set = {} /\ last = "init"

(* ---- variant 3: hash_item *)
RECURSIVE Loop3(_, _, _, _)
Loop3(e, i, r, s) ==
  LET h == Val(e, i) IN
  IF ~(h < MaxOf(r)) THEN <<r, s>>
  ELSE LET k == slot[e][i]
           upd == h < r[k]
           r2 == IF upd THEN [r EXCEPT ![k] = h] ELSE r
           s2 == IF upd THEN [s EXCEPT ![k] = e] ELSE s
           nlb == IF Mut = "lb" THEN Lb(e, i+2) ELSE Lb(e, i+1)
       IN IF nlb >= MaxOf(r2) \/ i + 1 > L THEN <<r2, s2>> ELSE Loop3(e, i+1, r2, s2)

(* ---- variant 2: hash_item *)
RECURSIVE Loop2(_, _, _, _)
Loop2(e, i, r, s) ==
  LET h == Val(e, i) IN
  IF ~(h < MaxOf(r)) THEN <<r, s>>
  ELSE LET k == slot[e][i]
           upd == h < r[k]
           r2 == IF upd THEN [r EXCEPT ![k] = h] ELSE r
           s2 == IF upd THEN [s EXCEPT ![k] = e] ELSE s
       IN IF (upd /\ h >= MaxOf(r2)) \/ i + 1 > L THEN <<r2, s2>>
          ELSE IF Mut = "brk" /\ ~upd THEN <<r2, s2>>          \* deviation: stop at the first rejected point
          ELSE Loop2(e, i+1, r2, s2)

Item(e) == /\ Variant \in {"3", "2"}
           /\ LET o == IF Variant = "3" THEN Loop3(e, 1, reg, sig) ELSE Loop2(e, 1, reg, sig)
              IN reg' = o[1] /\ sig' = o[2]
           /\ set' = set \cup {e} /\ last' = "item"
           /\ UNCHANGED <<winv, frac, slot>>

Reset == /\ Variant = "2"
         /\ reg' = [p \in Pos |-> INF]
         /\ sig' = IF Mut = "resetsig" THEN sig ELSE [p \in Pos |-> 0]
         /\ set' = {} /\ last' = "reset"
         /\ UNCHANGED <<winv, frac, slot>>

(* ---- variant 3a: one batch = first pass, buffer, rounds *)
RECURSIVE First(_, _, _, _, _)
First(b, n, r, s, buf) ==
  IF n > Len(b) THEN <<r, s, buf>>
  ELSE LET e == b[n]  h == Val(e, 1) IN
    IF ~(h < MaxOf(r)) THEN First(b, n+1, r, s, buf)
    ELSE LET k == slot[e][1]
             upd == h < r[k]
             r2 == IF upd THEN [r EXCEPT ![k] = h] ELSE r
             s2 == IF upd THEN [s EXCEPT ![k] = e] ELSE s
             keep == Lb(e, 2) < MaxOf(r2)
         IN First(b, n+1, r2, s2, IF keep THEN Append(buf, e) ELSE buf)

RECURSIVE Round(_, _, _, _, _, _)
Round(i, j, buf, r, s, nbuf) ==
  IF j > Len(buf) THEN <<r, s, nbuf>>
  ELSE LET e == buf[j] IN
    IF ~(Lb(e, i) < MaxOf(r)) THEN Round(i, j+1, buf, r, s, nbuf)
    ELSE LET h == Val(e, i)  k == slot[e][i]
             upd == h < r[k]
             r2 == IF upd THEN [r EXCEPT ![k] = h] ELSE r
             s2 == IF upd THEN [s EXCEPT ![k] = e] ELSE s
             keep == (IF Mut = "keep" THEN Lb(e, i+1) < MaxOf(r) \div 2 ELSE Lb(e, i+1) < MaxOf(r2)) /\ i + 1 <= L
         IN Round(i, j+1, buf, r2, s2, IF keep THEN Append(nbuf, e) ELSE nbuf)

RECURSIVE Rounds(_, _, _, _)
Rounds(i, buf, r, s) == IF buf = <<>> \/ i > L THEN <<r, s>>
                        ELSE LET o == Round(i, 1, buf, r, s, <<>>) IN Rounds(i+1, o[3], o[1], o[2])

Seqs(S) == UNION {{q \in [1..n -> S] : \A a, b \in 1..n : a # b => q[a] # q[b]} : n \in 1..Cardinality(S)}

Batch(b) == /\ Variant = "3a"
            /\ LET f == First(b, 1, reg, sig, <<>>)
                   o == Rounds(2, f[3], f[1], f[2])
               IN reg' = o[1] /\ sig' = o[2]
            /\ set' = set \cup {b[n] : n \in 1..Len(b)} /\ last' = "batch"
            /\ UNCHANGED <<winv, frac, slot>>

Next == (\E e \in Ent : Item(e)) \/ Reset \/ (\E b \in Seqs(Ent) : Batch(b))
Spec == Init /\ [][Next]_vars

(* ---- theorems *)
AbsReg(S) == [p \in Pos |-> IF S = {} THEN INF ELSE LET vs == {Tab(e, p) : e \in S} IN CHOOSE v \in vs : \A w \in vs : v <= w]
AbsSig(S) == [p \in Pos |-> IF AbsReg(S)[p] = INF THEN 0 ELSE CHOOSE e \in S : Tab(e, p) = AbsReg(S)[p]]
Refines == reg = AbsReg(set) /\ sig = AbsSig(set)                 \* function of the set alone: order, batches, repeats
Members == set # {} => \A p \in Pos : sig[p] \in set              \* never the placeholder, never a foreign entry
ResetIsInit == last = "reset" => (reg = [p \in Pos |-> INF] /\ sig = [p \in Pos |-> 0] /\ set = {})
================================================================================
