------------------------------ MODULE ParamsFile ------------------------------
(* C20: SetSketchParams::dump_json / reload_json of src/setsketcher.rs as a       *)
(* dump / crash / reload state machine over one directory.                         *)
(*                                                                                 *)
(* File model.  The serialisation of a parameter tuple p is a text of p.n bytes.   *)
(* The file `parameters.json` is                                                   *)
(*     missing,  or  [p, k, old] = the first k bytes of p's text, written over a   *)
(*     previous content of `old` bytes (old = 0 when the open truncated).          *)
(* Size = max(k, old); bytes k..old-1 (if any) are a *stale tail* of an older dump. *)
(*                                                                                 *)
(* Is every proper prefix unparseable?  The text is one JSON object                *)
(* `{"b":..,"m":..,"a":..,"q":..}`; it contains `}` exactly once, as its last      *)
(* byte (no nested object, no string value).  A prefix of k < n bytes therefore     *)
(* never contains the closing brace, so it is not a complete JSON value, whatever   *)
(* the cut point (inside a key, inside a number such as `"q":6553`, after a comma): *)
(* a conforming parser must fail with an EOF error.  Hence on a *truncating* open    *)
(* "Ok with different parameters" is impossible and the only outcomes are           *)
(* Err / Abort.  This argument is confirmed on the real code by enumerating every   *)
(* prefix 0..n-1 of every file written (harness c20, TraceParamsFile.tla).          *)
(* It does NOT hold for a stale tail: `..,"q":1` written over `..,"q":65534}`       *)
(* reads `"q":15534}` - a complete object with other parameters.  That is why the   *)
(* open must truncate (deviation OpenTruncates = FALSE shows the failure).          *)
(*                                                                                 *)
(* Number model.  m, q are integers, a, b floats.  Parse(Print(x)) is described by  *)
(* its ulp distance to x: 0 for m, q; for a, b the statement allows 0 when x has    *)
(* at most 15 significant decimal digits (class "short"), at most 1 otherwise       *)
(* (class "long").  PrintLoss > 0 models a printer losing that many more ulps.      *)
(*                                                                                 *)
(* Deviation constants (value describing /repo today in brackets):                  *)
(*   ReloadMapsParseError [FALSE]  FALSE: `from_reader(..).unwrap()` - a parse       *)
(*                                 error aborts (panic); TRUE: it is returned as Err *)
(*   OpenTruncates        [TRUE]   FALSE: open without truncate(true)                *)
(*   PrintLoss            [0]      extra ulps lost by the printer                    *)
EXTENDS Integers, Sequences, FiniteSets, TLC, Json

CONSTANTS Lens,                  \* set of text lengths (>= 1) of the parameter tuples modelled
          Ids,                   \* identities distinguishing tuples of equal shape
          ReloadMapsParseError, OpenTruncates, PrintLoss,
          Emit                   \* TRUE: print the transitions that are replayed on the real code

FClass == {"short", "long"}
Params == [id : Ids, n : Lens, fa : FClass, fb : FClass]
None   == [id |-> -1, n |-> 0, fa |-> "short", fb |-> "short"]

Allowed(c) == IF c = "long" THEN 1 ELSE 0          \* ulp distance the statement tolerates

(* ---- file contents ---- *)
Missing     == [exists |-> FALSE, p |-> None, k |-> 0, old |-> 0]
Torn(p, k)  == [exists |-> TRUE, p |-> p, k |-> k, old |-> 0]
Complete(p) == Torn(p, p.n)
Size(f)     == IF f.k > f.old THEN f.k ELSE f.old
FileClass(f) ==
  IF ~f.exists THEN "missing"
  ELSE IF f.old > f.k THEN "stale"                  \* new bytes followed by bytes of an older dump
  ELSE IF f.k = f.p.n THEN "complete"
  ELSE IF f.k = 0 THEN "empty"                      \* crash between open(truncate) and the first write
  ELSE "torn"

(* ---- results of reload_json ---- *)
Ret(kind, id, da, db) == [kind |-> kind, id |-> id, dm |-> 0, dq |-> 0, da |-> da, db |-> db]
NoRet    == Ret("none", -1, 0, 0)
ErrRet   == Ret("err", -1, 0, 0)
AbortRet == Ret("abort", -1, 0, 0)
Garbage  == Ret("ok", -2, 0, 0)                     \* Ok with parameters nobody dumped

(* what the property statement demands of a reload result r on file content f *)
Conforms(f, r) ==
  IF FileClass(f) = "complete"
    THEN /\ r.kind = "ok" /\ r.id = f.p.id
         /\ r.dm = 0 /\ r.dq = 0
         /\ r.da \in 0..Allowed(f.p.fa) /\ r.db \in 0..Allowed(f.p.fb)
    ELSE r.kind = "err"

(* what the code does (implementation-shaped, with the deviations) *)
ParseError == IF ReloadMapsParseError THEN ErrRet ELSE AbortRet
ReloadResults(f) ==
  LET c == FileClass(f) IN
  IF c = "missing" THEN {ErrRet}                    \* open fails: `return Err(..)`
  ELSE IF c = "complete"
    THEN {Ret("ok", f.p.id, da, db) : da \in 0..(Allowed(f.p.fa) + PrintLoss),
                                      db \in 0..(Allowed(f.p.fb) + PrintLoss)}
  ELSE IF c = "stale" THEN {ParseError, Garbage}    \* trailing characters, or a spliced object
  ELSE {ParseError}                                 \* empty / torn: EOF while parsing

VARIABLES dir,     \* the directory exists (fixed per behaviour)
          file,    \* content of dir/parameters.json
          pc,      \* "idle" | "writing" (a dump_json call is between open and return)
          cur,     \* tuple of the current / last dump_json call
          pre,     \* file content when that call started (for the replay of whole dumps)
          clean,   \* TRUE iff the last dump_json call returned Ok and nothing touched the file since
          dret,    \* result of the last dump_json call: "none" | "ok" | "err"
          ret,     \* result of reload_json on the *current* file content, NoRet if not called
          act      \* last action (export only)
vars == <<dir, file, pc, cur, pre, clean, dret, ret, act>>
view == <<dir, file, pc, cur, pre, clean, dret, ret>>

Init == /\ dir \in BOOLEAN
        /\ file = Missing /\ pc = "idle" /\ cur = None /\ pre = Missing
        /\ clean = FALSE /\ dret = "none" /\ ret = NoRet /\ act = "init"

(* OpenOptions::new().write(true).create(true).truncate(true).open(..) *)
Open(p) ==
  /\ pc = "idle"
  /\ cur' = p /\ pre' = file /\ ret' = NoRet /\ clean' = FALSE
  /\ IF dir
       THEN /\ file' = IF OpenTruncates \/ ~file.exists THEN Torn(p, 0)
                       ELSE [exists |-> TRUE, p |-> p, k |-> 0, old |-> Size(file)]
            /\ pc' = "writing" /\ dret' = "none" /\ act' = "open"
       ELSE /\ dret' = "err" /\ act' = "openfail"          \* `return Err("SetSketchParams dump failed")`
            /\ UNCHANGED <<file, pc>>
  /\ UNCHANGED dir

(* the BufWriter hands its buffer to write(2), which may accept it in several pieces *)
Write(n) ==
  /\ pc = "writing" /\ n \in 1..(cur.n - file.k)
  /\ file' = [file EXCEPT !.k = @ + n]
  /\ act' = "write"
  /\ UNCHANGED <<dir, pc, cur, pre, clean, dret, ret>>

(* everything written, writer dropped, `Ok(())` *)
Close ==
  /\ pc = "writing" /\ file.k = cur.n
  /\ pc' = "idle" /\ clean' = TRUE /\ dret' = "ok" /\ act' = "close"
  /\ UNCHANGED <<dir, file, cur, pre, ret>>

(* the process dies at any point of the dump; the file keeps what reached it *)
Crash ==
  /\ pc = "writing"
  /\ pc' = "idle" /\ act' = "crash"
  /\ UNCHANGED <<dir, file, cur, pre, clean, dret, ret>>

Remove ==
  /\ pc = "idle" /\ file.exists
  /\ file' = Missing /\ clean' = FALSE /\ ret' = NoRet /\ act' = "remove"
  /\ UNCHANGED <<dir, pc, cur, pre, dret>>

Reload ==
  /\ pc = "idle"
  /\ ret' \in ReloadResults(file)
  /\ act' = "reload"
  /\ UNCHANGED <<dir, file, pc, cur, pre, clean, dret>>

OpenSome  == \E p \in Params : Open(p)
WriteSome == \E n \in 1..cur.n : Write(n)
Next == OpenSome \/ WriteSome \/ Close \/ Crash \/ Remove \/ Reload
Spec == Init /\ [][Next]_vars

(* ---------------- the property ---------------- *)
InvNeverAbort == ret.kind # "abort"
(* ret always speaks about the current content: every action changing the file resets it *)
InvReload     == ret.kind # "none" => Conforms(file, ret)
InvRoundTrip  == (clean /\ ret.kind # "none") =>
                    /\ ret.kind = "ok" /\ ret.id = cur.id /\ ret.dm = 0 /\ ret.dq = 0
                    /\ ret.da <= Allowed(cur.fa) /\ ret.db <= Allowed(cur.fb)
InvNoStale    == Size(file) = file.k
(* a crash right after the open leaves an EMPTY file, which is not a valid parameter file *)
InvEmptyAfterOpen == (act = "open") => (FileClass(file) = "empty" /\ Size(file) = 0)
(* macro steps used by TraceParamsFile: a returned dump leaves exactly the new text, a crashed one a prefix *)
InvDumpMacro  == /\ (pc = "idle" /\ clean) => file = Complete(cur)
                 /\ pc = "writing" => file = Torn(cur, file.k)
                 /\ ~dir => file = Missing
InvType       == /\ pc \in {"idle", "writing"} /\ dret \in {"none", "ok", "err"}
                 /\ file.k \in 0..file.p.n

(* transitions replayed on the real code: whole dumps (at Close, with the content at Open), refused dumps, reloads *)
EmitTransition ==
  (Emit /\ act' \in {"close", "openfail", "reload"}) =>
     PrintT(<<"TR", ToJson([a |-> act', dir |-> dir, p |-> cur', pre |-> IF act' = "reload" THEN file ELSE pre',
                            post |-> file', dret |-> dret', ret |-> ret'])>>)
================================================================================
