------------------------------- MODULE OrdOracle -------------------------------
(* The collision probability of C10, DEFINED by enumeration: under a uniformly      *)
(* random ranking of all (element, occurrence) pairs of two sequences A and B, the  *)
(* L lowest-ranked pairs of each sequence, read in sequence order, spell the same   *)
(* elements.  TLC evaluates the definition (ASSUME + PrintT) for the cells listed   *)
(* in the file named by the environment variable ORD_CELLS; the harness's own       *)
(* enumeration is cross-checked against it on every small cell before it is used    *)
(* for large ones.                                                                  *)
EXTENDS Integers, Sequences, FiniteSets, TLC, Json, IOUtils

Cells == ndJsonDeserialize(IOEnv.ORD_CELLS)

Occ(s, i) == Cardinality({j \in 1..i : s[j] = s[i]})           \* occurrence number of index i
PairsOf(s) == {<<s[i], Occ(s, i)>> : i \in 1..Len(s)}
IndexOf(s, p) == CHOOSE i \in 1..Len(s) : <<s[i], Occ(s, i)>> = p

(* rankings of a finite set U: bijections U -> 1..|U| *)
Rankings(U) == {r \in [U -> 1..Cardinality(U)] : \A x, y \in U : x # y => r[x] # r[y]}

Lowest(s, r, L) == {p \in PairsOf(s) : Cardinality({q \in PairsOf(s) : r[q] < r[p]}) < L}
(* the spelled word as the set of (sequence index, element) of the selected pairs: reading in sequence order is
   determined by the indices, so two sequences spell the same word iff the element sequences agree *)
SortedIdx(s, S) == LET idx == {IndexOf(s, p) : p \in S} IN
                   [k \in 1..Cardinality(idx) |-> CHOOSE i \in idx : Cardinality({j \in idx : j < i}) = k - 1]
Word(s, r, L) == LET si == SortedIdx(s, Lowest(s, r, L)) IN [k \in 1..Len(si) |-> s[si[k]]]

Count(a, b, L) == LET U == PairsOf(a) \cup PairsOf(b) IN
                  Cardinality({r \in Rankings(U) : Word(a, r, L) = Word(b, r, L)})
Fact(n) == IF n <= 1 THEN 1 ELSE LET f[k \in 1..n] == IF k = 1 THEN 1 ELSE k * f[k-1] IN f[n]

ASSUME \A c \in 1..Len(Cells) :
   PrintT(<<"ORACLE", ToJson([cell |-> c, num |-> Count(Cells[c].a, Cells[c].b, Cells[c].l),
                               den |-> Fact(Cardinality(PairsOf(Cells[c].a) \cup PairsOf(Cells[c].b)))])>>)

VARIABLE dummy
Init == dummy = 0
Next == dummy' = dummy
================================================================================
