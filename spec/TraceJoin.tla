------------------------------- MODULE TraceJoin -------------------------------
(* Trace validation for the "join" sketchers (C02, C04, C05, C13): SuperMinHash,   *)
(* SuperMinHash2, SetSketch, ProbMinHash 2/3/3a/3a-Sha.                            *)
(*                                                                                 *)
(* Layer A semantics: the sketch of an instance is the position-wise join          *)
(* (min or max) of the single-item TABLES of the items streamed or merged into it; *)
(* where a sketch stores an identity per position (SuperMinHash2: item hash,       *)
(* ProbMinHash: the object) it is an item attaining the join value.                *)
(* Tables are measured from the implementation (fresh sketcher, one item) and      *)
(* rank-abstracted per run (order isomorphism); SetSketch registers are raw.       *)
(* A run starts with a "new" event carrying: m, ninst, dir, init (rank of the      *)
(* initial register), pc (parameter class per instance), tables[class][item][pos], *)
(* pub (registers are the public sketch), sig (an identity is stored).             *)
EXTENDS Integers, Sequences, FiniteSets, TLC, Json, IOUtils

Rec == ndJsonDeserialize(IOEnv.TRACE)

VARIABLES l, h, regs, cand, sets, smap
vars == <<l, h, regs, cand, sets, smap>>

Has(r, f) == f \in DOMAIN r
(* number of positions of instance i: instances of another parameter class may differ in m (then "ms" is present) *)
MOf(i) == IF Has(h, "ms") THEN h.ms[i] ELSE h.m
PosOf(st) == 1..Len(st[1])
Better(a, b) == IF h.dir = "min" THEN a < b ELSE a > b
MinOf(rg) == CHOOSE v \in {rg[p] : p \in 1..Len(rg)} : \A p \in 1..Len(rg) : v <= rg[p]

(* join one item (table t, identity x) into a (registers, candidates) pair *)
JoinItem(st, t, x) ==
  <<[p \in PosOf(st) |-> IF Better(t[p], st[1][p]) THEN t[p] ELSE st[1][p]],
    [p \in PosOf(st) |-> IF Better(t[p], st[1][p]) THEN {x}
                   ELSE IF t[p] = st[1][p] THEN st[2][p] \cup {x} ELSE st[2][p]]>>

RECURSIVE JoinSeq(_, _, _)
JoinSeq(st, c, xs) == IF xs = <<>> THEN st
                      ELSE JoinSeq(JoinItem(st, h.tables[c][Head(xs)], Head(xs)), c, Tail(xs))

JoinInst(a, b) ==
  <<[p \in PosOf(a) |-> IF Better(b[1][p], a[1][p]) THEN b[1][p] ELSE a[1][p]],
    [p \in PosOf(a) |-> IF Better(b[1][p], a[1][p]) THEN b[2][p]
                   ELSE IF b[1][p] = a[1][p] THEN a[2][p] \cup b[2][p] ELSE a[2][p]]>>

Fresh(i) == <<[p \in 1..MOf(i) |-> h.init], [p \in 1..MOf(i) |-> {}]>>

(* what the real object showed after the call, against the specification state st *)
ObsOK(r, st) ==
  /\ h.pub => (Len(r.obs) = Len(st[1]) /\ \A p \in PosOf(st) : r.obs[p] = st[1][p])
  \* a stored identity is 0 for the placeholder, the index of an item, or -2 when it is the constructor's initial object
  \* and that object is also item h.initx of the run (then it stands for the placeholder or for that item)
  /\ h.sig => (Len(r.sig) = Len(st[1]) /\ \A p \in PosOf(st) :
                 LET v == r.sig[p]
                     ix == IF Has(h, "initx") THEN h.initx ELSE 0
                 IN IF st[2][p] = {} THEN v = 0 \/ (v = -2 /\ ix > 0)
                    ELSE IF v = -2 THEN ix \in st[2][p] ELSE v \in st[2][p])
  /\ Has(r, "low") => (r.low >= 0 /\ r.low <= MinOf(st[1]))

(* Function of the set: where several items attain the join value exactly (cand has more than one element - only    *)
(* possible when two items get the very same table, i.e. a collision of their hashes) the specification accepts any  *)
(* of them ONCE; afterwards every instance of the same signature class that holds the same set of items must show    *)
(* the same stored identities - whatever the order, chunking or merging that built it.  sets[i] = items of instance  *)
(* i, smap = signature seen for a (class, set).                                                                      *)
SetRule(r, i, S) ==
  IF h.sig /\ Has(h, "sc")
    THEN LET key == <<h.sc[i], S>> IN
         /\ key \in DOMAIN smap => r.sig = smap[key]
         /\ smap' = IF key \in DOMAIN smap THEN smap ELSE smap @@ (key :> r.sig)
    ELSE smap' = smap

TraceInit == l = 2 /\ h = [m |-> 0] /\ regs = <<>> /\ cand = <<>> /\ sets = <<>> /\ smap = <<>>

IsEvent(e) == l <= Len(Rec) /\ Rec[l].op = e /\ l' = l + 1

New == /\ IsEvent("new")
       /\ h' = Rec[l]
       /\ LET mi(i) == IF Has(Rec[l], "ms") THEN Rec[l].ms[i] ELSE Rec[l].m IN
          /\ regs' = [i \in 1..Rec[l].ninst |-> [p \in 1..mi(i) |-> Rec[l].init]]
          /\ cand' = [i \in 1..Rec[l].ninst |-> [p \in 1..mi(i) |-> {}]]
          /\ sets' = [i \in 1..Rec[l].ninst |-> {}]
          /\ smap' = <<>>

Set(i, st, S) == /\ regs' = [regs EXCEPT ![i] = st[1]]
                 /\ cand' = [cand EXCEPT ![i] = st[2]]
                 /\ sets' = [sets EXCEPT ![i] = S]
                 /\ SetRule(Rec[l], i, S)
                 /\ UNCHANGED h

Sketch == /\ IsEvent("sk")
          /\ LET r == Rec[l]  i == r.i
                 st == JoinItem(<<regs[i], cand[i]>>, h.tables[h.pc[i]][r.x], r.x)
             IN r.out = "ok" /\ ObsOK(r, st) /\ Set(i, st, sets[i] \cup {r.x})

Slice == /\ IsEvent("sl")
         /\ LET r == Rec[l]  i == r.i
                st == JoinSeq(<<regs[i], cand[i]>>, h.pc[i], r.xs)
            IN r.out = "ok" /\ ObsOK(r, st) /\ Set(i, st, sets[i] \cup {r.xs[k] : k \in 1..Len(r.xs)})

Merge == /\ IsEvent("mg")
         /\ LET r == Rec[l]  i == r.i  j == r.j
                allowed == h.pc[i] = h.pc[j]
                st == IF allowed THEN JoinInst(<<regs[i], cand[i]>>, <<regs[j], cand[j]>>)
                      ELSE <<regs[i], cand[i]>>        \* a refused merge leaves the receiver unchanged
            IN /\ r.out = (IF allowed THEN "ok" ELSE "refused")
               /\ ObsOK(r, st) /\ Set(i, st, IF allowed THEN sets[i] \cup sets[j] ELSE sets[i])

Reinit == /\ IsEvent("re")
          /\ LET r == Rec[l]  i == r.i
             IN /\ r.out = "ok" /\ ObsOK(r, Fresh(i)) /\ Set(i, Fresh(i), {})
                /\ Has(r, "low") => (r.low = 0 /\ r.ovf = 0)   \* like a new sketcher

(* a NEW sketcher of the class of instance i, fed the items of instance i in the opposite order: same registers, and   *)
(* (SetRule) the same stored identities as instance i showed                                                          *)
Twin == /\ IsEvent("tw")
        /\ LET r == Rec[l]  i == r.i
           IN /\ r.out = "ok" /\ ObsOK(r, <<regs[i], cand[i]>>) /\ SetRule(r, i, sets[i])
        /\ UNCHANGED <<h, regs, cand, sets>>

TraceNext == New \/ Sketch \/ Slice \/ Merge \/ Reinit \/ Twin
TraceSpec == TraceInit /\ [][TraceNext]_vars

TraceAccepted ==
  LET d == TLCGet("stats").diameter IN
  IF d = Len(Rec) THEN TRUE
  ELSE PrintT(<<"TRACE-REJECT", d, Len(Rec)>>) /\ FALSE
================================================================================
