------------------------------ MODULE Estimators ------------------------------
(* C14 - similarity estimators.                                                  *)
(*                                                                               *)
(* Part 1, counting estimators (src/jaccard.rs, superminhasher.rs,               *)
(* superminhasher2.rs: 8 entry points, one contract).                            *)
(*   Layer A: Agree(a, b) = number of positions where the sketches are equal.    *)
(*   Layer B: CountLoop = the `for i in 0..len { if a[i] == b[i] { count += 1 }}`*)
(*            loop of the Rust code, Est = the guard on the lengths + the loop.  *)
(*   Deviation constant OnPrefix: TRUE describes an estimator that does not      *)
(*   report a length mismatch but computes on the common prefix.                 *)
(*                                                                               *)
(* Part 2, MleProtocol: the steps of MleJaccard::get_mle (src/setsketcher.rs):   *)
(*   cardinal estimates -> bracket [0, min(c1/c2, c2/c1)] -> start = raw         *)
(*   collision fraction -> golden-section solver (argmin 0.10: `init` returns    *)
(*   Err(InvalidParameter) when the start is outside [min_bound, max_bound], the *)
(*   code unwraps it) -> value.                                                  *)
(*   The sketches come from a SetSketch Layer-A model: register = max cell of    *)
(*   the items of the set, the cells T[item][pos] are enumerated by TLC; the     *)
(*   cardinal estimate is idealised as the true cardinality (the real one is     *)
(*   noisy, which only adds ways to leave the bracket).                          *)
(*   Deviation constant ClampStart: FALSE describes today's code (start is not   *)
(*   clamped into the bracket), TRUE the repaired code.                          *)
(*   Rationals are pairs <<num, den>> with den > 0 (TLC has no reals).           *)
EXTENDS Integers, Sequences, FiniteSets, TLC, Json

CONSTANTS Sym,        \* alphabet of the sketch values (counting part)
          MaxLen,     \* sketch lengths 1..MaxLen (counting part)
          OnPrefix,   \* deviation (counting part)
          Items,      \* abstract items (MLE part)
          M,          \* sketch length (MLE part)
          K,          \* cells 0..K (MLE part)
          ClampStart, \* deviation (MLE part)
          Sizes,      \* sizes of A\B, B\A, A/\B for the grid replayed on real sketches
          Emit        \* TRUE: export pairs / the shape grid as JSON

VARIABLES pc, inp, st, out
vars == <<pc, inp, st, out>>

Min2(x, y) == IF x <= y THEN x ELSE y
Max2(x, y) == IF x <= y THEN y ELSE x
MaxS(S)    == CHOOSE x \in S : \A y \in S : y <= x

Value(c, n) == [kind |-> "value", c |-> c, n |-> n]
Refused     == [kind |-> "refused", c |-> -1, n |-> -1]
Abort       == [kind |-> "abort", c |-> -1, n |-> -1]
None        == [kind |-> "none", c |-> -1, n |-> -1]

(* ------------------------------------------------------------------------------ *)
(* Part 1                                                                           *)

Agree(a, b) == Cardinality({i \in 1..Min2(Len(a), Len(b)) : a[i] = b[i]})

RECURSIVE CountLoop(_, _, _)
CountLoop(a, b, n) == IF n = 0 THEN 0
                      ELSE CountLoop(a, b, n - 1) + (IF a[n] = b[n] THEN 1 ELSE 0)

PrefixValue(a, b) == LET n == Min2(Len(a), Len(b)) IN Value(CountLoop(a, b, n), n)

Est(a, b) == IF Len(a) = Len(b) THEN Value(CountLoop(a, b, Len(a)), Len(a))
             ELSE IF OnPrefix THEN PrefixValue(a, b)
             ELSE Refused

(* Layer A: the same contract without the loop *)
EstA(a, b) == IF Len(a) = Len(b) THEN Value(Agree(a, b), Len(a)) ELSE Refused

Seqs == UNION {[1..n -> Sym] : n \in 1..MaxLen}

InitCount == /\ pc = "call"
             /\ inp \in [a : Seqs, b : Seqs]
             /\ st = <<>>
             /\ out = None

CallCount == /\ pc = "call"
             /\ out' = Est(inp.a, inp.b)
             /\ pc' = "done"
             /\ UNCHANGED <<inp, st>>

SpecCount == InitCount /\ [][CallCount]_vars

Done == pc = "done"
(* the loop computes the number of agreeing positions, over the full length *)
InvExact     == Done /\ out.kind = "value" => out.c = Agree(inp.a, inp.b) /\ out.n = Len(inp.a) /\ out.n = Len(inp.b)
InvRefine    == Done => out = EstA(inp.a, inp.b)
InvSymmetric == Done => out = Est(inp.b, inp.a)
InvIdentical == Done /\ inp.a = inp.b => out = Value(Len(inp.a), Len(inp.a))
InvRange     == Done /\ out.kind = "value" => 0 <= out.c /\ out.c <= out.n /\ out.n >= 1
InvRefusal   == Done => ((out.kind = "refused") <=> (Len(inp.a) # Len(inp.b)))
(* reporting a mismatch is not the same thing as computing on the common prefix *)
InvNotPrefix == Done /\ Len(inp.a) # Len(inp.b) => out # PrefixValue(inp.a, inp.b)
InvTotal     == Done => out.kind \in {"value", "refused"}

EmitPair == (Emit /\ Done) =>
              PrintT(<<"PAIR", ToJson([a |-> inp.a, b |-> inp.b, kind |-> out.kind, c |-> out.c, n |-> out.n])>>)

(* ------------------------------------------------------------------------------ *)
(* Part 2                                                                           *)

Leq(p, q)  == p[1] * q[2] <= q[1] * p[2]
Less(p, q) == p[1] * q[2] < q[1] * p[2]
RMin(p, q) == IF Leq(p, q) THEN p ELSE q
RMax(p, q) == IF Leq(p, q) THEN q ELSE p

Pos == 1..M
Sketch(T, S) == [p \in Pos |-> MaxS({T[x][p] : x \in S} \cup {0})]

St0 == [c1 |-> 0, c2 |-> 0, deq |-> 0, lo |-> <<0, 1>>, hi |-> <<0, 1>>, start |-> <<0, 1>>]

ShapeGrid == {s \in Sizes \X Sizes \X Sizes : s[1] + s[2] + s[3] > 0}
Class(s) == IF s[1] + s[3] = 0 \/ s[2] + s[3] = 0 THEN "empty_side"
            ELSE IF s[1] = 0 /\ s[2] = 0 THEN "identical"
            ELSE IF s[3] = 0 THEN "disjoint"
            ELSE IF s[1] = 0 \/ s[2] = 0 THEN "nested"
            ELSE "overlap"
EmitGrid == Emit => PrintT(<<"SHAPES", ToJson({[u |-> s[1], v |-> s[2], w |-> s[3], class |-> Class(s)] : s \in ShapeGrid})>>)

InitMle == /\ EmitGrid
           /\ pc = "cards"
           /\ inp \in [T : [Items -> [Pos -> 0..K]], A : (SUBSET Items) \ {{}}, B : (SUBSET Items) \ {{}}]
           /\ st = St0
           /\ out = None

(* get_cardinal_estimate on both sketches, and the comparison loop (dplus, dless, dequal) *)
Cards == /\ pc = "cards"
         /\ LET sa == Sketch(inp.T, inp.A)
                sb == Sketch(inp.T, inp.B)
            IN st' = [st EXCEPT !.c1 = Cardinality(inp.A), !.c2 = Cardinality(inp.B),
                                !.deq = Cardinality({p \in Pos : sa[p] = sb[p]})]
         /\ pc' = "bracket"
         /\ UNCHANGED <<inp, out>>

(* b_inf = 0, b_sup = min(c1/c2, c2/c1); GoldenSectionSearch::new(b_inf, b_sup).unwrap() *)
Bracket == /\ pc = "bracket"
           /\ st' = [st EXCEPT !.lo = <<0, 1>>, !.hi = <<Min2(st.c1, st.c2), Max2(st.c1, st.c2)>>]
           /\ pc' = "start"
           /\ UNCHANGED <<inp, out>>

(* init_param = jac = dequal / m   (repaired: clamped into the bracket) *)
Start == /\ pc = "start"
         /\ LET raw == <<st.deq, M>>
            IN st' = [st EXCEPT !.start = IF ClampStart THEN RMax(RMin(raw, st.hi), st.lo) ELSE raw]
         /\ pc' = "solve"
         /\ UNCHANGED <<inp, out>>

InBracket(s) == Leq(s.lo, s.start) /\ Leq(s.start, s.hi)

(* Executor::run(): solver.init fails on a start outside the bracket; otherwise the search *)
(* stays inside the bracket, any point of it may be returned                                *)
Solve == /\ pc = "solve"
         /\ IF InBracket(st)
              THEN \E j \in {st.lo, st.start, st.hi} : out' = Value(j[1], j[2])
              ELSE out' = Abort
         /\ pc' = "done"
         /\ UNCHANGED <<inp, st>>

NextMle == Cards \/ Bracket \/ Start \/ Solve
SpecMle == InitMle /\ [][NextMle]_vars

InvCards      == pc \in {"bracket", "start", "solve", "done"} => st.c1 > 0 /\ st.c2 > 0
InvBracket    == pc \in {"start", "solve", "done"} => Less(st.lo, st.hi) /\ Leq(st.hi, <<1, 1>>)
InvSolverPre  == pc = "solve" => InBracket(st)
InvMleOutcome == Done => out.kind = "value" /\ out.n > 0 /\ 0 <= out.c /\ out.c <= out.n
================================================================================
