------------------------------ MODULE FYShuffle ------------------------------
(* The lazy Fisher-Yates shuffle of src/fyshuffle.rs (C17).                      *)
(*                                                                               *)
(* v, lastidx : the two fields of the Rust struct.  A generator output is        *)
(* u \in 0..R-1 and stands for xi = u/R (R = lcm(1..M), so every cell boundary   *)
(* c/(M-lastidx) lies on the grid).  Draw(u) is `next` statement by statement:   *)
(* wrap (lastidx >= M => lastidx := 0, v is kept), idx = lastidx +               *)
(* floor(xi*(M-lastidx)), val = v[idx], swap(idx, lastidx), advance.  Reset is   *)
(* `reset` (lastidx := 0, v := identity); Init is `new` (lastidx = M).           *)
(*                                                                               *)
(* blk   : the values returned in the current block (a block starts at the draw  *)
(*         taken with lastidx = 0, i.e. after new, after reset and after a wrap) *)
(* fresh : no draw since new/reset                                               *)
(* hist  : every action taken so far as <<u, returned value>> (reset: <<-1,-1>>) *)
(*         In the exhaustive configs it is hidden by the VIEW: the copy kept by  *)
(*         TLC is the BFS path to the state and is exported with each transition *)
(*         so that the harness can rebuild the source state on a real object.    *)
(*         In the behaviour configs (HSpec) it is a genuine state variable, so   *)
(*         every path is a distinct state.                                       *)
(*                                                                               *)
(* Mutant # "none" transcribes a wrong implementation; it is used only by the    *)
(* anti-vacuity self-test (TLC must then report a violated invariant).           *)
EXTENDS Integers, Sequences, FiniteSets, TLC, Json

CONSTANTS M,        \* size of the shuffled set
          R,        \* generator resolution, lcm(1..M)
          Emit,     \* TRUE: print transitions / behaviours as JSON
          Mutant,   \* "none" | "bias" | "norefill" | "swap" | "nowrap"
          HLen,     \* behaviour configs: longest pre-reset history
          Direct    \* TRUE: also count the tapes of every permutation directly (R^M tapes)

Idx   == 0..(M-1)
Ident == [i \in Idx |-> i]

VARIABLES v, lastidx, blk, fresh, hist
vars == <<v, lastidx, blk, fresh, hist>>
view == <<v, lastidx, blk, fresh>>

Swap(f, a, b) == [f EXCEPT ![a] = f[b], ![b] = f[a]]
Range(s)      == {s[i] : i \in 1..Len(s)}
ToSeq(f)      == [i \in 1..M |-> f[i-1]]

(* the wrap at the head of `next` *)
L0(last) == IF Mutant = "nowrap" THEN (IF last > M THEN 0 ELSE last)
            ELSE IF last >= M THEN 0 ELSE last

(* offset chosen by generator output u when k = M - lastidx cells remain *)
Off(u, k) == IF Mutant = "bias" /\ k > 1 THEN (u * (k-1)) \div R
             ELSE (u * k) \div R

(* one call of next(): new fields and the returned value *)
Step(w, last, u) ==
  LET l0  == L0(last)
      idx == l0 + Off(u, M - l0)
  IN [v    |-> IF Mutant = "swap" THEN Swap(w, idx, 0) ELSE Swap(w, idx, l0),
      last |-> l0 + 1,
      ret  |-> w[idx]]

Init == /\ v = Ident
        /\ lastidx = M
        /\ blk = <<>>
        /\ fresh = TRUE
        /\ hist = <<>>

Draw(u) ==
  LET s == Step(v, lastidx, u) IN
  /\ L0(lastidx) + Off(u, M - L0(lastidx)) \in Idx     \* an index out of bounds is a panic, not a step
  /\ v' = s.v
  /\ lastidx' = s.last
  /\ blk' = Append(IF L0(lastidx) = 0 THEN <<>> ELSE blk, s.ret)
  /\ fresh' = FALSE
  /\ hist' = Append(hist, <<u, s.ret>>)

Reset ==
  /\ v' = IF Mutant = "norefill" THEN v ELSE Ident
  /\ lastidx' = 0
  /\ blk' = <<>>
  /\ fresh' = TRUE
  /\ hist' = Append(hist, <<-1, -1>>)

Next == (\E u \in 0..(R-1) : Draw(u)) \/ Reset
Spec == Init /\ [][Next]_vars

-----------------------------------------------------------------------------
(* Invariants of the complete state graph                                      *)

InvPerm == {v[i] : i \in Idx} = Idx

(* no draw ever indexes out of bounds (Draw is guarded by it, so a state where *)
(* it fails would have fewer than R+1 successors)                              *)
InvInBounds == \A u \in 0..(R-1) : L0(lastidx) + Off(u, M - L0(lastidx)) \in Idx

(* within a block the returned values are pairwise distinct elements of Idx,   *)
(* they are the prefix of v in draw order, and a complete block is all of Idx. *)
InvBlock ==
  /\ Len(blk) = (IF fresh THEN 0 ELSE lastidx)
  /\ Range(blk) \subseteq Idx
  /\ Cardinality(Range(blk)) = Len(blk)
  /\ \A i \in 1..Len(blk) : blk[i] = v[i-1]
  /\ (~fresh /\ lastidx = M) => Range(blk) = Idx

(* Reset forgets: the state after reset() is the state after new() up to the   *)
(* encoding of "block finished" (lastidx = M) versus "block not started"       *)
(* (lastidx = 0), which no action can tell apart (InvCongr).                   *)
Canon(w, last) == <<w, L0(last)>>
InvReset == fresh => Canon(v, lastidx) = Canon(Ident, M)
InvCongr == \A u \in 0..(R-1) : Step(v, lastidx, u) = Step(v, L0(lastidx), u)

-----------------------------------------------------------------------------
(* Constant-level theorems, evaluated once (in the initial state).  They take a *)
(* dummy parameter because TLC evaluates parameterless constant definitions at *)
(* start-up, also in the configurations that do not use them.                  *)

(* (ii) the floor map is balanced: every offset has R/k pre-images *)
Balanced(n) ==
  \A k \in 1..n : /\ \A u \in 0..(R-1) : Off(u, k) \in 0..(k-1)
                  /\ \A o \in 0..(k-1) : Cardinality({u \in 0..(R-1) : Off(u, k) = o}) * k = R

(* (iii) offset vectors -> draw orders is a bijection onto the permutations *)
OffVecs(n) == {f \in [0..(n-1) -> 0..(n-1)] : \A i \in 0..(n-1) : f[i] < n - i}
RECURSIVE Run(_, _, _)
Run(f, i, w) == IF i = M THEN w ELSE Run(f, i + 1, Swap(w, i + f[i], i))
Perms(n) == {f \in [0..(n-1) -> 0..(n-1)] : {f[i] : i \in 0..(n-1)} = 0..(n-1)}
Bijective(n) ==
  LET img == {Run(f, 0, Ident) : f \in OffVecs(n)}
  IN /\ Cardinality(img) = Cardinality(OffVecs(n))
     /\ img = Perms(n)

(* (ii) /\ (iii) => every order has R^M / M! tapes; counted directly for small M *)
RECURSIVE Fact(_)
Fact(n) == IF n <= 1 THEN 1 ELSE n * Fact(n - 1)
RECURSIVE Pow(_, _)
Pow(b, e) == IF e = 0 THEN 1 ELSE b * Pow(b, e - 1)
RECURSIVE RunTape(_, _, _)
RunTape(t, i, w) == IF i = M THEN w ELSE RunTape(t, i + 1, Swap(w, i + Off(t[i+1], M - i), i))
Uniform(n) ==
  \A p \in Perms(n) : Cardinality({t \in [1..n -> 0..(R-1)] : RunTape(t, 0, Ident) = p}) * Fact(n) = Pow(R, n)

AtInit == fresh /\ lastidx = M
InvBalanced  == AtInit => Balanced(M)
InvBijective == AtInit => Bijective(M)
InvUniform   == (AtInit /\ Direct) => Uniform(M)

-----------------------------------------------------------------------------
(* Export of every transition of the state graph (ACTION_CONSTRAINT)           *)

EmitTransition ==
  Emit => PrintT(<<"TR", ToJson([m  |-> M, r |-> R, h |-> hist,
                                 sv |-> ToSeq(v), sl |-> lastidx,
                                 a  |-> hist'[Len(hist')],
                                 tv |-> ToSeq(v'), tl |-> lastidx'])>>)

-----------------------------------------------------------------------------
(* Behaviours: a history of 0..HLen draws, then reset, then one full block.    *)
(* One generator output per offset (the cell representative rotates with the   *)
(* position, so that different u of the same cell are used).                   *)

ResetPos == {i \in 1..Len(hist) : hist[i][1] = -1}
RepU(k, o) == (o * R) \div k + ((o + Len(hist)) % (R \div k))

HDraw == \E o \in 0..(M - L0(lastidx) - 1) : Draw(RepU(M - L0(lastidx), o))

HNext == IF ResetPos = {}
           THEN (Len(hist) < HLen /\ HDraw) \/ Reset
           ELSE (fresh \/ lastidx < M) /\ HDraw
HSpec == Init /\ [][HNext]_vars

HDone == ResetPos # {} /\ ~fresh /\ lastidx = M

(* (iv) what is drawn after a reset is a function of the generator outputs     *)
(* since the reset alone: it equals what a new object draws from them.         *)
RECURSIVE FromInit(_, _, _)
FromInit(tape, i, st) ==
  IF i > Len(tape) THEN st
  ELSE LET s == Step(st.v, st.last, tape[i])
       IN FromInit(tape, i + 1, [v |-> s.v, last |-> s.last, rets |-> Append(st.rets, s.ret)])

InvHistIndep ==
  ResetPos # {} =>
    LET p    == CHOOSE i \in ResetPos : \A j \in ResetPos : j <= i
        tape == [i \in 1..(Len(hist) - p) |-> hist[p + i][1]]
        ref  == FromInit(tape, 1, [v |-> Ident, last |-> M, rets |-> <<>>])
    IN /\ v = ref.v
       /\ L0(lastidx) = L0(ref.last)
       /\ blk = ref.rets

EmitBehaviour ==
  (Emit /\ HDone) => PrintT(<<"BH", ToJson([m |-> M, r |-> R, h |-> hist, v |-> ToSeq(v)])>>)
================================================================================
