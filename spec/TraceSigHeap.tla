---------------------------- MODULE TraceSigHeap ----------------------------
(* Trace validation for C18 (direction implementation -> specification).            *)
(* The harness runs the real code under a logging global allocator.  A trace is a    *)
(* header line {little} followed by cases:                                           *)
(*   {op:"case", id, site, type}                                                     *)
(*   {op:"alloc", b, size, align}      b = blocks numbered by first allocation       *)
(*   {op:"free",  b, size, align}      b = 0: a pointer that was not allocated       *)
(*                                         inside the observation window             *)
(*   {op:"read",  b, off, len}         the harness reads all bytes of the result     *)
(*   {op:"end", id, ret, eq, len, explen [, k, w, val, bytes]}                       *)
(* site "get_sig": let s = x.get_sig(); read s; drop(s).  ret = block of s's buffer  *)
(* (0: s has no buffer).  site "sketch": a ProbMinHash3aSha run (ret = -1).          *)
(* The heap rules are the operators of SigHeap.tla (FreeVerdict, ReadVerdict, ...),  *)
(* the bytes are compared with SigHeap!Bytes.                                        *)
(* Strict = TRUE : an event that breaks a rule is not enabled, the trace is          *)
(*                 rejected at that line.                                            *)
(* Strict = FALSE: monitor; every event is consumed, rule violations are collected   *)
(*                 per case and printed at its end (used to classify after a reject).*)
EXTENDS Integers, Sequences, FiniteSets, TLC, Json, IOUtils

CONSTANT Strict

Rec == ndJsonDeserialize(IOEnv.TRACE)

VARIABLES l, heap, errs, cid
vars == <<l, heap, errs, cid>>

H == INSTANCE SigHeap WITH Progs <- {}, Widths <- {}, Lens <- {}, ForgetClone <- TRUE,
                           Little <- Rec[1].little, DropHigh <- FALSE, MaxLen <- 0, Emit <- FALSE,
                           heap <- heap, own <- <<>>, pc <- 0, prog <- "", w <- 0, n <- 0,
                           err <- {}, rd <- FALSE, bv <- <<>>

Has(r, f) == f \in DOMAIN r
Err(kind, b) == [kind |-> kind, b |-> b, line |-> l]
Note(v, b) == IF v = "ok" THEN <<>> ELSE <<Err(v, b)>>
Ok(v) == Strict => v = "ok"

TraceInit == l = 2 /\ heap = <<>> /\ errs = <<>> /\ cid = -1

IsEvent(e) == l <= Len(Rec) /\ Rec[l].op = e /\ l' = l + 1

Case == /\ IsEvent("case")
        /\ cid = -1
        /\ Rec[l].id >= 0
        /\ cid' = Rec[l].id
        /\ heap' = <<>>
        /\ errs' = <<>>

Alloc == /\ IsEvent("alloc")
         /\ cid # -1
         /\ LET r == Rec[l] IN
              /\ r.b = Len(heap) + 1          \* well-formedness of the numbering (not a verdict about the code)
              /\ r.size > 0
              /\ heap' = H!AfterAlloc(heap, r.size, r.align)
         /\ UNCHANGED <<errs, cid>>

Free == /\ IsEvent("free")
        /\ cid # -1
        /\ LET r == Rec[l]
               v == H!FreeVerdict(heap, r.b, r.size, r.align)
           IN /\ Ok(v)
              /\ heap' = H!AfterFree(heap, r.b)
              /\ errs' = errs \o Note(v, r.b)
        /\ UNCHANGED cid

Read == /\ IsEvent("read")
        /\ cid # -1
        /\ LET r == Rec[l]
               v == H!ReadVerdict(heap, r.b, r.off, r.len)
           IN /\ Ok(v)
              /\ errs' = errs \o Note(v, r.b)
        /\ UNCHANGED <<heap, cid>>

(* the result's buffer must have been freed exactly once when the case ends *)
ResultVerdict(r) ==
  IF r.ret <= 0 THEN "ok"
  ELSE IF ~H!Known(heap, r.ret) THEN "result_unknown"
  ELSE IF heap[r.ret].frees = 0 THEN "result_not_freed"
  ELSE IF heap[r.ret].frees > 1 THEN "result_freed_twice"
  ELSE "ok"

(* the harness compared with to_ne_bytes / as_bytes (eq); for small values the specification recomputes *)
BytesVerdict(r) ==
  IF ~r.eq \/ r.len # r.explen THEN "bytes_mismatch"
  ELSE IF Has(r, "bytes") /\ r.bytes # H!Bytes(r.k, r.w, r.val) THEN "bytes_mismatch_spec"
  ELSE IF Has(r, "bytes") /\ Len(r.bytes) # r.len THEN "bytes_mismatch"
  ELSE "ok"

Leaked(r) == Cardinality({b \in 1..Len(heap) : b # r.ret /\ heap[b].frees = 0})

End == /\ IsEvent("end")
       /\ cid # -1
       /\ LET r  == Rec[l]
              v1 == ResultVerdict(r)
              v2 == BytesVerdict(r)
          IN /\ r.id = cid
             /\ Ok(v1) /\ Ok(v2)
             /\ errs' = (errs \o Note(v1, r.ret)) \o Note(v2, 0)
             /\ (~Strict /\ (errs' # <<>> \/ (r.ret >= 0 /\ Leaked(r) > 0)))
                   => PrintT(<<"CASE", ToJson([id |-> r.id, errs |-> errs', leaked |-> IF r.ret >= 0 THEN Leaked(r) ELSE 0])>>)
       /\ cid' = -1
       /\ UNCHANGED heap

TraceNext == Case \/ Alloc \/ Free \/ Read \/ End
TraceSpec == TraceInit /\ [][TraceNext]_vars

TraceAccepted ==
  LET d == TLCGet("stats").diameter IN
  IF d = Len(Rec) THEN TRUE
  ELSE PrintT(<<"TRACE-REJECT", d, Len(Rec)>>) /\ FALSE
================================================================================
