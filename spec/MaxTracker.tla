------------------------------ MODULE MaxTracker ------------------------------
(* The implicit-tree max tracker of src/maxvaluetrack.rs (C15).                  *)
(* Layer A: mins[k] = smallest value ever offered to slot k (INF if none).       *)
(* Layer B: vals = the array of 2M-1 nodes, Update = the propagation loop of the *)
(*          Rust code, statement by statement.                                   *)
(* act records the parameters of the last action so that every transition of the *)
(* state graph can be exported and replayed on the real object; it is hidden by  *)
(* the VIEW of the exhaustive configs.                                           *)
EXTENDS Integers, Sequences, FiniteSets, TLC, Json

CONSTANTS M,       \* number of slots
          V,       \* values offered are 0..V-1, INF == V plays the type maximum
          Emit     \* TRUE: print every transition as JSON (for the replay)

INF   == V
Last  == 2*M - 2
Nodes == 0..Last
Slots == 0..(M-1)

VARIABLES vals, mins, act
vars == <<vals, mins, act>>
view == <<vals, mins>>

Max(S) == CHOOSE x \in S : \A y \in S : y <= x
Xor1(k) == IF k % 2 = 0 THEN k + 1 ELSE k - 1

Init == /\ vals = [n \in Nodes |-> INF]
        /\ mins = [k \in Slots |-> INF]
        /\ act  = <<-1, -1>>

(* the `while more` loop: invariant on entry  cv < vs[ck]                        *)
RECURSIVE Prop(_, _, _)
Prop(vs, ck, cv) ==
  LET vs1  == [vs EXCEPT ![ck] = cv]
      pidx == M + (ck \div 2)
  IN IF pidx > Last THEN vs1                                       \* break: root reached
     ELSE LET sib == Xor1(ck) IN
          IF vs1[sib] >= vs1[pidx] /\ vs1[ck] >= vs1[pidx] THEN vs1  \* break: nothing to propagate
          ELSE LET nv == IF cv < vs1[sib] THEN vs1[sib] ELSE cv IN
               IF nv >= vs1[pidx] THEN vs1                          \* more := false
               ELSE Prop(vs1, pidx, nv)

Update(k, v) ==
  /\ vals' = IF v < vals[k] THEN Prop(vals, k, v) ELSE vals
  /\ mins' = [mins EXCEPT ![k] = IF v < @ THEN v ELSE @]
  /\ act'  = <<k, v>>

Reset ==
  /\ vals' = [n \in Nodes |-> INF]
  /\ mins' = [k \in Slots |-> INF]
  /\ act'  = <<-2, -2>>

Next == (\E k \in Slots, v \in 0..(V-1) : Update(k, v)) \/ Reset
Spec == Init /\ [][Next]_vars

(* observable functions of Layer A: what the property speaks about *)
MaxOf(mn)      == Max({mn[k] : k \in Slots})
Possible(mn, v) == v < MaxOf(mn)

(* refinement Layer B => Layer A *)
InvLeaves   == \A k \in Slots : vals[k] = mins[k]
InvMax      == vals[Last] = MaxOf(mins)
InvTree     == \A n \in 0..(Last-1) : vals[n] <= vals[M + (n \div 2)]
InvPossible == \A v \in 0..V : (v < vals[Last]) = Possible(mins, v)
InvReset    == act = <<-2, -2>> => (vals = [n \in Nodes |-> INF] /\ mins = [k \in Slots |-> INF])

ToSeq(f, n) == [i \in 1..n |-> f[i-1]]
EmitTransition ==
  Emit => PrintT(<<"TR", ToJson([m |-> M, v |-> V,
                         s |-> ToSeq(mins, M), sv |-> ToSeq(vals, 2*M-1),
                         a |-> act', t |-> ToSeq(mins', M), tv |-> ToSeq(vals', 2*M-1)])>>)
================================================================================
