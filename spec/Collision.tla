------------------------------- MODULE Collision -------------------------------
(* C07, structural part: when are two SetSketch registers equal, and how does the  *)
(* collision event decompose into the terms of the collision-probability formula   *)
(* of DESIGN.md (C07).                                                             *)
(*                                                                                 *)
(* A register is the cell of the minimum of the per-item values of a set           *)
(* (SetSketch.tla / C05: register = max over the items of clip(floor(1-log_b x)),  *)
(* which is the clipped cell of the smallest x).  Cells:                           *)
(*    cell 0   = (1, +inf]            (value clipped at 0; an empty set has        *)
(*                                     minimum +inf and register 0)                *)
(*    cell k   = (b^-k, b^(1-k)]      1 <= k <= Q                                  *)
(*    cell Q+1 = (0, b^-Q]            (value clipped at Q+1)                       *)
(* so  lo_k = b^-k (lo_{Q+1} = 0),  hi_k = lo_{k-1} (hi_0 = +inf).                  *)
(*                                                                                 *)
(* The model is discrete: the minima U, V, W of A\B, B\A and A/\B take values in  *)
(* a grid of points 1 < 2 < .. < G (increasing reals) or INF = G+1 (empty part).   *)
(* A raw map r gives the unclipped cell index floor(1 - log_b g_x) of the finite   *)
(* points (antitone, values -E..Q+1+E); cell clips it exactly as the code does     *)
(* (min with Q+1, then max with 0).  In the discrete model "S_X(lo_k)" = P(X>lo_k) *)
(* is the weight of the points of X in cells <= k, written Le(wX, k);              *)
(* S_X(hi_k) = Le(wX, k-1); and S_X(hi_0) = S_X(+inf) = 0 is Le(wX, -1) = 0 - also *)
(* for an empty part, whose whole weight sits on INF, i.e. in cell 0.              *)
(*                                                                                 *)
(* Mode "maps":  every antitone raw map, all weights 1: InvRegs, InvDecomp (every  *)
(*               triple of points), InvCount.                                      *)
(* Mode "all":   every antitone raw map and every 0/1 weight (support) of U, V, W: *)
(*               InvCount, InvTotal (the counting identity for every support).     *)
(* Mode "given": one raw map and integer weights (a discretised exponential law)   *)
(*               supplied by the driver in a JSON file; the brute-force counts are *)
(*               exported and compared with the driver's threshold-based            *)
(*               implementation of the same formula (the implementation that is    *)
(*               then used with real exponentials as the numeric oracle, outside   *)
(*               TLA+).                                                            *)
(* Mut selects a deviation of the formula (anti-vacuity): TLC must refute InvCount. *)
EXTENDS Integers, Sequences, FiniteSets, FiniteSetsExt, TLC, Json, IOUtils

CONSTANTS G, Q, Mode, E, Mut

(* mode "given": a JSON array of {raw: [raw + E per finite point], wu, wv, ww: [weight per point  *)
(* incl. INF]}, one initial state per entry.  TLC evaluates the definition at start-up in every    *)
(* mode: the driver always supplies a file                                                        *)
Given == JsonDeserialize(IOEnv.C07_GIVEN)

INF  == G + 1
Fin  == 1..G
Pts  == 1..(G + 1)
Regs == 0..(Q + 1)

VARIABLES id, cell, wu, wv, ww
vars == <<id, cell, wu, wv, ww>>

Min2(a, b) == IF a < b THEN a ELSE b
Max2(a, b) == IF a > b THEN a ELSE b

(* the clipping of sketch(): z = min(q+1, floor(1 - log_b x)); k = max(0, z) *)
Clip(z) == Max2(0, Min2(Q + 1, z))
CellOf(r) == [x \in Pts |-> IF x = INF THEN 0 ELSE Clip(r[x])]

Antitone == {f \in [Fin -> (0 - E)..(Q + 1 + E)] : \A x \in 1..(G - 1) : f[x] >= f[x + 1]}
Supports == {w \in [Pts -> {0, 1}] : \E x \in Pts : w[x] = 1}
Ones     == [x \in Pts |-> 1]

Init == CASE Mode = "maps" -> /\ id = 0 /\ (\E r \in Antitone : cell = CellOf(r))
                              /\ wu = Ones /\ wv = Ones /\ ww = Ones
          [] Mode = "all"  -> /\ id = 0 /\ (\E r \in Antitone : cell = CellOf(r))
                              /\ wu \in Supports /\ wv \in Supports /\ ww \in Supports
          [] OTHER -> \E i \in 1..Len(Given) :
                      /\ id = i
                      /\ cell = CellOf([x \in Fin |-> Given[i].raw[x] - E])
                      /\ wu = [x \in Pts |-> Given[i].wu[x]] /\ wv = [x \in Pts |-> Given[i].wv[x]]
                      /\ ww = [x \in Pts |-> Given[i].ww[x]]
Next == UNCHANGED vars
Spec == Init /\ [][Next]_vars

(* ---- registers of the two sets ------------------------------------------------- *)
(* implementation shape: a register is the maximum over the parts of the set (the    *)
(* join of C04/C05); specification shape: the cell of the minimum                    *)
RegA(u, w) == Max2(cell[u], cell[w])
RegB(v, w) == Max2(cell[v], cell[w])

InvRegs == \A u, v, w \in Pts :
  /\ RegA(u, w) = cell[Min2(u, w)]
  /\ RegB(v, w) = cell[Min2(v, w)]
  /\ Max2(RegA(u, w), RegB(v, w)) = cell[Min2(u, Min2(v, w))]      \* register of the union
  /\ RegA(u, w) \in Regs /\ RegB(v, w) \in Regs

(* ---- the two events of the formula, per cell k ---------------------------------- *)
(* T1: W lies in cell k, U and V are not below cell k (value > lo_k)                 *)
(* T2: W lies above cell k (value > hi_k), U and V both lie in cell k                *)
T1(k, u, v, w) == cell[w] = k /\ cell[u] <= k /\ cell[v] <= k
T2(k, u, v, w) == cell[w] < k /\ cell[u] = k /\ cell[v] = k

InvDecomp == \A u, v, w \in Pts :
  LET ra == RegA(u, w)
      rb == RegB(v, w) IN
  /\ (ra = rb) <=> (\E k \in Regs : T1(k, u, v, w) \/ T2(k, u, v, w))
  /\ \A k \in Regs : (T1(k, u, v, w) \/ T2(k, u, v, w)) => (ra = k /\ rb = k)
  /\ \A k \in Regs : ~(T1(k, u, v, w) /\ T2(k, u, v, w))

(* ---- counting ------------------------------------------------------------------- *)
Supp(wt) == {x \in Pts : wt[x] # 0}
Wt(wt, S) == MapThenSumSet(LAMBDA x : wt[x], S)

(* weight of all triples satisfying P, by brute force *)
Brute(P(_, _, _)) ==
  MapThenSumSet(LAMBDA t : wu[t[1]] * wv[t[2]] * ww[t[3]],
                {t \in Supp(wu) \X Supp(wv) \X Supp(ww) : P(t[1], t[2], t[3])})

Coll(k)   == Brute(LAMBDA u, v, w : RegA(u, w) = k /\ RegB(v, w) = k)
CollT1(k) == Brute(LAMBDA u, v, w : T1(k, u, v, w))
CollT2(k) == Brute(LAMBDA u, v, w : T2(k, u, v, w))
CollAny   == Brute(LAMBDA u, v, w : RegA(u, w) = RegB(v, w))
Total     == Wt(wu, Pts) * Wt(wv, Pts) * Wt(ww, Pts)

(* tail weights: Le(w, k) = weight of {x : value(x) > lo_k} = "S(lo_k)"; Le(w, -1) = "S(+inf)" = 0 *)
Le(wt, k) == Wt(wt, {x \in Pts : cell[x] <= k})

(* the two terms of the formula for cell k *)
Term1(k) == (Le(ww, k) - Le(ww, k - 1)) * Le(wu, k) * Le(wv, k)
Term2(k) == IF Mut = "t2closed"
              THEN Le(ww, k) * (Le(wu, k) - Le(wu, k - 1)) * (Le(wv, k) - Le(wv, k - 1))
              ELSE Le(ww, k - 1) * (Le(wu, k) - Le(wu, k - 1)) * (Le(wv, k) - Le(wv, k - 1))

FormulaCells == IF Mut = "dropclip" THEN 0..Q            \* forgets the cell clipped at Q+1
                ELSE IF Mut = "dropzero" THEN 1..(Q + 1)  \* forgets the cell clipped at 0
                ELSE Regs
Formula(k) == IF k \in FormulaCells THEN Term1(k) + Term2(k) ELSE 0

InvCount == \A k \in Regs :
  /\ Coll(k) = Formula(k)
  /\ Mut = "none" => CollT1(k) = Term1(k)

InvTotal == CollAny = MapThenSumSet(Formula, Regs) /\ CollAny <= Total

(* export of the brute-force counts (mode "given") *)
InvExport == PrintT(<<"COUNT", ToJson([id |-> id, total |-> Total, coll |-> CollAny,
                                       perk |-> [k \in 1..(Q + 2) |-> Coll(k - 1)],
                                       t1 |-> [k \in 1..(Q + 2) |-> CollT1(k - 1)],
                                       t2 |-> [k \in 1..(Q + 2) |-> CollT2(k - 1)]])>>)
================================================================================
