----------------------------- MODULE SuperMinHash2 -----------------------------
(* SuperMinHash2 (src/superminhasher2.rs), Layer B against Layer A; C03 (structure), *)
(* C04, C13.                                                                          *)
(* Randomness of item x: a permutation perm[x] of the positions (a full lazy shuffle, *)
(* reset per item) and a value r[x][j] per step; per position the sketch keeps the    *)
(* lexicographically smallest (level l = step index, value) and stores the hash of    *)
(* the item that produced it.  Values are made globally distinct (r*K + x).           *)
(* Layer A: (l, value)[pos] = lexicographic min over the set of Tab(x)[pos];          *)
(*          sig[pos] = the item attaining it.                                         *)
(* Layer B: l[], values[], histogram b[] of levels, a_upper, `while j <= a_upper`.    *)
EXTENDS Integers, Sequences, FiniteSets, TLC

CONSTANTS M, NItems, G, Mut

Items == 1..NItems
Idx   == 0..(M-1)
K     == NItems + 1
VMAX  == 1000000

VARIABLES perm, rr,                 \* randomness
          lv, vals, sig, bh, aup,   \* Layer B
          set, last
vars == <<perm, rr, lv, vals, sig, bh, aup, set, last>>

Perms == {f \in [Idx -> Idx] : \A i, j \in Idx : i # j => f[i] # f[j]}
Val(x, j) == rr[x][j] * K + x

InitB == /\ lv = [k \in Idx |-> M-1] /\ vals = [k \in Idx |-> VMAX] /\ sig = [k \in Idx |-> 0]
         /\ bh = [j \in Idx |-> IF j = M-1 THEN M ELSE 0] /\ aup = M-1

Init == /\ perm \in [Items -> Perms] /\ rr \in [Items -> [Idx -> 0..(G-1)]]
        /\ InitB /\ set = {} /\ last = "init"

(* Layer A: position perm[x][j] is offered (level j, Val(x,j)) *)
Lex(a, b) == a[1] < b[1] \/ (a[1] = b[1] /\ a[2] < b[2])
Tab(x) == [pos \in Idx |-> LET j == CHOOSE j \in Idx : perm[x][j] = pos IN <<j, Val(x, j), x>>]
Best(S, pos) == CHOOSE t \in {Tab(x)[pos] : x \in S} : \A u \in {Tab(x)[pos] : x \in S} : ~Lex(u, t)

RECURSIVE Loop(_, _, _, _, _, _, _)
Loop(x, j, l, v, s, b, au) ==
  IF j > au THEN <<l, v, s, b, au>>
  ELSE LET k == perm[x][j]  r == Val(x, j) IN
    IF (IF Mut = "lgt" THEN l[k] > j ELSE l[k] >= j) THEN
      IF l[k] = j THEN
        IF r <= v[k] THEN Loop(x, j+1, l, [v EXCEPT ![k] = r], [s EXCEPT ![k] = x], b, au)
        ELSE Loop(x, j+1, l, v, s, b, au)
      ELSE
        LET b2  == [b EXCEPT ![l[k]] = @ - 1, ![j] = @ + 1]
            au2 == IF Mut = "noaup" THEN au
                   ELSE CHOOSE a \in Idx : a <= au /\ b2[a] > 0 /\ \A c \in Idx : (c > a /\ c <= au) => b2[c] = 0
        IN Loop(x, j+1, [l EXCEPT ![k] = j], [v EXCEPT ![k] = r], [s EXCEPT ![k] = x], b2, au2)
    ELSE Loop(x, j+1, l, v, s, b, au)

Sketch(x) ==
  LET o == Loop(x, 0, lv, vals, sig, bh, aup) IN
  /\ lv' = o[1] /\ vals' = o[2] /\ sig' = o[3] /\ bh' = o[4] /\ aup' = o[5]
  /\ set' = set \cup {x} /\ last' = "sketch" /\ UNCHANGED <<perm, rr>>

Reinit ==
  /\ vals' = [k \in Idx |-> VMAX]
  /\ lv' = IF Mut = "reinitl" THEN lv ELSE [k \in Idx |-> M-1]
  /\ bh' = [j \in Idx |-> IF j = M-1 THEN M ELSE 0]
  /\ sig' = [k \in Idx |-> 0] /\ aup' = M-1
  /\ set' = {} /\ last' = "reinit" /\ UNCHANGED <<perm, rr>>

Next == (\E x \in Items : Sketch(x)) \/ Reinit
Spec == Init /\ [][Next]_vars

Refines == set # {} => \A pos \in Idx : LET t == Best(set, pos) IN
                          lv[pos] = t[1] /\ vals[pos] = t[2] /\ sig[pos] = t[3]
StoredAreStreamed == \A pos \in Idx : sig[pos] \in set \cup {0}                          \* C04
NoPlaceholder == set # {} => \A pos \in Idx : sig[pos] # 0
Histo == \A j \in Idx : bh[j] = Cardinality({k \in Idx : lv[k] = j})
AupOK == bh[aup] > 0 /\ \A j \in Idx : j > aup => bh[j] = 0
SingleIsPerm == \A x \in Items : set = {x} => {lv[k] : k \in Idx} = Idx                  \* C03, structure
ReinitIsInit == last = "reinit" => (InitB /\ set = {})                                    \* C13
================================================================================
