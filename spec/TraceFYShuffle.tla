--------------------------- MODULE TraceFYShuffle ---------------------------
(* Trace validation for C17 (direction implementation -> specification).         *)
(* A trace is a header line followed by the calls made on real FYshuffle objects *)
(* (new / next / reset) with the value returned and get_values() after the call. *)
(* The generator output consumed by a `next` is logged exactly: xi = n * 2^-52   *)
(* with n = n2*2^32 + n1*2^16 + n0, and the specification computes               *)
(* floor(xi * (m - lastidx)) from it in exact integer arithmetic.                *)
(*                                                                               *)
(* Header field `free`:                                                          *)
(*  FALSE (strict): the actions are those of FYShuffle.tla: wrap, index, swap,   *)
(*        advance; the returned value and every logged get_values() must be the  *)
(*        specification's.  An xi*(m-lastidx) within 2^-20 of an integer may     *)
(*        fall on either side (the Rust code multiplies in floating point).      *)
(*  TRUE (map-free): only what the property says without fixing the xi -> index  *)
(*        map: every returned value is in 0..m-1 and new in its block of m draws *)
(*        since new/reset, and the get_values() logged at the end of a block of  *)
(*        m draws (one is logged at every end of block) is a permutation of      *)
(*        0..m-1.  What get_values() shows in the middle of a block or right     *)
(*        after a reset is not fixed by the property (an implementation may      *)
(*        restore its table lazily) and is not constrained here.                 *)
(* The driver validates strictly first; a strict rejection that the map-free     *)
(* validation accepts is drift of the map (decided by the measure of the         *)
(* pre-images), a map-free rejection is a violation.                             *)
EXTENDS Integers, Sequences, FiniteSets, TLC, Json, IOUtils

Rec  == ndJsonDeserialize(IOEnv.TRACE)
Free == Rec[1].free

VARIABLES l, m, v, last, blk
vars == <<l, m, v, last, blk>>

Has(r, f)      == f \in DOMAIN r
Range(s)       == {s[i] : i \in 1..Len(s)}
IsPerm(s, n)   == Len(s) = n /\ Range(s) = 0..(n-1)
Ident(n)       == [i \in 1..n |-> i - 1]
SwapS(s, a, b) == [s EXCEPT ![a] = s[b], ![b] = s[a]]

P16 == 65536
P20 == 1048576

(* n*k = q * 2^52 + rem with rem = top * 2^32 + ... ; returns <<q, top>> (k <= 1024) *)
Mul(r, k) == LET t0 == r.n0 * k
                 t1 == r.n1 * k + (t0 \div P16)
                 t2 == r.n2 * k + (t1 \div P16)
             IN <<t2 \div P20, t2 % P20>>

Offsets(r, k) ==
  LET q == Mul(r, k)
  IN ({q[1]} \cup (IF q[2] = 0 THEN {q[1] - 1} ELSE {})
             \cup (IF q[2] = P20 - 1 THEN {q[1] + 1} ELSE {})) \cap 0..(k-1)

LimbsOk(r) == r.n0 \in 0..(P16-1) /\ r.n1 \in 0..(P16-1) /\ r.n2 \in 0..(P20-1)

TraceInit == l = 2 /\ m = 0 /\ v = <<>> /\ last = 0 /\ blk = <<>>

IsEvent(e) == l <= Len(Rec) /\ Rec[l].op = e /\ l' = l + 1

ObsV(r, want) == Has(r, "v") => (IF Free THEN TRUE ELSE r.v = want)

New == /\ IsEvent("new")
       /\ Rec[l].m >= 1
       /\ m' = Rec[l].m
       /\ v' = Ident(Rec[l].m)
       /\ last' = Rec[l].m
       /\ blk' = <<>>
       /\ ObsV(Rec[l], Ident(Rec[l].m))

Reset == /\ IsEvent("reset")
         /\ v' = Ident(m)
         /\ last' = 0
         /\ blk' = <<>>
         /\ ObsV(Rec[l], Ident(m))
         /\ UNCHANGED m

Draw == /\ IsEvent("next")
        /\ LET r  == Rec[l]
               l0 == IF last >= m THEN 0 ELSE last
               k  == m - l0
               b0 == IF l0 = 0 THEN <<>> ELSE blk
           IN /\ last' = l0 + 1
              /\ blk' = Append(b0, r.ret)
              /\ r.ret \in 0..(m-1)
              /\ r.ret \notin Range(b0)
              /\ (l0 + 1 = m) => Has(r, "v")
              /\ IF Free
                   THEN /\ v' = v
                        /\ (l0 + 1 = m) => IsPerm(r.v, m)
                   ELSE /\ LimbsOk(r)
                        /\ \E o \in Offsets(r, k) :
                             /\ v[l0 + o + 1] = r.ret
                             /\ v' = SwapS(v, l0 + o + 1, l0 + 1)
                             /\ Has(r, "v") => r.v = v'
        /\ UNCHANGED m

TraceNext == New \/ Reset \/ Draw
TraceSpec == TraceInit /\ [][TraceNext]_vars

(* the specification's own block invariant, checked along the accepted prefix *)
TraceInvBlock == /\ Cardinality(Range(blk)) = Len(blk)
                 /\ (~Free /\ m > 0) => (IsPerm(v, m) /\ \A i \in 1..Len(blk) : blk[i] = v[i])

TraceAccepted ==
  LET d == TLCGet("stats").diameter IN
  IF d = Len(Rec) THEN TRUE
  ELSE PrintT(<<"TRACE-REJECT", d, Len(Rec)>>) /\ FALSE
================================================================================
