--------------------------- MODULE TraceEstimators ---------------------------
(* Trace validation for C14 (direction implementation -> specification).        *)
(* Line 1 is a header, the last line an `end` event carrying the number of      *)
(* events (a removed event is detected), every other line is one recorded call   *)
(* (or a group of calls on the same inputs):                                     *)
(*   count : calls = <<[grp, a, b, res]>>, a and b are the sketches as symbol    *)
(*           sequences, res = <<[out, c, eps]>> groups the entry points (index   *)
(*           ranges into Rec[1].eps) by outcome; `value` with c means            *)
(*           ret == c/len bit-exactly in the function's own float type.          *)
(*   long  : sketches of length n, nb given by construction: b differs from a    *)
(*           exactly at the positions pos (mode diff) / agrees exactly at pos    *)
(*           (mode same).                                                        *)
(*   mle   : outcome of MleJaccard::get_mle on two real SetSketch sketches.      *)
(* The expected outcome is computed with EstA of Estimators.tla (Layer A; TLC     *)
(* checks there that the loop Est refines it - the recursive loop operator is    *)
(* quadratic in TLC for sketches of length 10^4).                                *)
(* Every well-formed event is consumed; the events whose observation differs     *)
(* from the specification are collected in rej and reported at the end, so that  *)
(* one run classifies a whole trace.                                             *)
EXTENDS Integers, Sequences, FiniteSets, TLC, Json, IOUtils

CONSTANT ClampStart    \* which MleProtocol describes the code under test (advisory only)

Rec == ndJsonDeserialize(IOEnv.TRACE)

VARIABLES l, rej, drift
vars == <<l, rej, drift>>

E == INSTANCE Estimators WITH Sym <- {}, MaxLen <- 0, OnPrefix <- FALSE, Items <- {}, M <- 1, K <- 0,
                              Sizes <- {}, Emit <- FALSE, pc <- l, inp <- l, st <- l, out <- l

Range(s) == {s[i] : i \in 1..Len(s)}

RECURSIVE SumRanges(_, _)
SumRanges(s, i) == IF i > Len(s) THEN 0 ELSE (s[i][2] - s[i][1] + 1) + SumRanges(s, i + 1)
RECURSIVE NEps(_, _)
NEps(res, k) == IF k > Len(res) THEN 0 ELSE SumRanges(res[k].eps, 1) + NEps(res, k + 1)

(* the observation of every entry point agrees with the specified outcome; a length *)
(* mismatch may be reported by an error or by a panic                               *)
AcceptRes(res, exp) ==
  \A k \in 1..Len(res) :
     IF exp.kind = "value" THEN res[k].out = "value" /\ res[k].c = exp.c
     ELSE res[k].out \in {"refused", "panic"}

AcceptCall(call) ==
  /\ AcceptRes(call.res, E!EstA(call.a, call.b))
  /\ NEps(call.res, 1) = (IF call.grp = "free" THEN Rec[1].nfree ELSE Rec[1].nmethod)

AcceptCount(r) == Len(r.calls) >= 1 /\ \A k \in 1..Len(r.calls) : AcceptCall(r.calls[k])

AcceptLong(r) ==
  LET D  == TLCEval(Range(r.pos))
      la == TLCEval([i \in 1..r.n |-> 0])
      lb == TLCEval([i \in 1..r.nb |-> IF (i \in D) = (r.mode = "diff") THEN 1 ELSE 0])
  IN /\ AcceptRes(r.res, E!EstA(la, lb))
     /\ NEps(r.res, 1) = Rec[1].nlong

(* the property: a value, finite, within [0, 1] *)
AcceptMle(r) == /\ r.out = "value"
                /\ r.finite /\ r.ge0 /\ r.le1
                /\ 0 <= r.j_e9 /\ r.j_e9 <= 1000000000

(* MleProtocol: the call aborts iff the start is outside the bracket and is not clamped *)
DriftMle(r) == (r.out = "panic") # ((~ClampStart) /\ (~r.in_bracket))

TraceInit == l = 2 /\ rej = <<>> /\ drift = <<>>

IsEvent(e) == l <= Len(Rec) /\ Rec[l].op = e

Step(ok, dr) == /\ l' = l + 1
                /\ rej' = IF ok THEN rej ELSE Append(rej, l)
                /\ drift' = IF dr THEN Append(drift, l) ELSE drift

Count == IsEvent("count") /\ Step(AcceptCount(Rec[l]), FALSE)
Long  == IsEvent("long") /\ Step(AcceptLong(Rec[l]), FALSE)
Mle   == IsEvent("mle") /\ Step(AcceptMle(Rec[l]), DriftMle(Rec[l]))
End   == IsEvent("end") /\ l = Len(Rec) /\ Rec[l].n = l - 2 /\ Step(TRUE, FALSE)

TraceNext == Count \/ Long \/ Mle \/ End
TraceSpec == TraceInit /\ [][TraceNext]_vars

InvReport == l = Len(Rec) + 1 =>
               PrintT(<<"TRACEINFO", ToJson([rejected |-> rej, drift |-> drift, lines |-> Len(Rec)])>>)

TraceAccepted ==
  LET d == TLCGet("stats").diameter IN
  IF d = Len(Rec) THEN TRUE
  ELSE PrintT(<<"TRACE-REJECT", d, Len(Rec)>>) /\ FALSE
================================================================================
