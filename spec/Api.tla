------------------------------- MODULE Api -------------------------------
(***************************************************************************)
(* Public API protocol of the stateful objects of the crate: which calls  *)
(* are accepted in which phase, what they return (ok / err / panic, the   *)
(* length of a returned sketch) and which phase they lead to.  This is    *)
(* behaviour no listed property speaks about (DESIGN.md section 5): it is  *)
(* specified as the code behaves today, surprising branches included and   *)
(* named:                                                                  *)
(*   - a densified sketcher refuses its getters (panic) until no bin is    *)
(*     empty; finishing an empty one panics (after the repair 0819089 -    *)
(*     it used to hang); `sketch` stays legal after the finishing step;    *)
(*   - SuperMinHash / SuperMinHash2 / SetSketch return Err on an empty     *)
(*     slice and leave the sketch unchanged, getters are legal at any time;*)
(*   - SetSketch `merge` with other parameters is refused (Err) and the    *)
(*     receiver is unchanged;                                              *)
(*   - ProbMinHash `hash_item` asserts weight > 0 (0, negative and NaN     *)
(*     panic before anything is written); the batch entry points of        *)
(*     ProbMinHash2/3 loop over `hash_item`, so a bad weight in the middle *)
(*     of a batch leaves the items before it applied (PartialBatch);       *)
(*   - ProbOrdMinHash2 `hash_set` panics on a sequence shorter than l and  *)
(*     is usable afterwards (every call clears the state first);           *)
(*   - FYshuffle: m draws form a block, `reset` restarts it.               *)
(* Dev selects a deliberately wrong variant that TLC must refute.          *)
(***************************************************************************)
EXTENDS Naturals, FiniteSets, TLC

CONSTANTS Kinds,   \* subset of AllKinds
          MaxM,    \* sketch sizes 1..MaxM
          Dev      \* "none" | "get_when_partial" | "err_changes_state" | "reinit_keeps" | "end_empty_ok"

VARIABLES kind, m, ph, pos, last
vars == <<kind, m, ph, pos, last>>

AllKinds == {"dens", "smh", "ss", "pmh", "pmh3", "pmha", "ord", "fy"}
Outs == {"ok", "err", "panic"}
Phases == {"empty", "partial", "dense", "fresh", "fed", "ready"}

Fresh(k) == CASE k = "dens" -> "empty"
              [] k \in {"smh", "ss", "pmh", "pmh3", "pmha"} -> "fresh"
              [] OTHER -> "ready"

\* smallest size the constructor accepts (ProbMinHash3 / 3a assert nbhash >= 2)
MinM(k) == IF k \in {"pmh3", "pmha"} THEN 2 ELSE 1

Ev(op, out, len) == [op |-> op, out |-> out, len |-> len]

TypeOK == /\ kind \in AllKinds
          /\ m \in 1..MaxM
          /\ ph \in Phases
          /\ pos \in 0..MaxM
          /\ last.out \in Outs

Init == /\ kind \in Kinds
        /\ m \in MinM(kind)..MaxM
        /\ ph = Fresh(kind)
        /\ pos = 0
        /\ last = Ev("new", "ok", 0)

Keep == UNCHANGED <<kind, m>>

----------------------------------------------------------------------------
(* densified one-permutation sketchers (OptDensMinHash, RevOptDensMinHash) *)

DSketch == /\ kind = "dens" /\ Keep /\ UNCHANGED pos
           /\ last' = Ev("sketch", "ok", 0)
           /\ ph' \in IF m = 1 THEN {"dense"}
                      ELSE IF ph = "empty" THEN {"partial"}
                      ELSE IF ph = "partial" THEN {"partial", "dense"}
                      ELSE {"dense"}

\* sketch_slice(n items): streams them, then densifies if a bin is empty
DSlice(n) == /\ kind = "dens" /\ Keep /\ UNCHANGED pos
             /\ IF n = 0 /\ ph = "empty"
                THEN /\ last' = Ev("slice", IF Dev = "end_empty_ok" THEN "ok" ELSE "panic", 0)
                     /\ ph' = ph
                ELSE /\ last' = Ev("slice", "ok", 0)
                     /\ ph' = "dense"

DEnd == /\ kind = "dens" /\ Keep /\ UNCHANGED pos
        /\ IF ph = "empty"
           THEN /\ last' = Ev("end", IF Dev = "end_empty_ok" THEN "ok" ELSE "panic", 0)
                /\ ph' = ph
           ELSE /\ last' = Ev("end", "ok", 0)
                /\ ph' = "dense"

\* get_hsketch / get_hsketch_u64 / get_hsketch_u32
DGet == /\ kind = "dens" /\ Keep /\ UNCHANGED <<pos, ph>>
        /\ LET allowed == ph = "dense" \/ (Dev = "get_when_partial" /\ ph = "partial")
           IN last' = IF allowed THEN Ev("get", "ok", m) ELSE Ev("get", "panic", 0)

----------------------------------------------------------------------------
(* SuperMinHash, SuperMinHash2 ("smh") and SetSketcher ("ss")              *)

SSketch == /\ kind \in {"smh", "ss"} /\ Keep /\ UNCHANGED pos
           /\ last' = Ev("sketch", "ok", 0)
           /\ ph' = "fed"

SSlice(n) == /\ kind \in {"smh", "ss"} /\ Keep /\ UNCHANGED pos
             /\ IF n = 0
                THEN /\ last' = Ev("slice", "err", 0)
                     /\ ph' = IF Dev = "err_changes_state" THEN "fed" ELSE ph
                ELSE /\ last' = Ev("slice", "ok", 0)
                     /\ ph' = "fed"

SGet == /\ kind \in {"smh", "ss"} /\ Keep /\ UNCHANGED <<pos, ph>>
        /\ last' = Ev("get", "ok", m)

\* the estimator method with a sketch of the same / another length
SEstimate(samelen) == /\ kind = "smh" /\ Keep /\ UNCHANGED <<pos, ph>>
                      /\ last' = Ev("estimate", IF samelen THEN "ok" ELSE "err", 0)

\* merge with a sketcher of the same / other parameters, which has seen items or not
SMerge(samepar, otherfed) == /\ kind = "ss" /\ Keep /\ UNCHANGED pos
                             /\ IF samepar
                                THEN /\ last' = Ev("merge", "ok", 0)
                                     /\ ph' = IF otherfed THEN "fed" ELSE ph
                                ELSE /\ last' = Ev("merge", "err", 0)
                                     /\ ph' = ph

----------------------------------------------------------------------------
(* ProbMinHash2 ("pmh": item-wise and batch entry points, reset),          *)
(* ProbMinHash3 ("pmh3": the same without reset, size >= 2) and            *)
(* ProbMinHash3a ("pmha": batch entry points only, size >= 2)              *)

PItem(good) == /\ kind \in {"pmh", "pmh3"} /\ Keep /\ UNCHANGED pos
               /\ IF good
                  THEN /\ last' = Ev("item", "ok", 0)
                       /\ ph' = "fed"
                  ELSE /\ last' = Ev("item", "panic", 0)
                       /\ ph' = ph

\* a batch of n items of which the one at position bad (0 = none) has a weight the entry point refuses (ProbMinHash2/3:
\* not > 0; ProbMinHash3a: negative or not finite - a zero weight is accepted there and the item ignored);
\* eff: an item with a positive weight comes before the refused one (or anywhere in an accepted batch)
PBatch(n, bad, eff) == /\ kind \in {"pmh", "pmh3", "pmha"} /\ Keep /\ UNCHANGED pos
                       /\ bad \in 0..n
                       /\ eff => n > 0 /\ bad # 1
                       /\ last' = Ev("batch", IF bad = 0 THEN "ok" ELSE "panic", 0)
                       \* PartialBatch: the items before the refused one stay applied
                       /\ ph' = IF eff THEN "fed" ELSE ph

PGet == /\ kind \in {"pmh", "pmh3", "pmha"} /\ Keep /\ UNCHANGED <<pos, ph>>
        /\ last' = Ev("get", "ok", m)

----------------------------------------------------------------------------
(* ProbOrdMinHash2: one call per sequence                                  *)

OHashSet(longenough) == /\ kind = "ord" /\ Keep /\ UNCHANGED <<pos, ph>>
                        /\ last' = IF longenough THEN Ev("hash_set", "ok", m) ELSE Ev("hash_set", "panic", 0)

----------------------------------------------------------------------------
(* FYshuffle: pos = number of draws of the current block                   *)

FNext == /\ kind = "fy" /\ Keep /\ UNCHANGED ph
         /\ last' = Ev("next", "ok", 0)
         /\ pos' = IF pos >= m THEN 1 ELSE pos + 1

FValues == /\ kind = "fy" /\ Keep /\ UNCHANGED <<ph, pos>>
           /\ last' = Ev("values", "ok", m)

----------------------------------------------------------------------------
(* reinit (dens, smh, ss) / reset (pmh, fy): back to the fresh phase       *)

Reinit == /\ kind \in {"dens", "smh", "ss", "pmh", "fy"} /\ Keep
          /\ last' = Ev("reinit", "ok", 0)
          /\ ph' = IF Dev = "reinit_keeps" THEN ph ELSE Fresh(kind)
          /\ pos' = 0

Next == \/ DSketch \/ DEnd \/ DGet \/ \E n \in 0..2 : DSlice(n)
        \/ SSketch \/ SGet \/ \E n \in 0..2 : SSlice(n)
        \/ \E s \in BOOLEAN : SEstimate(s)
        \/ \E s, f \in BOOLEAN : SMerge(s, f)
        \/ \E g \in BOOLEAN : PItem(g)
        \/ \E n \in 0..3 : \E bad \in 0..n : \E eff \in BOOLEAN : PBatch(n, bad, eff)
        \/ PGet
        \/ \E g \in BOOLEAN : OHashSet(g)
        \/ FNext \/ FValues
        \/ Reinit

Spec == Init /\ [][Next]_vars

----------------------------------------------------------------------------
(* what TLC checks *)

\* a getter that succeeds returns a full sketch; a densified sketcher only gives one when no bin is empty
GetIsFull == last.op \in {"get", "values"} /\ last.out = "ok" => last.len = m
GetOnlyWhenDense == kind = "dens" /\ last.op = "get" /\ last.out = "ok" => ph = "dense"
\* finishing an empty densified sketcher is reported, never silently accepted
EmptyNotFinished == kind = "dens" /\ last.op \in {"end", "slice"} /\ last.out = "ok" => ph = "dense"
\* reinit / reset leads to the phase of a new object
ReinitIsFresh == last.op = "reinit" => ph = Fresh(kind) /\ pos = 0
PhaseOfKind == ph \in (CASE kind = "dens" -> {"empty", "partial", "dense"}
                         [] kind \in {"smh", "ss", "pmh", "pmh3", "pmha"} -> {"fresh", "fed"}
                         [] OTHER -> {"ready"})

\* an error return leaves the object as it was; a panic does too, except in the middle of a batch (PartialBatch)
ErrKeepsState == [][last'.out = "err" => ph' = ph /\ pos' = pos]_vars
PanicKeepsState == [][last'.out = "panic" /\ last'.op # "batch" => ph' = ph /\ pos' = pos]_vars
\* getters never change the phase
GettersPure == [][last'.op \in {"get", "values", "estimate"} => ph' = ph /\ pos' = pos]_vars
\* no call makes the object unusable: reinit/reset stays possible where it exists, and a dense sketch can always be reached
NeverStuck == kind \in {"dens", "smh", "ss", "pmh", "fy"} => ENABLED Reinit
=============================================================================
