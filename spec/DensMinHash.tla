------------------------------ MODULE DensMinHash ------------------------------
(* Densification of one-permutation hashing (src/densminhash.rs), C09 (and the     *)
(* structural half of C08).  The state before densification is an occupancy        *)
(* pattern: init[b] says whether bin b received an item; every pattern is an       *)
(* initial state.  src[b] = the originally populated bin whose (value, hash) pair  *)
(* bin b holds (M = none).                                                         *)
(*                                                                                 *)
(* Alg = "opt": for k = 0..M-1, an empty bin k repeatedly probes a bin j drawn     *)
(*   from a generator keyed by k until it hits a populated one and copies its      *)
(*   pair (bins filled earlier in the same pass count as populated, as in the      *)
(*   code).  Alg = "rev": passes over k = 0..M-1; every populated bin k pushes its *)
(*   pair to a target drawn from a generator keyed by (k, pass); an empty target   *)
(*   takes it; passes repeat until no bin is empty.                                *)
(* The draws are nondeterministic; termination is a liveness property under        *)
(* fairness of the draws that hit (the real generators are position-keyed, so on   *)
(* the code termination is decided per occupancy pattern by the harness).          *)
(* ReportEmpty = FALSE describes the code before the repair in /repo: with every   *)
(* bin empty the search never ends (TLC shows the lasso).                          *)
EXTENDS Integers, FiniteSets, TLC

CONSTANTS M, Alg, ReportEmpty

Bins == 0..(M-1)
VARIABLES init, src, k, phase, init0, nbempty
vars == <<init, src, k, phase, init0, nbempty>>

Init == /\ init \in [Bins -> BOOLEAN] /\ init0 = init
        /\ src = [b \in Bins |-> IF init[b] THEN b ELSE M]
        /\ nbempty = Cardinality({b \in Bins : ~init[b]})
        /\ k = 0 /\ phase = "call"

AllEmpty == \A b \in Bins : ~init[b]

(* end_sketch: nothing to do when no bin is empty (idempotence) *)
Enter == /\ phase = "call"
         /\ phase' = IF nbempty = 0 THEN "done"
                     ELSE IF ReportEmpty /\ nbempty = M THEN "failed" ELSE "densify"
         /\ UNCHANGED <<init, src, k, init0, nbempty>>

Fill(b, j) == /\ src' = [src EXCEPT ![b] = src[j]]
              /\ init' = [init EXCEPT ![b] = TRUE]
              /\ nbempty' = nbempty - 1

(* ---- optimal densification *)
OptSkip == /\ Alg = "opt" /\ phase = "densify" /\ k < M /\ init[k]
           /\ k' = k + 1 /\ UNCHANGED <<init, src, phase, init0, nbempty>>
OptHit  == /\ Alg = "opt" /\ phase = "densify" /\ k < M /\ ~init[k]
           /\ \E j \in Bins : init[j] /\ Fill(k, j)
           /\ k' = k + 1 /\ UNCHANGED <<phase, init0>>
OptMiss == /\ Alg = "opt" /\ phase = "densify" /\ k < M /\ ~init[k]
           /\ \E j \in Bins : ~init[j]
           /\ UNCHANGED vars
OptDone == /\ Alg = "opt" /\ phase = "densify" /\ k = M
           /\ phase' = "done" /\ UNCHANGED <<init, src, k, init0, nbempty>>

(* ---- reverse densification: k walks over the bins, one pass after the other *)
RevSkip == /\ Alg = "rev" /\ phase = "densify" /\ nbempty > 0 /\ ~init[k]
           /\ k' = (k + 1) % M /\ UNCHANGED <<init, src, phase, init0, nbempty>>
RevHit  == /\ Alg = "rev" /\ phase = "densify" /\ nbempty > 0 /\ init[k]
           /\ \E j \in Bins : ~init[j] /\ Fill(j, k)
           /\ k' = (k + 1) % M /\ UNCHANGED <<phase, init0>>
RevMiss == /\ Alg = "rev" /\ phase = "densify" /\ nbempty > 0 /\ init[k]
           /\ \E j \in Bins : init[j]
           /\ k' = (k + 1) % M /\ UNCHANGED <<init, src, phase, init0, nbempty>>
RevDone == /\ Alg = "rev" /\ phase = "densify" /\ nbempty = 0
           /\ phase' = "done" /\ UNCHANGED <<init, src, k, init0, nbempty>>

Next == Enter \/ OptSkip \/ OptHit \/ OptMiss \/ OptDone \/ RevSkip \/ RevHit \/ RevMiss \/ RevDone
Spec == /\ Init /\ [][Next]_vars
        /\ WF_vars(Enter) /\ WF_vars(OptSkip) /\ WF_vars(OptHit) /\ WF_vars(OptDone)
        /\ WF_vars(RevSkip) /\ SF_vars(RevHit) /\ WF_vars(RevDone)

(* ---- C09 *)
Untouched == \A b \in Bins : init0[b] => src[b] = b                                   \* populated bins untouched
CopiedFromPopulated == phase = "done" => \A b \in Bins : src[b] \in Bins /\ init0[src[b]]   \* every bin holds a populated bin's pair
CountOK == nbempty = Cardinality({b \in Bins : ~init[b]})
Idempotent == (phase = "done" /\ \A b \in Bins : init0[b]) => src = [b \in Bins |-> b]  \* finishing a finished sketch changes nothing
FailOnlyEmpty == phase = "failed" => \A b \in Bins : ~init0[b]
Terminates == <>(phase \in {"done", "failed"})
================================================================================
