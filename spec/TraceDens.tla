------------------------------- MODULE TraceDens -------------------------------
(* Trace validation for the densified one-permutation sketchers (C09; densified    *)
(* part of C04, C13).  own[i][k] = the item whose (value, hash) pair bin k of      *)
(* instance i holds, 0 = empty.  Header of a run: alg, m, ninst and the measured   *)
(* table tab[x] = <<bin, rank of the value>> of every item.                        *)
(*   sk  : the item's pair replaces the bin's pair iff its value is smaller; on an  *)
(*         exact tie of the values either pair may stay (the rule is the code's    *)
(*         business) - but the choice must be a function of the SET streamed into  *)
(*         the instance, not of the order (smap), which is what C04 demands;       *)
(*   en  : R1 populated bins untouched, R2 every empty bin receives the pair of a  *)
(*         bin that was populated before the call, R6 nothing changes when no bin  *)
(*         is empty, and on a sketch that received nothing the call must FAIL      *)
(*         (error or panic) - not hang, not return normally;                       *)
(*   sl  : = sk* followed by densification when a bin is empty (R5);               *)
(*   re  : everything empty again.                                                 *)
(* Determinism: the result of densification is a function of the state before it   *)
(* (dmap), so sketch_slice and item-wise + end_sketch agree whenever they meet     *)
(* the same pre-state, in any order/chunking (C04).                                *)
(* Views (logged once no bin is empty): u64 view = stored hashes = own, float view *)
(* = value of the owner, u32 view = a function of the u64 view (umap) (R3, R4).    *)
EXTENDS Integers, Sequences, FiniteSets, TLC, Json, IOUtils

Rec == ndJsonDeserialize(IOEnv.TRACE)

VARIABLES l, h, own, dmap, umap, sets, smap
vars == <<l, h, own, dmap, umap, sets, smap>>

Has(r, f) == f \in DOMAIN r
Bins == 1..h.m
BinOf(x) == h.tab[x][1]
ValOf(x) == h.tab[x][2]

(* the possible owner vectors after streaming x: both outcomes on an exact tie between different items *)
SkOne(o, x) == LET b == BinOf(x) IN
               IF o[b] = 0 \/ ValOf(x) < ValOf(o[b]) THEN {[o EXCEPT ![b] = x]}
               ELSE IF ValOf(x) = ValOf(o[b]) /\ o[b] # x THEN {o, [o EXCEPT ![b] = x]}
               ELSE {o}
RECURSIVE SkSeq(_, _)
SkSeq(os, xs) == IF xs = <<>> THEN os ELSE SkSeq(UNION {SkOne(o, Head(xs)) : o \in os}, Tail(xs))
Range(s) == {s[k] : k \in 1..Len(s)}
(* set semantics (C04): while an instance has not been finished since its last reinit, its owners are a function
   of the set of items streamed into it; sets[i] = <<clean, set>> *)
SetOK(i, S, o) == sets[i][1] => (S \in DOMAIN smap => smap[S] = o)
SmapNext(i, S, o) == IF sets[i][1] /\ S \notin DOMAIN smap
                     THEN [T \in DOMAIN smap \cup {S} |-> IF T = S THEN o ELSE smap[T]] ELSE smap

NbEmpty(o) == Cardinality({k \in Bins : o[k] = 0})
Sources(o) == {o[k] : k \in Bins} \ {0}

(* the state after densification as the trace shows it *)
Shown(r) == [k \in Bins |-> r.it[k]]

DensOK(pre, post) ==
  /\ \A k \in Bins : pre[k] # 0 => post[k] = pre[k]                       \* R1
  /\ \A k \in Bins : pre[k] = 0 => post[k] \in Sources(pre)               \* R2
  /\ (pre \in DOMAIN dmap => post = dmap[pre])                            \* determinism (R5)

ObsOK(r, o) ==
  /\ Len(r.it) = h.m /\ \A k \in Bins : r.it[k] = o[k]
  /\ \A k \in Bins : r.rv[k] = (IF o[k] = 0 THEN 0 ELSE ValOf(o[k]))
  /\ r.ne = NbEmpty(o)
  /\ (NbEmpty(o) = 0) => /\ Has(r, "v64") /\ \A k \in Bins : r.v64[k] = o[k]     \* stored hashes are streamed items
                         /\ \A k \in Bins : r.vf[k] = ValOf(o[k])
                         /\ \A k \in Bins : (o[k] \in DOMAIN umap => r.v32[k] = umap[o[k]])
                         /\ \A j, k \in Bins : o[j] = o[k] => r.v32[j] = r.v32[k]

UmapNext(r, o) == IF NbEmpty(o) = 0 /\ Has(r, "v32")
                  THEN [x \in DOMAIN umap \cup {o[k] : k \in Bins} |->
                          IF x \in DOMAIN umap THEN umap[x] ELSE r.v32[CHOOSE k \in Bins : o[k] = x]]
                  ELSE umap

TraceInit == l = 2 /\ h = [m |-> 0] /\ own = <<>> /\ dmap = <<>> /\ umap = <<>> /\ sets = <<>> /\ smap = <<>>

IsEvent(e) == l <= Len(Rec) /\ Rec[l].op = e /\ l' = l + 1

New == /\ IsEvent("new")
       /\ h' = Rec[l]
       /\ own' = [i \in 1..Rec[l].ninst |-> [k \in 1..Rec[l].m |-> 0]]
       /\ dmap' = <<>> /\ umap' = <<>>
       /\ sets' = [i \in 1..Rec[l].ninst |-> <<TRUE, {}>>] /\ smap' = <<>>

Sketch == /\ IsEvent("sk")
          /\ LET r == Rec[l]  S == sets[r.i][2] \cup {r.x} IN
             \E o \in SkOne(own[r.i], r.x) :
                /\ r.out = "ok" /\ ObsOK(r, o) /\ SetOK(r.i, S, o)
                /\ own' = [own EXCEPT ![r.i] = o] /\ umap' = UmapNext(r, o)
                /\ smap' = SmapNext(r.i, S, o)
                /\ sets' = [sets EXCEPT ![r.i] = <<@[1], S>>]
          /\ UNCHANGED <<h, dmap>>

(* densification of pre as shown by event r; returns TRUE and binds the next state *)
Densify(r, pre) ==
  IF NbEmpty(pre) = 0 THEN
     /\ r.out = "ok" /\ ObsOK(r, pre)                                      \* R6: nothing to do
     /\ own' = [own EXCEPT ![r.i] = pre] /\ dmap' = dmap /\ umap' = UmapNext(r, pre)
  ELSE IF NbEmpty(pre) = h.m THEN
     /\ r.out = "fail" /\ ObsOK(r, pre)                                    \* nothing streamed: report, do not hang
     /\ own' = [own EXCEPT ![r.i] = pre] /\ dmap' = dmap /\ umap' = umap
  ELSE LET post == Shown(r) IN
     /\ r.out = "ok" /\ DensOK(pre, post) /\ ObsOK(r, post)
     /\ own' = [own EXCEPT ![r.i] = post]
     /\ dmap' = [p \in DOMAIN dmap \cup {pre} |-> IF p = pre THEN post ELSE dmap[p]]
     /\ umap' = UmapNext(r, post)

(* a finishing call that really densifies ends the "clean" phase of the instance *)
Finished(i, pre) == [sets EXCEPT ![i] = <<@[1] /\ (NbEmpty(pre) = 0 \/ NbEmpty(pre) = h.m), @[2]>>]

End == /\ IsEvent("en")
       /\ Densify(Rec[l], own[Rec[l].i])
       /\ sets' = Finished(Rec[l].i, own[Rec[l].i]) /\ UNCHANGED <<h, smap>>

Slice == /\ IsEvent("sl")
         /\ LET r == Rec[l]  S == sets[r.i][2] \cup Range(r.xs) IN
            \E pre \in SkSeq({own[r.i]}, r.xs) :
               /\ SetOK(r.i, S, pre)
               /\ Densify(r, pre)
               /\ smap' = SmapNext(r.i, S, pre)
               /\ sets' = [Finished(r.i, pre) EXCEPT ![r.i] = <<@[1], S>>]
         /\ UNCHANGED h

Reinit == /\ IsEvent("re")
          /\ LET r == Rec[l]  o == [k \in Bins |-> 0]
             IN /\ r.out = "ok" /\ ObsOK(r, o) /\ own' = [own EXCEPT ![r.i] = o]
                /\ sets' = [sets EXCEPT ![r.i] = <<TRUE, {}>>]
          /\ UNCHANGED <<h, dmap, umap, smap>>

TraceNext == New \/ Sketch \/ End \/ Slice \/ Reinit
TraceSpec == TraceInit /\ [][TraceNext]_vars

TraceAccepted ==
  LET d == TLCGet("stats").diameter IN
  IF d = Len(Rec) THEN TRUE
  ELSE PrintT(<<"TRACE-REJECT", d, Len(Rec)>>) /\ FALSE
================================================================================
