------------------------------- MODULE TraceDens -------------------------------
(* Trace validation for the densified one-permutation sketchers (C09; densified    *)
(* part of C04, C13).  own[i][k] = the item whose (value, hash) pair bin k of      *)
(* instance i holds, 0 = empty.  Header of a run: alg, m, ninst and the measured   *)
(* table tab[x] = <<bin, rank of the value>> of every item.                        *)
(*   sk  : the item's pair replaces the bin's pair iff its value is <= (as the     *)
(*         code does, also on a finished sketch);                                  *)
(*   en  : R1 populated bins untouched, R2 every empty bin receives the pair of a  *)
(*         bin that was populated before the call, R6 nothing changes when no bin  *)
(*         is empty, and on a sketch that received nothing the call must FAIL      *)
(*         (error or panic) - not hang, not return normally;                       *)
(*   sl  : = sk* followed by densification when a bin is empty (R5);               *)
(*   re  : everything empty again.                                                 *)
(* Determinism: the result of densification is a function of the state before it   *)
(* (dmap), so sketch_slice and item-wise + end_sketch agree whenever they meet     *)
(* the same pre-state, in any order/chunking (C04).                                *)
(* Views (logged once no bin is empty): u64 view = stored hashes = own, float view *)
(* = value of the owner, u32 view = a function of the u64 view (umap) (R3, R4).    *)
EXTENDS Integers, Sequences, FiniteSets, TLC, Json, IOUtils

Rec == ndJsonDeserialize(IOEnv.TRACE)

VARIABLES l, h, own, dmap, umap
vars == <<l, h, own, dmap, umap>>

Has(r, f) == f \in DOMAIN r
Bins == 1..h.m
BinOf(x) == h.tab[x][1]
ValOf(x) == h.tab[x][2]

SkOne(o, x) == LET b == BinOf(x) IN
               IF o[b] = 0 \/ ValOf(x) <= ValOf(o[b]) THEN [o EXCEPT ![b] = x] ELSE o
RECURSIVE SkSeq(_, _)
SkSeq(o, xs) == IF xs = <<>> THEN o ELSE SkSeq(SkOne(o, Head(xs)), Tail(xs))

NbEmpty(o) == Cardinality({k \in Bins : o[k] = 0})
Sources(o) == {o[k] : k \in Bins} \ {0}

(* the state after densification as the trace shows it *)
Shown(r) == [k \in Bins |-> r.it[k]]

DensOK(pre, post) ==
  /\ \A k \in Bins : pre[k] # 0 => post[k] = pre[k]                       \* R1
  /\ \A k \in Bins : pre[k] = 0 => post[k] \in Sources(pre)               \* R2
  /\ (pre \in DOMAIN dmap => post = dmap[pre])                            \* determinism (R5)

ObsOK(r, o) ==
  /\ Len(r.it) = h.m /\ \A k \in Bins : r.it[k] = o[k]
  /\ \A k \in Bins : r.rv[k] = (IF o[k] = 0 THEN 0 ELSE ValOf(o[k]))
  /\ r.ne = NbEmpty(o)
  /\ (NbEmpty(o) = 0) => /\ Has(r, "v64") /\ \A k \in Bins : r.v64[k] = o[k]     \* stored hashes are streamed items
                         /\ \A k \in Bins : r.vf[k] = ValOf(o[k])
                         /\ \A k \in Bins : (o[k] \in DOMAIN umap => r.v32[k] = umap[o[k]])
                         /\ \A j, k \in Bins : o[j] = o[k] => r.v32[j] = r.v32[k]

UmapNext(r, o) == IF NbEmpty(o) = 0 /\ Has(r, "v32")
                  THEN [x \in DOMAIN umap \cup {o[k] : k \in Bins} |->
                          IF x \in DOMAIN umap THEN umap[x] ELSE r.v32[CHOOSE k \in Bins : o[k] = x]]
                  ELSE umap

TraceInit == l = 2 /\ h = [m |-> 0] /\ own = <<>> /\ dmap = <<>> /\ umap = <<>>

IsEvent(e) == l <= Len(Rec) /\ Rec[l].op = e /\ l' = l + 1

New == /\ IsEvent("new")
       /\ h' = Rec[l]
       /\ own' = [i \in 1..Rec[l].ninst |-> [k \in 1..Rec[l].m |-> 0]]
       /\ dmap' = <<>> /\ umap' = <<>>

Sketch == /\ IsEvent("sk")
          /\ LET r == Rec[l]  o == SkOne(own[r.i], r.x)
             IN /\ r.out = "ok" /\ ObsOK(r, o)
                /\ own' = [own EXCEPT ![r.i] = o] /\ umap' = UmapNext(r, o)
          /\ UNCHANGED <<h, dmap>>

(* densification of pre as shown by event r; returns TRUE and binds the next state *)
Densify(r, pre) ==
  IF NbEmpty(pre) = 0 THEN
     /\ r.out = "ok" /\ ObsOK(r, pre)                                      \* R6: nothing to do
     /\ own' = [own EXCEPT ![r.i] = pre] /\ dmap' = dmap /\ umap' = UmapNext(r, pre)
  ELSE IF NbEmpty(pre) = h.m THEN
     /\ r.out = "fail" /\ ObsOK(r, pre)                                    \* nothing streamed: report, do not hang
     /\ own' = [own EXCEPT ![r.i] = pre] /\ dmap' = dmap /\ umap' = umap
  ELSE LET post == Shown(r) IN
     /\ r.out = "ok" /\ DensOK(pre, post) /\ ObsOK(r, post)
     /\ own' = [own EXCEPT ![r.i] = post]
     /\ dmap' = [p \in DOMAIN dmap \cup {pre} |-> IF p = pre THEN post ELSE dmap[p]]
     /\ umap' = UmapNext(r, post)

End == /\ IsEvent("en")
       /\ Densify(Rec[l], own[Rec[l].i])
       /\ UNCHANGED h

Slice == /\ IsEvent("sl")
         /\ Densify(Rec[l], SkSeq(own[Rec[l].i], Rec[l].xs))
         /\ UNCHANGED h

Reinit == /\ IsEvent("re")
          /\ LET r == Rec[l]  o == [k \in Bins |-> 0]
             IN /\ r.out = "ok" /\ ObsOK(r, o) /\ own' = [own EXCEPT ![r.i] = o]
          /\ UNCHANGED <<h, dmap, umap>>

TraceNext == New \/ Sketch \/ End \/ Slice \/ Reinit
TraceSpec == TraceInit /\ [][TraceNext]_vars

TraceAccepted ==
  LET d == TLCGet("stats").diameter IN
  IF d = Len(Rec) THEN TRUE
  ELSE PrintT(<<"TRACE-REJECT", d, Len(Rec)>>) /\ FALSE
================================================================================
