---------------------------- MODULE TraceInvHash ----------------------------
(* C19, direction implementation -> specification.                               *)
(* The harness records, for words x, the results of the real functions:          *)
(*   line 1      {"kind":"C19","w":W,"n":number of records}                      *)
(*   line n >= 2 {"x":[..],"h":[..],"ih":[..]}   bit arrays, least significant   *)
(*               bit first;  h = intW_hash(x),  ih = intW_hash_inverse(x)         *)
(* Every record gives two independent initial states (several workers share      *)
(* them): the forward program started on x has to end in h, the inverse program  *)
(* started on x has to end in ih, both executed statement by statement with the  *)
(* actions of InvHash.tla.                                                       *)
(* Conform reports *every* disagreement as <<"MISMATCH", line, "h"|"ih">> and is  *)
(* always TRUE: code # spec is not a violation of the property (lib/c19.py), the  *)
(* driver wants the complete list.  ConformStrict is the same statement as a real *)
(* invariant.  The driver also checks the number of distinct states,              *)
(* (Len(Rec)-1) * ((Len(Fwd)+1) + (Len(Inv)+1)), i.e. that every record was run.  *)
EXTENDS InvHash, Json, IOUtils

Rec == ndJsonDeserialize(IOEnv.TRACE)
ASSUME Rec[1].kind = "C19" /\ Rec[1].w = W /\ Len(Rec) = Rec[1].n + 1
ASSUME \A n \in 2..Len(Rec) : Len(Rec[n].x) = W /\ Len(Rec[n].h) = W /\ Len(Rec[n].ih) = W

VARIABLE line
WordOf(a) == TLCEval([i \in Idx |-> a[i + 1]])

TraceInit ==
  /\ line \in 2..Len(Rec)
  /\ \E d \in {"h", "ih"} :
       /\ prog = (IF d = "h" THEN Fwd ELSE Inv)
       /\ want = WordOf(IF d = "h" THEN Rec[line].h ELSE Rec[line].ih)
  /\ key = WordOf(Rec[line].x)
  /\ tmp = Zero
  /\ pc = 1

TraceNext == Next /\ UNCHANGED line
TraceSpec == TraceInit /\ [][TraceNext]_<<vars, line>>

Dir == IF prog = Fwd THEN "h" ELSE "ih"
Conform == (Done /\ key # want) => PrintT(<<"MISMATCH", line, Dir>>)
ConformStrict == Done => key = want
================================================================================
