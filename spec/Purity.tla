------------------------------- MODULE Purity -------------------------------
(* C12: a sketch is a pure function of (sketcher type, type parameters,          *)
(* constructor parameters, input).                                               *)
(*                                                                               *)
(* Layer A.  out is a partial function Key -> Digest.  Observe(env, key, d) is   *)
(* enabled iff key is not yet in DOMAIN out or out[key] = d : whatever instance, *)
(* thread or process (env) reports a digest for a key, it is THE digest of that  *)
(* key.  An observation for which Observe is not enabled is collected in rej;    *)
(* the property is  Functional == rej = {}.                                      *)
(*                                                                               *)
(* Layer B (what an implementation can do to break it).  An environment is a     *)
(* triple (process, thread, instance slot).  Constructing an instance fixes its  *)
(* seed: DefaultSeed, or - deviation SeedFromEntropy, which is what              *)
(* ProbOrdMinHash2::new does through ThreadRng - any value handed out by the     *)
(* environment.  An entry point that walks a std HashMap sees an arbitrary       *)
(* iteration order on every call (RandomState: per process random keys, changed  *)
(* for every map); deviation OrderLeaks lets that order reach the sketch.        *)
(* Digests are symbolic: the tuple of everything the computed bits depend on, so *)
(* two digests are equal iff the dependencies are (no accidental collisions).    *)
(* Actions of different environments interleave freely (any thread schedule),    *)
(* instances can be dropped and constructed again (any number of instances).     *)
(* change_rng_seed() is deliberately not an action: the property is about equal  *)
(* constructor parameters without re-seeding.                                    *)
(*                                                                               *)
(* The module also defines the grid of small configurations (Grid) that the      *)
(* driver realises on the real sketchers; with EmitGrid TLC prints it.           *)
EXTENDS Integers, Sequences, FiniteSets, TLC, Json

CONSTANTS Keys,            \* abstract keys
          Seeded,          \* keys whose sketcher type keeps a per-instance seed that enters the sketch
          UsesMap,         \* keys whose entry point iterates over a std HashMap
          Procs, Threads, Insts,
          Seeds,           \* values the environment can hand out as a seed
          DefaultSeed,     \* the fixed seed of a repaired constructor (\in Seeds)
          Orders,          \* iteration orders a HashMap can show
          CanonOrder,      \* what an order-insensitive computation sees (\in Orders)
          SeedFromEntropy, \* deviation: new() draws the seed from the environment
          OrderLeaks,      \* deviation: the sketch depends on the HashMap iteration order
          EmitGrid         \* TRUE: print the grid of small configurations

ASSUME /\ Seeded \subseteq Keys /\ UsesMap \subseteq Keys
       /\ DefaultSeed \in Seeds /\ CanonOrder \in Orders
       /\ Seeds \subseteq Nat
       /\ SeedFromEntropy \in BOOLEAN /\ OrderLeaks \in BOOLEAN

Env  == Procs \X Threads \X Insts
None == -1                 \* no live instance (seeds are naturals)

(* symbolic digest: key, and the part of the environment that reaches the bits *)
Dig(k, s, o) == <<k,
                  IF k \in Seeded THEN s ELSE DefaultSeed,
                  IF OrderLeaks /\ k \in UsesMap THEN o ELSE CanonOrder>>
Digests == {Dig(k, s, o) : k \in Keys, s \in Seeds, o \in Orders}

VARIABLES out,    \* Layer A: partial function Key -> Digest
          src,    \* environment of the first observation of a key (for the counterexample)
          seed,   \* seed[e]: seed of the live instance in slot e, None if there is none
          rej     \* observations <<env, key, digest>> for which Observe was not enabled
vars == <<out, src, seed, rej>>

Extend(f, k, v) == IF k \in DOMAIN f THEN f ELSE f @@ (k :> v)

(* ---- Layer A ---- *)
(* key \notin DOMAIN out \/ out[key] = d, written with IF so that TLC never applies out outside its domain *)
ObserveEnabled(k, d) == IF k \in DOMAIN out THEN out[k] = d ELSE TRUE

Observe(e, k, d) ==
  IF ObserveEnabled(k, d)
    THEN /\ out' = Extend(out, k, d)
         /\ src' = Extend(src, k, e)
         /\ rej' = rej
    ELSE /\ rej' = rej \cup {<<e, k, d>>}
         /\ UNCHANGED <<out, src>>

(* ---- Layer B ---- *)
Init == /\ out = [k \in {} |-> 0]
        /\ src = [k \in {} |-> 0]
        /\ seed = [e \in Env |-> None]
        /\ rej = {}

Construct(e) ==
  /\ seed[e] = None
  /\ \E s \in (IF SeedFromEntropy THEN Seeds ELSE {DefaultSeed}) : seed' = [seed EXCEPT ![e] = s]
  /\ UNCHANGED <<out, src, rej>>

Drop(e) ==
  /\ seed[e] # None
  /\ seed' = [seed EXCEPT ![e] = None]
  /\ UNCHANGED <<out, src, rej>>

Compute(e, k) ==
  /\ seed[e] # None
  /\ \E o \in Orders : Observe(e, k, Dig(k, seed[e], o))
  /\ UNCHANGED seed

Next == \E e \in Env : Construct(e) \/ Drop(e) \/ (\E k \in Keys : Compute(e, k))
Spec == Init /\ [][Next]_vars

TypeOK == /\ DOMAIN out \subseteq Keys /\ \A k \in DOMAIN out : out[k] \in Digests
          /\ DOMAIN src = DOMAIN out /\ \A k \in DOMAIN src : src[k] \in Env
          /\ seed \in [Env -> Seeds \cup {None}]
          /\ rej \subseteq (Env \X Keys \X Digests)

(* the property: one digest per key, in whatever environment it was computed *)
Functional == rej = {}

(* which level of the environment separates a rejected observation from the first one *)
Level(e1, e2) == IF e1[1] # e2[1] THEN "process" ELSE IF e1[2] # e2[2] THEN "thread" ELSE "instance"
Witness == {<<r[2], Level(src[r[2]], r[1]), out[r[2]], r[3]>> : r \in rej}
(* finer statements, used to show at which levels a deviation separates two observations *)
PureAt(level) == \A w \in Witness : w[2] # level
PureInstance  == PureAt("instance")
PureThread    == PureAt("thread")
PureProcess   == PureAt("process")

(* ---- grid of small configurations realised on the real sketchers ---- *)
KSuper  == {"smh_f64_fnv", "smh_f32_fnv", "smh_f64_no", "smh_f32_no"}
KSuper2 == {"smh2_u64_fnv", "smh2_u64_no", "smh2_u32_xx"}
KSet    == {"ss_u16", "ss_u32"}
KDens   == {"dens_f32_fnv", "dens_f64_fnv", "rev_f32_fnv", "rev_f64_fnv"}
KOrd    == {"ord2_fnv"}
KProb   == {"pmh2", "pmh3", "pmh3a", "pmh3asha"}
Kinds   == KSuper \cup KSuper2 \cup KSet \cup KDens \cup KOrd \cup KProb
GridM   == {1, 2, 3, 4, 16}
Shapes  == {"one", "few", "repeats", "weights"}
ShapeLen(s) == CASE s = "one" -> 1 [] s = "few" -> 5 [] s = "repeats" -> 8 [] s = "weights" -> 6
Entries(k) == CASE k \in KSuper \cup KSuper2 \cup KSet \cup KDens -> {"item", "slice"}
                [] k \in KOrd -> {"seq"}
                [] k = "pmh2" -> {"item", "slice", "hashmap"}
                [] k = "pmh3" -> {"item", "slice", "idxmap", "hashmap"}
                [] OTHER -> {"idxmap", "hashmap"}
Variants(k) == CASE k \in KSet -> 1..4      \* index of the (b, a, q) tuple
                 [] k \in KOrd -> 1..3      \* l
                 [] OTHER -> {0}
Valid(k, m, s, e, v) ==
  /\ (s = "weights") => k \in KProb                     \* only weighted sketchers see weights
  /\ (s = "repeats") => e \notin {"idxmap", "hashmap"}  \* a map has no repeated keys
  /\ (k \in KProb) => m >= 2                            \* documented: at least 2 hash values
  /\ (k \in KOrd) => (ShapeLen(s) >= v /\ m >= 2)        \* documented: data length >= l
Grid == {g \in [kind : Kinds, m : GridM, shape : Shapes, entry : {"item", "slice", "idxmap", "hashmap", "seq"}, variant : 0..4] :
           /\ g.entry \in Entries(g.kind) /\ g.variant \in Variants(g.kind)
           /\ Valid(g.kind, g.m, g.shape, g.entry, g.variant)}

ASSUME EmitGrid => \A g \in Grid : PrintT(<<"KEY", ToJson(g)>>)
=============================================================================
