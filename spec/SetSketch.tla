------------------------------- MODULE SetSketch -------------------------------
(* SetSketch (src/setsketcher.rs), implementation-shaped (Layer B) against the      *)
(* observable semantics (Layer A), for C04, C05, C06 (monotone part), C13.          *)
(*                                                                                  *)
(* Randomness of an item x: a non-increasing sequence of register candidates        *)
(* ks[x][1..M] (x_j increases with j, so k_j = clip(1 - log_b x_j) decreases) and   *)
(* a permutation perm[x] of the positions.  Both are chosen in Init, so TLC         *)
(* explores every table.  Table of an item: Tab(x)[perm[x][j]] = min(ks[x][j],IMAX).*)
(*                                                                                  *)
(* Layer A: kvec = position-wise maximum of the tables of everything streamed or    *)
(*          merged in (set[i]).                                                     *)
(* Layer B: the loop of sketch(): stop at the first candidate <= lower_k, register  *)
(*          := max, every M-th successful update refresh lower_k := max(lower_k,    *)
(*          min register); merge = position-wise max, lower_k left as it is;        *)
(*          reinit field by field.                                                  *)
(* Mut selects a deviation (anti-vacuity): TLC must refute the invariants.          *)
EXTENDS Integers, Sequences, FiniteSets, TLC

CONSTANTS M, Q, IMAX, NItems, NInst, Mut

Items == 1..NItems
Inst  == 1..NInst
Pos   == 1..M
Regs  == 0..(Q+1)
Perms  == {p \in [Pos -> Pos] : \A i, j \in Pos : i # j => p[i] # p[j]}
NonInc == {s \in [Pos -> Regs] : \A i \in 1..(M-1) : s[i] >= s[i+1]}

VARIABLES ks, perm,                     \* the randomness (constant after Init)
          kvec, lowerk, nbmin, novf,    \* Layer B state per instance
          set,                          \* Layer A state per instance
          last                          \* last action, for the reinit property
vars == <<ks, perm, kvec, lowerk, nbmin, novf, set, last>>

Max2(a, b) == IF a > b THEN a ELSE b
Min2(a, b) == IF a < b THEN a ELSE b
MinOf(f) == CHOOSE v \in {f[p] : p \in Pos} : \A p \in Pos : v <= f[p]
MaxOf(f) == CHOOSE v \in {f[p] : p \in Pos} : \A p \in Pos : v >= f[p]

Tab(x) == [p \in Pos |-> LET j == CHOOSE j \in Pos : perm[x][j] = p IN Min2(ks[x][j], IMAX)]
Join(S) == [p \in Pos |-> IF S = {} THEN 0
              ELSE LET vs == {Tab(x)[p] : x \in S} IN CHOOSE v \in vs : \A w \in vs : w <= v]

ZeroVec == [p \in Pos |-> 0]

Init == /\ ks \in [Items -> NonInc] /\ perm \in [Items -> Perms]
        /\ kvec = [i \in Inst |-> ZeroVec] /\ lowerk = [i \in Inst |-> 0]
        /\ nbmin = [i \in Inst |-> 0] /\ novf = [i \in Inst |-> 0]
        /\ set = [i \in Inst |-> {}] /\ last = <<"init", 0>>

(* the for-loop of sketch(); both `break`s of the code collapse to k <= lower_k   *)
(* (lb_xj > -lower_k  <=>  1 - lb_xj < 1 + lower_k, and k = floor(1 - lb_xj)).     *)
RECURSIVE Loop(_, _, _, _, _, _)
Loop(x, j, kv, lo, nb, ov) ==
  IF j > M THEN <<kv, lo, nb, ov>>
  ELSE LET k == ks[x][j] IN
    IF k <= lo + (IF Mut = "lowplus" THEN 1 ELSE 0) THEN <<kv, lo, nb, ov>>
    ELSE LET i == perm[x][j] IN
      IF k > kv[i] THEN
         LET kv2 == [kv EXCEPT ![i] = Min2(k, IMAX)]
             ov2 == IF k > IMAX THEN ov + 1 ELSE ov
             nb2 == nb + 1
             flow == IF Mut = "lowmax" THEN MaxOf(kv2) ELSE MinOf(kv2)
             lo2 == IF nb2 % M = 0 THEN Max2(lo, flow) ELSE lo
         IN Loop(x, j + 1, kv2, lo2, nb2, ov2)
      ELSE Loop(x, j + 1, kv, lo, nb, ov)

Sketch(i, x) ==
  LET r == Loop(x, 1, kvec[i], lowerk[i], nbmin[i], novf[i]) IN
  /\ kvec' = [kvec EXCEPT ![i] = r[1]]
  /\ lowerk' = [lowerk EXCEPT ![i] = r[2]]
  /\ nbmin' = [nbmin EXCEPT ![i] = r[3] % M]            \* only nbmin mod M matters
  /\ novf' = [novf EXCEPT ![i] = Min2(r[4], 2)]          \* saturating: keeps the graph finite
  /\ set' = [set EXCEPT ![i] = @ \cup {x}]
  /\ last' = <<"sketch", i>>
  /\ UNCHANGED <<ks, perm>>

Merge(i, j) ==
  /\ i # j
  /\ kvec' = [kvec EXCEPT ![i] = [p \in Pos |->
                 IF Mut = "mergemin" THEN Min2(kvec[i][p], kvec[j][p]) ELSE Max2(kvec[i][p], kvec[j][p])]]
  /\ novf' = [novf EXCEPT ![i] = Min2(@ + novf[j], 2)]
  /\ set' = [set EXCEPT ![i] = @ \cup set[j]]
  /\ lowerk' = IF Mut = "mergelow" THEN [lowerk EXCEPT ![i] = Max2(@, MaxOf(kvec[j]))] ELSE lowerk
  /\ last' = <<"merge", i>>
  /\ UNCHANGED <<ks, perm, nbmin>>

Reinit(i) ==
  /\ kvec' = [kvec EXCEPT ![i] = ZeroVec]
  /\ lowerk' = IF Mut = "reinitlow" THEN lowerk ELSE [lowerk EXCEPT ![i] = 0]
  /\ nbmin' = [nbmin EXCEPT ![i] = 0]
  /\ novf' = [novf EXCEPT ![i] = 0]
  /\ set' = [set EXCEPT ![i] = {}]
  /\ last' = <<"reinit", i>>
  /\ UNCHANGED <<ks, perm>>

Next == \/ \E i \in Inst, x \in Items : Sketch(i, x)
        \/ \E i, j \in Inst : Merge(i, j)
        \/ \E i \in Inst : Reinit(i)
Spec == Init /\ [][Next]_vars

(* ---- the theorems ---- *)
Refines == \A i \in Inst : kvec[i] = Join(set[i])                 \* C04, C05
LowerOK == \A i \in Inst : lowerk[i] <= MinOf(kvec[i])            \* C05: reported lowest register
ReinitIsInit == \A i \in Inst : last = <<"reinit", i>> =>         \* C13
                  /\ kvec[i] = ZeroVec /\ lowerk[i] = 0 /\ nbmin[i] = 0 /\ novf[i] = 0 /\ set[i] = {}
(* C06, exact part with b = 2: the estimate c / Sum 2^-K never decreases *)
RECURSIVE SumPow(_, _)
SumPow(kv, p) == IF p = 0 THEN 0 ELSE 2^(Q + 1 - kv[p]) + SumPow(kv, p - 1)   \* = 2^(Q+1) * Sum 2^-K
EstimateMonotone == [][\A i \in Inst : last'[1] \in {"sketch", "merge"} /\ last'[2] = i
                         => SumPow(kvec'[i], M) <= SumPow(kvec[i], M)]_vars
================================================================================
