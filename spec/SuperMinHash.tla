----------------------------- MODULE SuperMinHash -----------------------------
(* SuperMinHash (src/superminhasher.rs), implementation-shaped (Layer B) against   *)
(* Layer A, for C03 (structure), C04, C05, C13.                                    *)
(*                                                                                 *)
(* Randomness of item x: for each step j in 0..M-1 a fraction fr[x][j] and a swap  *)
(* target kk[x][j] in j..M-1 (the Fisher-Yates draws); chosen in Init, so TLC      *)
(* explores every table.  Value of step j: r + j, encoded as the integer           *)
(* (j*G + fr)*K + x so that values of different items never tie.                   *)
(*                                                                                 *)
(* Layer A: hs[pos] = min over the set of Tab(x)[pos], where Tab(x) places value j *)
(*          at the position reached by a FULL Fisher-Yates shuffle from identity.  *)
(* Layer B: the lazily reset permutation (q[j] # item_rank => p[j] := j), the      *)
(*          histogram b of integer parts (capped at M-1), a_upper and the loop     *)
(*          `while j <= a_upper`; reinit field by field.                           *)
EXTENDS Integers, Sequences, FiniteSets, TLC

CONSTANTS M, NItems, G, MaxRank, Mut

Items == 1..NItems
Idx   == 0..(M-1)
LARGE == 1000000
K     == NItems + 1

VARIABLES fr, kk,                        \* randomness
          hs, bh, aup, q, p, irank,      \* Layer B
          set, last                      \* Layer A, last action
vars == <<fr, kk, hs, bh, aup, q, p, irank, set, last>>

Val(x, j)  == (j * G + fr[x][j]) * K + x
Floor(v)   == IF v = LARGE THEN LARGE ELSE (v \div K) \div G
Min2(a, b) == IF a < b THEN a ELSE b
KKs == {f \in [Idx -> Idx] : \A j \in Idx : f[j] >= j}
Swap(f, a, b) == [f EXCEPT ![a] = f[b], ![b] = f[a]]

InitB == /\ hs = [pos \in Idx |-> LARGE]
         /\ bh = [j \in Idx |-> IF j = M-1 THEN M ELSE 0]
         /\ aup = M-1
         /\ q = [j \in Idx |-> -1] /\ p = [j \in Idx |-> 0] /\ irank = 0

Init == /\ fr \in [Items -> [Idx -> 0..(G-1)]] /\ kk \in [Items -> KKs]
        /\ InitB /\ set = {} /\ last = "init"

(* Layer A table: full shuffle from the identity *)
RECURSIVE PermAt(_, _, _)
PermAt(x, j, f) == IF j < 0 THEN f ELSE Swap(PermAt(x, j-1, f), j, kk[x][j])
PosOf(x, j) == PermAt(x, j, [i \in Idx |-> i])[j]
Tab(x) == [pos \in Idx |-> LET j == CHOOSE j \in Idx : PosOf(x, j) = pos IN Val(x, j)]

(* the sketch loop; state <<hs, bh, aup, q, p>> *)
RECURSIVE Loop(_, _, _, _, _, _, _, _)
Loop(x, j, h, b, au, qq, pp, rk) ==
  IF (IF Mut = "jlt" THEN j >= au ELSE j > au) THEN <<h, b, au, qq, pp>>
  ELSE LET k   == kk[x][j]
           qj  == IF qq[j] # rk THEN [qq EXCEPT ![j] = rk] ELSE qq
           pj  == IF qq[j] # rk THEN [pp EXCEPT ![j] = j] ELSE pp
           qk  == IF qj[k] # rk THEN [qj EXCEPT ![k] = rk] ELSE qj
           pk  == IF qj[k] # rk /\ Mut # "nolazy" THEN [pj EXCEPT ![k] = k] ELSE pj
           p2  == Swap(pk, j, k)
           pos == p2[j]
           v   == Val(x, j)
       IN IF v < h[pos] THEN
            LET j2  == Min2(Floor(h[pos]), M-1)
                h2  == [h EXCEPT ![pos] = v]
                b2  == IF j < j2 THEN [b EXCEPT ![j2] = @ - 1, ![j] = @ + 1] ELSE b
                au2 == IF j < j2
                       THEN CHOOSE a \in Idx : a <= au /\ b2[a] > 0 /\ \A c \in Idx : (c > a /\ c <= au) => b2[c] = 0
                       ELSE au
            IN Loop(x, j+1, h2, b2, au2, qk, p2, rk)
          ELSE Loop(x, j+1, h, b, au, qk, p2, rk)

Sketch(x) ==
  LET o == Loop(x, 0, hs, bh, aup, q, p, irank) IN
  /\ hs' = o[1] /\ bh' = o[2] /\ aup' = o[3] /\ q' = o[4] /\ p' = o[5]
  /\ irank' = irank + 1
  /\ set' = set \cup {x} /\ last' = "sketch"
  /\ UNCHANGED <<fr, kk>>

Reinit ==
  /\ hs' = [pos \in Idx |-> LARGE]
  /\ q' = [j \in Idx |-> -1] /\ p' = [j \in Idx |-> 0]
  /\ bh' = IF Mut = "reinitb" THEN bh ELSE [j \in Idx |-> IF j = M-1 THEN M ELSE 0]
  /\ irank' = 0
  /\ aup' = IF Mut = "reinitaup" THEN aup ELSE M-1
  /\ set' = {} /\ last' = "reinit"
  /\ UNCHANGED <<fr, kk>>

Next == (\E x \in Items : Sketch(x)) \/ Reinit
Spec == Init /\ [][Next]_vars
RankBound == irank <= MaxRank

Refines == hs = [pos \in Idx |-> IF set = {} THEN LARGE ELSE
              LET vs == {Tab(x)[pos] : x \in set} IN CHOOSE v \in vs : \A w \in vs : v <= w]
Histo == \A j \in Idx : bh[j] = Cardinality({pos \in Idx : Min2(Floor(hs[pos]), M-1) = j})
AupOK == bh[aup] > 0 /\ \A j \in Idx : j > aup => bh[j] = 0
SingleIsPerm == \A x \in Items : set = {x} => {Floor(hs[pos]) : pos \in Idx} = Idx      \* C03, structure
ReinitIsInit == last = "reinit" => (InitB /\ set = {})                                     \* C13
================================================================================
