--------------------------- MODULE TraceMaxTracker ---------------------------
(* Trace validation for C15 (direction implementation -> specification).        *)
(* A trace is a header line followed by events recorded from the real tracker    *)
(* through the guarded wrapper; values are rank-abstracted per run (an order     *)
(* isomorphism), the type maximum is the constant Rec[1].inf.                    *)
(* The spec keeps only Layer A of MaxTracker.tla (per-slot minima) and demands   *)
(* that every logged observation equals the Layer-A function of the history.     *)
EXTENDS Integers, Sequences, FiniteSets, TLC, Json, IOUtils

Rec == ndJsonDeserialize(IOEnv.TRACE)
INF == Rec[1].inf

VARIABLES l, m, mins
vars == <<l, m, mins>>

Has(r, f) == f \in DOMAIN r
Max(S) == CHOOSE x \in S : \A y \in S : y <= x
MaxOf(mn, n) == Max({mn[k] : k \in 1..n})
Range(s) == {s[i] : i \in 1..Len(s)}

Obs(r, mn, old, n) ==
  /\ r.max = MaxOf(mn, n)
  /\ \A i \in 1..Len(r.probes) : r.probes[i][2] = (r.probes[i][1] < MaxOf(mn, n))
  /\ IF Has(r, "leaves")
       THEN Len(r.leaves) = n /\ \A k \in 1..n : r.leaves[k] = mn[k]
       ELSE {<<c[1], c[2]>> : c \in Range(r.chg)} = {<<k, mn[k]>> : k \in {j \in 1..n : mn[j] # old[j]}}

TraceInit == l = 2 /\ m = 0 /\ mins = <<>>

IsEvent(e) == l <= Len(Rec) /\ Rec[l].op = e /\ l' = l + 1

New == /\ IsEvent("new")
       /\ m' = Rec[l].m
       /\ mins' = [k \in 1..Rec[l].m |-> INF]

Update == /\ IsEvent("update")
          /\ LET r == Rec[l]
                 mn == [mins EXCEPT ![r.k] = IF r.v < @ THEN r.v ELSE @]
             IN /\ r.k \in 1..m
                /\ mins' = mn
                /\ Obs(r, mn, mins, m)
          /\ UNCHANGED m

Reset == /\ IsEvent("reset")
         /\ LET mn == [k \in 1..m |-> INF]
            IN mins' = mn /\ Obs(Rec[l], mn, mins, m)
         /\ UNCHANGED m

TraceNext == New \/ Update \/ Reset
TraceSpec == TraceInit /\ [][TraceNext]_vars

TraceAccepted ==
  LET d == TLCGet("stats").diameter IN
  IF d = Len(Rec) THEN TRUE
  ELSE PrintT(<<"TRACE-REJECT", d, Len(Rec)>>) /\ FALSE
================================================================================
