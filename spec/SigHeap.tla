------------------------------- MODULE SigHeap -------------------------------
(* C18: byte identities (trait Sig, src/probminhasher/sig.rs) are faithful and      *)
(* memory safe.                                                                      *)
(*                                                                                   *)
(* Part 1 (INIT Init / NEXT Next): a heap-ownership machine.  A block is             *)
(* [size, align, st, frees]; a program variable owns at most one buffer and          *)
(* remembers the layout it will hand to dealloc (a Vec<T> frees with                 *)
(* (cap*size_of<T>, align_of<T>)).  The implementations of get_sig are small         *)
(* programs over Alloc / Transfer / Alias / Forget / Free / Read, followed by what   *)
(* the caller does with the result: read all bytes, drop it, later drop the          *)
(* argument.  Free and Read have the guards of the GlobalAlloc contract; a program   *)
(* step whose guard is false is undefined behaviour and is recorded in `err`         *)
(* (FreeUB / ReadUB) so that the safety properties are plain invariants.             *)
(*                                                                                   *)
(* Part 2 (INIT BInit / NEXT BNext): Bytes(v) = native-endian concatenation of the   *)
(* limbs of the elements (UTF-8 for strings); TLC enumerates all values over small   *)
(* domains and checks length, round trip and injectivity, and prints every value     *)
(* with its bytes so that the harness can replay them on the real code.              *)
(*                                                                                   *)
(* The pure operators (FreeVerdict, ReadVerdict, AfterAlloc, AfterFree, Bytes...)    *)
(* are reused by TraceSigHeap.tla on allocator traces recorded from the real code.   *)
EXTENDS Integers, Sequences, FiniteSets, TLC, Json

CONSTANTS Progs,        \* set of get_sig implementations explored (strings, see Code)
          Widths,       \* element widths in bytes explored by the vector programs
          Lens,         \* vector lengths explored (0 = empty: no allocation)
          ForgetClone,  \* "reinterpret" program: TRUE = mem::forget(c) after from_raw_parts;
                        \* FALSE = today's Vec<u16>/Vec<u32>::get_sig (c is dropped)
          Little,       \* TRUE: little-endian target
          DropHigh,     \* deviation of Bytes: keep only the low byte of an element
          MaxLen,       \* bytes mode: vectors/strings of length 0..MaxLen
          Emit          \* bytes mode: print every value with its bytes

VARIABLES heap,   \* sequence of blocks [size, align, st, frees]
          own,    \* [Vars -> [b, size, align]]
          pc, prog, w, n,
          err,    \* set of undefined-behaviour kinds met so far
          rd,     \* the caller has read the result while it was live
          bv      \* bytes mode: the value under test
vars == <<heap, own, pc, prog, w, n, err, rd, bv>>

-----------------------------------------------------------------------------
(* the heap, as pure operators (shared with the trace specification)          *)

NewBlock(size, align) == [size |-> size, align |-> align, st |-> "live", frees |-> 0]
AfterAlloc(h, size, align) == Append(h, NewBlock(size, align))
Known(h, b) == b \in 1..Len(h)
Live(h, b)  == Known(h, b) /\ h[b].st = "live"

(* dealloc(b, size, align): the block must be currently allocated via this allocator *)
(* and the layout must be the one it was allocated with                               *)
FreeVerdict(h, b, size, align) ==
  IF ~Known(h, b) THEN "free_foreign"
  ELSE IF h[b].st # "live" THEN "double_free"
  ELSE IF h[b].size # size \/ h[b].align # align THEN "layout_mismatch"
  ELSE "ok"
AfterFree(h, b) == IF Known(h, b) THEN [h EXCEPT ![b].st = "freed", ![b].frees = @ + 1] ELSE h

ReadVerdict(h, b, off, len) ==
  IF ~Known(h, b) THEN "read_foreign"
  ELSE IF h[b].st # "live" THEN "read_after_free"
  ELSE IF off < 0 \/ off + len > h[b].size THEN "read_out_of_bounds"
  ELSE "ok"

-----------------------------------------------------------------------------
(* Part 1: programs                                                           *)

Vars  == {"self", "c", "tmp", "ret", "s"}
NoBlk == [b |-> 0, size |-> 0, align |-> 1]

I_alloc(v, size, align)          == [op |-> "alloc", v |-> v, from |-> v, size |-> size, align |-> align]
I_read(v)                        == [op |-> "read", v |-> v, from |-> v, size |-> 0, align |-> 1]
I_move(from, to)                 == [op |-> "move", v |-> to, from |-> from, size |-> 0, align |-> 0]
I_transfer(from, to, size, align) == [op |-> "transfer", v |-> to, from |-> from, size |-> size, align |-> align]
I_alias(from, to, size, align)   == [op |-> "alias", v |-> to, from |-> from, size |-> size, align |-> align]
I_drop(v)                        == [op |-> "drop", v |-> v, from |-> v, size |-> 0, align |-> 1]

(* what every caller does with the result s, then with its own argument *)
Caller == <<I_move("ret", "s"), I_read("s"), I_drop("s"), I_drop("self")>>

Code(p, ww, nn) ==
  CASE p = "scalar_ne"   ->   \* u8..i32: vec![x] / Vec::from(x.to_ne_bytes()); the argument has no buffer
         <<I_alloc("ret", ww, 1)>> \o Caller
    [] p = "clone"       ->   \* Vec<u8>::clone(), String: as_ref().to_vec()        (ww = 1)
         <<I_alloc("ret", nn * ww, 1), I_read("self")>> \o Caller
    [] p = "reinterpret" ->   \* Vec<u16>/Vec<u32> today: clone, as_mut_ptr, Vec::<u8>::from_raw_parts
         <<I_alloc("c", nn * ww, ww), I_read("self")>>
         \o (IF ForgetClone
               THEN <<I_transfer("c", "ret", nn * ww, 1)>>                 \* from_raw_parts + mem::forget(c)
               ELSE <<I_alias("c", "ret", nn * ww, 1), I_drop("c")>>)      \* c dies at the end of get_sig
         \o Caller
    [] p = "clone_into"  ->   \* clone, then hand the buffer over with the SAME layout (e.g. String::into_bytes, Vec -> Box<[T]>)
         <<I_alloc("c", nn * ww, ww), I_read("self"), I_transfer("c", "ret", nn * ww, ww)>> \o Caller
    [] p = "copy"        ->   \* proposed repair: iter().flat_map(|x| x.to_ne_bytes()).collect()
         <<I_alloc("ret", nn * ww, 1), I_read("self")>> \o Caller
    [] p = "copy_grow"   ->   \* the same when the collector starts small and reallocates once
         <<I_alloc("ret", ww, 1), I_read("self"), I_alloc("tmp", nn * ww, 1), I_read("ret"), I_drop("ret"),
           I_move("tmp", "ret"), I_read("self")>> \o Caller
    [] p = "alias_self"  ->   \* deviation: from_raw_parts on the argument's own buffer
         <<I_alias("self", "ret", nn * ww, 1)>> \o Caller

HasArgBuffer(p) == p # "scalar_ne"

Init ==
  /\ prog \in Progs
  /\ w \in Widths
  /\ n \in (IF prog = "scalar_ne" THEN {1} ELSE IF prog = "copy_grow" THEN Lens \ {0, 1} ELSE Lens)
  /\ heap = IF HasArgBuffer(prog) /\ n * w > 0 THEN <<NewBlock(n * w, w)>> ELSE <<>>
  /\ own = [v \in Vars |-> IF v = "self" /\ HasArgBuffer(prog) /\ n * w > 0
                             THEN [b |-> 1, size |-> n * w, align |-> w] ELSE NoBlk]
  /\ pc = 1
  /\ err = {}
  /\ rd = FALSE
  /\ bv = <<>>

Prg   == Code(prog, w, n)
Done  == pc > Len(Prg)
Instr == Prg[pc]
Owners(b) == {v \in Vars : own[v].b = b}

Advance == pc' = pc + 1 /\ UNCHANGED <<prog, w, n, bv>>

(* alloc(size, align); a zero-sized request is never made by Vec *)
Alloc ==
  /\ ~Done /\ Instr.op = "alloc"
  /\ IF Instr.size = 0
       THEN own' = [own EXCEPT ![Instr.v] = NoBlk] /\ UNCHANGED heap
       ELSE /\ heap' = AfterAlloc(heap, Instr.size, Instr.align)
            /\ own' = [own EXCEPT ![Instr.v] = [b |-> Len(heap) + 1, size |-> Instr.size, align |-> Instr.align]]
  /\ Advance /\ UNCHANGED <<err, rd>>

(* ownership moves, the layout belief is kept (return, assignment) *)
Move ==
  /\ ~Done /\ Instr.op = "move"
  /\ own' = [own EXCEPT ![Instr.v] = own[Instr.from], ![Instr.from] = NoBlk]
  /\ Advance /\ UNCHANGED <<heap, err, rd>>

(* ownership moves and the new owner will free with another layout: mem::forget + from_raw_parts *)
Transfer ==
  /\ ~Done /\ Instr.op = "transfer"
  /\ own' = [own EXCEPT ![Instr.v] = IF own[Instr.from].b = 0 THEN NoBlk
                                        ELSE [b |-> own[Instr.from].b, size |-> Instr.size, align |-> Instr.align],
                        ![Instr.from] = NoBlk]
  /\ Advance /\ UNCHANGED <<heap, err, rd>>

(* from_raw_parts WITHOUT giving up the old owner: two owners of one block *)
Alias ==
  /\ ~Done /\ Instr.op = "alias"
  /\ own' = [own EXCEPT ![Instr.v] = IF own[Instr.from].b = 0 THEN NoBlk
                                        ELSE [b |-> own[Instr.from].b, size |-> Instr.size, align |-> Instr.align]]
  /\ Advance /\ UNCHANGED <<heap, err, rd>>

CanFree(v) == /\ FreeVerdict(heap, own[v].b, own[v].size, own[v].align) = "ok"
              /\ Owners(own[v].b) = {v}
FreeKind(v) == LET k == FreeVerdict(heap, own[v].b, own[v].size, own[v].align)
               IN IF k = "ok" THEN "aliased_free" ELSE k

(* drop of a variable that owns nothing (empty vector, moved-from) *)
DropNothing ==
  /\ ~Done /\ Instr.op = "drop" /\ own[Instr.v].b = 0
  /\ Advance /\ UNCHANGED <<heap, own, err, rd>>

(* dealloc, guard of the allocator contract: live, owned once, same layout *)
Free ==
  /\ ~Done /\ Instr.op = "drop" /\ own[Instr.v].b # 0
  /\ CanFree(Instr.v)
  /\ heap' = AfterFree(heap, own[Instr.v].b)
  /\ own' = [own EXCEPT ![Instr.v] = NoBlk]
  /\ Advance /\ UNCHANGED <<err, rd>>

(* the same step when the guard is false: undefined behaviour, recorded *)
FreeUB ==
  /\ ~Done /\ Instr.op = "drop" /\ own[Instr.v].b # 0
  /\ ~CanFree(Instr.v)
  /\ heap' = AfterFree(heap, own[Instr.v].b)
  /\ own' = [own EXCEPT ![Instr.v] = NoBlk]
  /\ err' = err \cup {FreeKind(Instr.v)}
  /\ Advance /\ UNCHANGED rd

CanRead(v) == own[v].b = 0 \/ ReadVerdict(heap, own[v].b, 0, own[v].size) = "ok"

Read ==
  /\ ~Done /\ Instr.op = "read" /\ CanRead(Instr.v)
  /\ rd' = (rd \/ Instr.v = "s")
  /\ Advance /\ UNCHANGED <<heap, own, err>>

ReadUB ==
  /\ ~Done /\ Instr.op = "read" /\ ~CanRead(Instr.v)
  /\ err' = err \cup {ReadVerdict(heap, own[Instr.v].b, 0, own[Instr.v].size)}
  /\ Advance /\ UNCHANGED <<heap, own, rd>>

Next == Alloc \/ Move \/ Transfer \/ Alias \/ DropNothing \/ Free \/ FreeUB \/ Read \/ ReadUB
Spec == Init /\ [][Next]_vars

Blocks == 1..Len(heap)
InvNoDoubleFree == \A b \in Blocks : heap[b].frees <= 1
InvLayout       == "layout_mismatch" \notin err
InvReadLive     == "read_after_free" \notin err
InvUniqueOwner  == \A b \in Blocks : heap[b].st = "live" => Cardinality(Owners(b)) <= 1
InvNoDangling   == \A v \in Vars : own[v].b # 0 => Live(heap, own[v].b)
InvSafe         == err = {}
(* at the end every block (the result's buffer, temporaries, the argument) was freed exactly once, *)
(* and the result was read while live                                                              *)
InvExactlyOnce  == Done => \A b \in Blocks : heap[b].st = "freed" /\ heap[b].frees = 1
InvResultRead   == Done => rd

-----------------------------------------------------------------------------
(* Part 2: byte identities.                                                   *)
(* An element of width ww bytes is given by its base-65536 digits, most        *)
(* significant first (one digit < 256 when ww = 1): TLC integers are 32 bit.   *)

NChunks(ww) == IF ww = 1 THEN 1 ELSE ww \div 2
Rev(s) == [i \in 1..Len(s) |-> s[Len(s) + 1 - i]]

(* bytes of one element, most significant first *)
ElemMSB(e, ww) ==
  IF ww = 1 THEN <<e[1]>>
  ELSE [i \in 1..ww |-> IF i % 2 = 1 THEN e[(i + 1) \div 2] \div 256 ELSE e[i \div 2] % 256]

(* native-endian bytes of one element *)
ElemNE(e, ww) ==
  LET m == ElemMSB(e, ww) IN
  IF DropHigh THEN <<m[ww]>> ELSE IF Little THEN Rev(m) ELSE m

OutW(ww) == IF DropHigh THEN 1 ELSE ww

(* native-endian concatenation of the elements of a vector (a scalar is a vector of length 1) *)
BytesVec(v, ww) ==
  LET ow == OutW(ww) IN
  [i \in 1..(ow * Len(v)) |-> ElemNE(v[((i - 1) \div ow) + 1], ww)[((i - 1) % ow) + 1]]

(* inverse on well-formed input: the value is recovered from its bytes *)
DecodeVec(bs, ww) ==
  [k \in 1..(Len(bs) \div ww) |->
     LET ne == [j \in 1..ww |-> bs[(k - 1) * ww + j]]
         m  == IF Little THEN Rev(ne) ELSE ne
     IN IF ww = 1 THEN <<m[1]>> ELSE [j \in 1..(ww \div 2) |-> m[2 * j - 1] * 256 + m[2 * j]]]

(* two's complement: digits of a signed integer of width ww (2 or 4) *)
TwosChunks(x, ww) ==
  LET k  == NChunks(ww)
      m  == IF x >= 0 THEN x ELSE -(x + 1)
      c  == [i \in 1..k |-> IF i = k THEN m % 65536 ELSE (m \div 65536) % 65536]
  IN IF x >= 0 THEN c ELSE [i \in 1..k |-> 65535 - c[i]]

Utf8(cp) ==
  IF cp < 128 THEN <<cp>>
  ELSE IF cp < 2048 THEN <<192 + (cp \div 64), 128 + (cp % 64)>>
  ELSE IF cp < 65536 THEN <<224 + (cp \div 4096), 128 + ((cp \div 64) % 64), 128 + (cp % 64)>>
  ELSE <<240 + (cp \div 262144), 128 + ((cp \div 4096) % 64), 128 + ((cp \div 64) % 64), 128 + (cp % 64)>>

RECURSIVE CatUtf8(_, _)
CatUtf8(cps, i) == IF i > Len(cps) THEN <<>> ELSE Utf8(cps[i]) \o CatUtf8(cps, i + 1)
BytesStr(cps) == CatUtf8(cps, 1)

(* kind: "scalar" / "vec" (val: sequence of digit sequences), "signed" (val: <<integer>>), "string" (val: code points) *)
Bytes(kind, ww, val) ==
  CASE kind = "string" -> BytesStr(val)
    [] kind = "signed" -> BytesVec(<<TwosChunks(val[1], ww)>>, ww)
    [] OTHER           -> BytesVec(val, ww)

(* small domains *)
SeqsUpTo(S, k) == UNION {[1..j -> S] : j \in 0..k}
B4 == {0, 1, 2, 255}
ScalarElems(ww) ==
  CASE ww = 1 -> {<<x>> : x \in 0..255}                                    \* every u8
    [] ww = 2 -> {<<h * 256 + l>> : h \in B4, l \in B4}
    [] ww = 4 -> {<<a, b>> : a \in {0, 1, 256, 65535}, b \in {0, 1, 256, 65535}}
    [] ww = 8 -> {<<a, b, c, d>> : a \in {0, 1, 65535}, b \in {0, 256, 65535}, c \in {0, 1, 65535}, d \in {0, 256, 65535}}
VecElems(ww) ==
  CASE ww = 1 -> {<<0>>, <<1>>, <<2>>, <<255>>}
    [] ww = 2 -> {<<0>>, <<1>>, <<256>>, <<65535>>}                         \* [0x0100] vs [0x0001]
    [] ww = 4 -> {<<0, 0>>, <<0, 1>>, <<1, 0>>, <<256, 65535>>}
SignedInts(ww) ==
  IF ww = 2 THEN {-32768, -32767, -257, -256, -255, -2, -1, 0, 1, 2, 255, 256, 257, 32766, 32767}
  ELSE {-2147483647 - 1, -2147483647, -65537, -65536, -65535, -257, -256, -1, 0, 1, 256, 65535, 65536, 65537, 2147483647}
CodePoints == {65, 233, 8364, 128512}        \* A, e-acute, euro sign, an emoji: 1, 2, 3, 4 bytes

BVals(kind, ww) ==
  CASE kind = "scalar" -> {<<e>> : e \in ScalarElems(ww)}
    [] kind = "signed" -> {<<x>> : x \in SignedInts(ww)}
    [] kind = "vec"    -> SeqsUpTo(VecElems(ww), MaxLen)
    [] kind = "string" -> SeqsUpTo(CodePoints, MaxLen)

BTypes == {<<"scalar", 1>>, <<"scalar", 2>>, <<"scalar", 4>>, <<"scalar", 8>>, <<"signed", 2>>, <<"signed", 4>>,
           <<"vec", 1>>, <<"vec", 2>>, <<"vec", 4>>, <<"string", 1>>}

BInit ==
  /\ \E t \in BTypes : \E v \in BVals(t[1], t[2]) : bv = [kind |-> t[1], w |-> t[2], val |-> v]
  /\ heap = <<>> /\ own = <<>> /\ pc = 0 /\ prog = "" /\ w = 0 /\ n = 0 /\ err = {} /\ rd = FALSE
BNext == UNCHANGED vars

MyBytes == Bytes(bv.kind, bv.w, bv.val)
InvLen == CASE bv.kind = "string" -> Len(MyBytes) >= Len(bv.val) /\ Len(MyBytes) <= 4 * Len(bv.val)
            [] OTHER -> Len(MyBytes) = bv.w * Len(bv.val)
InvByteRange == \A i \in 1..Len(MyBytes) : MyBytes[i] \in 0..255
InvRoundTrip == bv.kind \in {"scalar", "vec"} => DecodeVec(MyBytes, bv.w) = bv.val
(* (for the scalar kinds injectivity follows from InvRoundTrip; the direct check is quadratic) *)
InvInjective == bv.kind # "scalar" => \A v2 \in BVals(bv.kind, bv.w) : v2 # bv.val => Bytes(bv.kind, bv.w, v2) # MyBytes
(* known answers *)
ASSUME Little /\ ~DropHigh => /\ BytesVec(<<<<256>>>>, 2) = <<0, 1>>
                              /\ BytesVec(<<<<1>>, <<0>>>>, 2) = <<1, 0, 0, 0>>
                              /\ BytesVec(<<<<258, 772>>>>, 4) = <<4, 3, 2, 1>>
                              /\ BytesVec(<<TwosChunks(-2, 4)>>, 4) = <<254, 255, 255, 255>>
                              /\ BytesStr(<<233, 8364>>) = <<195, 169, 226, 130, 172>>
InvEmit == Emit => PrintT(<<"BV", ToJson([kind |-> bv.kind, w |-> bv.w, val |-> bv.val, bytes |-> MyBytes])>>)
================================================================================
