----------------------------- MODULE TracePurity -----------------------------
(* Trace validation for C12 (direction implementation -> specification).         *)
(* Line 1 is a header, every other line is one observation                       *)
(*   {proc, thread, seq, key, digest}                                            *)
(* recorded from the real sketchers: digest is a 128-bit hash of the exact bits  *)
(* of the public sketch that instance number seq of thread `thread` of process   *)
(* `proc` computed for `key` (kind, type parameters, constructor parameters,     *)
(* input id).  The only action is Observe of Purity.tla (Layer A): an event is   *)
(* consumed iff its key has no digest yet or exactly this one.  There is no      *)
(* ordering constraint between events; the first event that carries a second,    *)
(* different digest for its key cannot be consumed and the trace is rejected at  *)
(* that line.  src remembers the line of the first observation of each key so    *)
(* that the rejection can name the two environments.                             *)
EXTENDS Integers, Sequences, FiniteSets, TLC, Json, IOUtils

Rec == ndJsonDeserialize(IOEnv.TRACE)

VARIABLES l, out, src
vars == <<l, out, src>>

(* key \notin DOMAIN out \/ out[key] = d, written with IF so that TLC never applies out outside its domain *)
ObserveEnabled(k, d) == IF k \in DOMAIN out THEN out[k] = d ELSE TRUE

TraceInit == /\ l = 2
             /\ out = ("" :> "")      \* sentinel entry: keeps the domain a set of strings (TLC turns an
             /\ src = ("" :> 0)       \* empty function into the empty tuple); no event has the key ""

Observe ==
  /\ l <= Len(Rec)
  /\ LET r == Rec[l] IN
       /\ r.proc \in Nat /\ r.thread \in Nat /\ r.seq \in Nat /\ r.key # ""
       /\ ObserveEnabled(r.key, r.digest)
       /\ IF r.key \in DOMAIN out
            THEN UNCHANGED <<out, src>>
            ELSE /\ out' = out @@ (r.key :> r.digest)
                 /\ src' = src @@ (r.key :> l)
  /\ l' = l + 1

TraceNext == Observe
TraceSpec == TraceInit /\ [][TraceNext]_vars

TraceAccepted ==
  LET d == TLCGet("stats").diameter IN
  IF d = Len(Rec) THEN TRUE
  ELSE PrintT(<<"TRACE-REJECT", d, Len(Rec)>>) /\ FALSE
================================================================================
